"""Front end (C12): program AST -> forest of logical lines -> physical lines under a
layout -> text, plus the Gallina printers for PFDL.Front.Lines.

lexeme  : (ANTLR symbolic token name, source text)
node    : (lexemes, children)            one logical line and the block indented under it
line    : dict(indent, lex, comment, trail, cr)   one *physical* line:
            indent  number of leading blanks (spaces only: the lexer's NL rule counts spaces)
            lex     lexemes on the line
            comment None or the text after '#'
            trail   blanks (spaces/tabs) between the last lexeme and the comment / line end
            cr      line ends with CR LF instead of LF
text    : (lines, final_newline)

A struct literal may span several physical lines (inside '{' ... '}' the lexer is in its
JSON mode, where line breaks are white space)."""
from fractions import Fraction

import pfdl_ast

KEYWORDS = {"Struct": "STRUCT", "Task": "TASK", "In": "IN", "Out": "OUT", "Loop": "LOOP",
            "While": "WHILE", "To": "TO", "Parallel": "PARALLEL", "Condition": "CONDITION",
            "Passed": "PASSED", "Failed": "FAILED", "OnDone": "ON_DONE", "End": "END",
            "number": "NUMBER_P", "string": "STRING_P", "boolean": "BOOLEAN_P",
            "true": "TRUE", "false": "FALSE", "And": "BOOLEAN_AND", "Or": "BOOLEAN_OR"}
PUNCT = {":": "COLON", ".": "DOT", ",": "COMMA", "[": "ARRAY_LEFT", "]": "ARRAY_RIGHT",
         "(": "LEFT_PARENTHESIS", ")": "RIGHT_PARENTHESIS", "<": "LESS_THAN",
         "<=": "LESS_THAN_OR_EQUAL", ">": "GREATER_THAN", ">=": "GREATER_THAN_OR_EQUAL",
         "==": "EQUAL", "!=": "NOT_EQUAL", "!": "BOOLEAN_NOT", "*": "STAR", "/": "SLASH",
         "-": "MINUS", "+": "PLUS"}
JSON_NAMES = {"JSON_OPEN", "JSON_OPEN_2", "JSON_CLOSE", "JSON_STRING", "JSON_TRUE", "JSON_FALSE",
              "JSON_COLON", "JSON_ARRAY_LEFT", "JSON_ARRAY_RIGHT", "JSON_COMMA", "NUMBER"}


def kw(s):
    return (KEYWORDS[s], s)


def pu(s):
    return (PUNCT[s], s)


def ident(s):
    if s in KEYWORDS:
        raise ValueError("identifier is a keyword: " + s)
    if s[0].islower():
        return ("STARTS_WITH_LOWER_C_STR", s)
    if s[0].isupper():
        return ("STARTS_WITH_UPPER_C_STR", s)
    raise ValueError(s)


def string_text(s):
    """PFDL / JSON string literal; json.loads decodes the escapes in struct literals, the
    visitor keeps expression strings verbatim (no escapes are generated there)"""
    return '"' + s.replace("\\", "\\\\").replace('"', '\\"') + '"'


def num_lex(q):
    """number: MINUS? (INTEGER | FLOAT)"""
    q = Fraction(q)
    out = []
    if q < 0:
        out.append(pu("-"))
        q = -q
    t = pfdl_ast.num_text(q)
    out.append(("FLOAT" if "." in t else "INTEGER", t))
    return out


def pelems_lex(p):
    out = []
    for e in p:
        if e[0] == "f":
            out += [pu("."), ident(e[1])]
        elif e[0] == "iv":
            out += [pu("["), ident(e[1]), pu("]")]
        elif e[0] == "il":
            out += [pu("["), ("INTEGER", str(e[1])), pu("]")]
        else:
            out += [pu("["), pu("]")]
    return out


def expr_lex(e):
    k = e[0]
    if k == "num":
        return num_lex(e[1])
    if k == "bool":
        return [kw("true" if e[1] else "false")]
    if k == "str":
        return [("STRING", '"' + e[1] + '"')]
    if k == "path":
        return [ident(e[1])] + pelems_lex(e[2])
    if k == "not":
        return [pu("!")] + expr_lex(e[1])
    if k == "paren":
        return [pu("(")] + expr_lex(e[1]) + [pu(")")]
    if k == "bin":
        op = kw(e[1]) if e[1] in KEYWORDS else pu(e[1])
        return expr_lex(e[2]) + [op] + expr_lex(e[3])
    raise ValueError(e)


def vtype_lex(t):
    prim = kw(t[1]) if t[1] in ("number", "string", "boolean") else ident(t[1])
    if t[0] == "plain":
        return [prim]
    ln = []
    if isinstance(t[2], int):
        ln = [("INTEGER", str(t[2]))]
    elif isinstance(t[2], str):
        ln = [ident(t[2])]
    return [prim, pu("[")] + ln + [pu("]")]


def vardef_lex(n, t):
    return [ident(n), pu(":")] + vtype_lex(t)


def json_lex(j, top=True):
    k = j[0]
    if k == "num":
        return [("NUMBER", pfdl_ast.num_text(j[1]))]
    if k == "bool":
        return [("JSON_TRUE", "true") if j[1] else ("JSON_FALSE", "false")]
    if k == "str":
        return [("JSON_STRING", string_text(j[1]))]
    if k == "obj":
        out = [("JSON_OPEN" if top else "JSON_OPEN_2", "{")]
        for i, (n, v) in enumerate(j[1]):
            if i:
                out.append(("JSON_COMMA", ","))
            out += [("JSON_STRING", string_text(n)), ("JSON_COLON", ":")] + json_lex(v, False)
        return out + [("JSON_CLOSE", "}")]
    if k == "arr":
        out = [("JSON_ARRAY_LEFT", "[")]
        for i, v in enumerate(j[1]):
            if i:
                out.append(("JSON_COMMA", ","))
            out += json_lex(v, False)
        return out + [("JSON_ARRAY_RIGHT", "]")]
    raise ValueError(j)


# ----------------------------------------------------------------------------------------
# AST -> forest of logical lines
# ----------------------------------------------------------------------------------------
LIT_STYLES = ("block", "inline", "same")


def forest(prog, lit_style=None):
    """lit_style: None (always the indented block form), one of LIT_STYLES, or a callable
    returning one of LIT_STYLES per literal"""
    def style():
        if lit_style is None:
            return "block"
        if callable(lit_style):
            return lit_style()
        return lit_style

    def leaf(lex):
        return (lex, [])

    def params(ins, outs):
        out = []
        if ins:
            kids = []
            for p in ins:
                if p[0] == "var":
                    kids.append(leaf([ident(p[1])]))
                elif p[0] == "path":
                    kids.append(leaf([ident(p[1])] + pelems_lex(p[2])))
                else:
                    st = style()
                    jl = json_lex(p[2])
                    if st == "block":
                        kids.append(([ident(p[1])], [leaf(jl)]))
                    elif st == "inline":
                        kids.append(leaf([ident(p[1])] + jl))
                    else:
                        kids.append(leaf([ident(p[1])]))
                        kids.append(leaf(jl))
            out.append(([kw("In")], kids))
        if outs:
            out.append(([kw("Out")], [leaf(vardef_lex(n, t)) for n, t in outs]))
        return out

    def call(name, ins, outs):
        return ([ident(name)], params(ins, outs))

    def stmts(ss):
        out = []
        for s in ss:
            out += stmt(s)
        return out

    def stmt(s):
        k = s[0]
        if k in ("service", "call"):
            return [call(s[1], s[2], s[3])]
        if k == "parallel":
            return [([kw("Parallel")], [call(*c) for c in s[1]])]
        if k == "while":
            return [([kw("Loop"), kw("While")] + expr_lex(s[1]), stmts(s[2]))]
        if k == "count":
            lim = [("INTEGER", str(s[3][1]))] if s[3][0] == "int" else [ident(s[3][1])] + pelems_lex(s[3][2])
            head = ([kw("Parallel")] if s[1] else []) + [kw("Loop"), ident(s[2]), kw("To")] + lim
            return [(head, stmts(s[4]))]
        if k == "cond":
            out = [([kw("Condition")], [leaf(expr_lex(s[1]))]), ([kw("Passed")], stmts(s[2]))]
            if s[3]:
                out.append(([kw("Failed")], stmts(s[3])))
            return out
        raise ValueError(s)

    out = []
    order = prog.get("order") or ([("struct", i) for i in range(len(prog["structs"]))]
                                  + [("task", i) for i in range(len(prog["tasks"]))])
    for kind, i in order:
        if kind == "struct":
            sd = prog["structs"][i]
            out.append(([kw("Struct"), ident(sd["name"])], [leaf(vardef_lex(n, t)) for n, t in sd["attrs"]]))
        else:
            t = prog["tasks"][i]
            kids = []
            if t["ins"]:
                kids.append(([kw("In")], [leaf(vardef_lex(n, ty)) for n, ty in t["ins"]]))
            kids += stmts(t["body"])
            if t["outs"]:
                kids.append(([kw("Out")], [leaf([ident(n)]) for n in t["outs"]]))
            out.append(([kw("Task"), ident(t["name"])], kids))
        out.append(leaf([kw("End")]))
    return out


def flatten(fr, depth=0):
    """forest -> [(depth, lexemes)] in source order"""
    out = []
    for lex, kids in fr:
        out.append((depth, lex))
        out += flatten(kids, depth + 1)
    return out


def skeleton(fr):
    """the token-name stream the denter must produce for a forest (without EOF)"""
    out = []
    for lex, kids in fr:
        out += [n for n, _ in lex]
        if kids:
            out += ["INDENT"] + skeleton(kids) + ["DEDENT"]
        else:
            out.append("NL")
    # the NL of the last leaf of a block precedes the block's DEDENTs: already in this order
    return out


# ----------------------------------------------------------------------------------------
# layouts: forest -> physical lines
# ----------------------------------------------------------------------------------------
class FLayout:
    """One layout variant.  All random choices come from rng."""

    def __init__(self, name="plain", rng=None, width=4, per_block=False, crlf="no",
                 final="nl", blank=0.0, comment_lines=0.0, trailing_comments=0.0,
                 trailing_blanks=0.0, json_multiline=0.0, sep="pretty", lit_style=None, tabs_ws=False):
        self.name = name
        self.rng = rng
        self.width = width              # indentation step (uniform) ...
        self.per_block = per_block      # ... or a fresh step 1..8 for every block
        self.crlf = crlf                # "no" | "all" | "mixed"
        self.final = final              # "nl" | "none" | "blanks" | "spaces" | "comment"
        self.blank = blank              # probability of blank line(s) before a line
        self.comment_lines = comment_lines
        self.trailing_comments = trailing_comments
        self.trailing_blanks = trailing_blanks
        self.json_multiline = json_multiline
        self.sep = sep                  # "pretty" | "tight" | "loose"
        self.lit_style = lit_style
        self.tabs_ws = tabs_ws          # tabs among the insignificant blanks


COMMENT_TEXTS = [" c", " a comment", "x", " { not json", " \"quoted\" # again", " $ ? ; ä = ~",
                 " Struct Task End", "\tt", " }", " In"]


def physical_lines(fr, L):
    rng = L.rng
    lines = []

    def rnd():
        return rng.random() if rng is not None else 1.0

    def cr():
        if L.crlf == "all":
            return True
        if L.crlf == "mixed":
            return rnd() < 0.5
        return False

    def blanks():
        n = rng.randint(1, 3)
        if L.tabs_ws:
            return "".join(rng.choice(" \t") for _ in range(n))
        return " " * n

    def filler(json_mode=False):
        """blank and comment-only lines; their indentation is arbitrary"""
        if rnd() < L.blank:
            for _ in range(rng.randint(1, 2)):
                c = rng.random()
                if c < 0.5:
                    lines.append(dict(indent=0, lex=[], comment=None, trail="", cr=cr()))
                elif c < 0.8:
                    lines.append(dict(indent=rng.randint(1, 12), lex=[], comment=None, trail="", cr=cr()))
                else:
                    lines.append(dict(indent=rng.randint(0, 6), lex=[], comment=None, cr=cr(),
                                      trail="\t" * rng.randint(1, 2) if L.tabs_ws else ""))
        if rnd() < L.comment_lines:
            for _ in range(rng.randint(1, 2)):
                lines.append(dict(indent=rng.randint(0, 12), lex=[], comment=rng.choice(COMMENT_TEXTS),
                                  trail="", cr=cr()))

    def emit(indent, lex):
        trail = blanks() if rnd() < L.trailing_blanks else ""
        comment = rng.choice(COMMENT_TEXTS) if rnd() < L.trailing_comments else None
        lines.append(dict(indent=indent, lex=lex, comment=comment, trail=trail, cr=cr()))

    def logical(indent, lex):
        filler()
        # a struct literal may be broken inside its braces
        opens = [i for i, (n, _) in enumerate(lex) if n == "JSON_OPEN"]
        if opens and rnd() < L.json_multiline:
            first, last = opens[0], len(lex) - 1      # '{' ... final '}'
            cuts = sorted(set(rng.sample(range(first + 1, last + 1), min(last - first, rng.randint(1, 4)))))
            prev = 0
            for ci, c in enumerate(cuts + [len(lex)]):
                seg = lex[prev:c]
                if ci == 0:
                    emit(indent, seg)
                else:
                    filler(json_mode=True)
                    emit(rng.randint(0, 16), seg)
                prev = c
        else:
            emit(indent, lex)

    def walk(nodes, indent):
        for lex, kids in nodes:
            logical(indent, lex)
            if kids:
                step = rng.randint(1, 8) if (L.per_block and rng is not None) else L.width
                walk(kids, indent + step)

    walk(fr, 0)
    final_newline = True
    if L.final == "none":
        final_newline = False
    elif L.final == "blanks":
        for _ in range(rng.randint(1, 3)):
            lines.append(dict(indent=rng.choice([0, 0, 3, 7]), lex=[], comment=None, trail="", cr=cr()))
    elif L.final == "spaces":
        lines.append(dict(indent=rng.randint(1, 9), lex=[], comment=None, trail="", cr=False))
        final_newline = False
    elif L.final == "comment":
        lines.append(dict(indent=rng.randint(0, 5), lex=[], comment=" the end", trail="", cr=False))
        final_newline = False
    return lines, final_newline


def wordy(c):
    return c.isalnum() or c == "_"


def need_space(a, b):
    return wordy(a[1][-1]) and wordy(b[1][0])


PRETTY_NO_SPACE_BEFORE = {"COLON", "DOT", "COMMA", "ARRAY_LEFT", "ARRAY_RIGHT", "RIGHT_PARENTHESIS",
                          "JSON_COLON", "JSON_COMMA", "JSON_ARRAY_RIGHT", "JSON_CLOSE"}
PRETTY_NO_SPACE_AFTER = {"DOT", "ARRAY_LEFT", "LEFT_PARENTHESIS", "BOOLEAN_NOT", "JSON_OPEN", "JSON_OPEN_2",
                         "JSON_ARRAY_LEFT"}


def separator(a, b, L, prev_of_a=None):
    if L.sep == "tight":
        return " " if need_space(a, b) else ""
    if L.sep == "loose" and L.rng is not None:
        n = L.rng.randint(0, 3)
        s = "".join(L.rng.choice(" \t") if L.tabs_ws else " " for _ in range(n))
        if not s and need_space(a, b):
            s = " "
        return s
    # pretty: the spelling of pfdl_ast.render
    if b[0] in PRETTY_NO_SPACE_BEFORE or a[0] in PRETTY_NO_SPACE_AFTER:
        return " " if need_space(a, b) else ""
    if a[0] == "MINUS" and b[0] in ("INTEGER", "FLOAT") and (
            prev_of_a is None or prev_of_a[0] not in ("INTEGER", "FLOAT", "RIGHT_PARENTHESIS", "ARRAY_RIGHT",
                                                      "STARTS_WITH_LOWER_C_STR", "TRUE", "FALSE", "STRING")):
        return ""     # unary minus of a number literal
    return " "


def assemble(lines, final_newline, L=None):
    """-> (text, spans); spans: list of (start, end, kind) with kind in
    'lex:<TOKEN>' | 'comment' | 'indent' | 'gap' | 'trail' | 'eol' in text order"""
    L = L or FLayout()
    out = []
    spans = []
    pos = 0

    def put(s, kind):
        nonlocal pos
        if s:
            out.append(s)
            spans.append((pos, pos + len(s), kind))
            pos += len(s)

    for i, ln in enumerate(lines):
        put(" " * ln["indent"], "indent")
        lex = ln["lex"]
        for j, lx in enumerate(lex):
            if j:
                put(separator(lex[j - 1], lx, L, lex[j - 2] if j >= 2 else None), "gap")
            put(lx[1], "lex:" + lx[0])
        put(ln["trail"], "trail")
        if ln["comment"] is not None:
            if lex and not ln["trail"] and L.sep != "tight":
                put(" ", "trail")
            put("#" + ln["comment"], "comment")
        if i < len(lines) - 1 or final_newline:
            put("\r\n" if ln["cr"] else "\n", "eol")
    return "".join(out), spans


def render_text(prog, L):
    fr = forest(prog, L.lit_style)
    lines, fnl = physical_lines(fr, L)
    text, spans = assemble(lines, fnl, L)
    return text, spans, lines, fnl, fr


# ----------------------------------------------------------------------------------------
# Gallina printers (PFDL.Front.Tokens / Lines)
# ----------------------------------------------------------------------------------------
COQ_TOK = {
    "STRUCT": "KStruct", "TASK": "KTask", "IN": "KIn", "OUT": "KOut", "LOOP": "KLoop", "WHILE": "KWhile",
    "TO": "KTo", "PARALLEL": "KParallel", "CONDITION": "KCondition", "PASSED": "KPassed",
    "FAILED": "KFailed", "ON_DONE": "KOnDone", "END": "KEnd", "NUMBER_P": "KNumberP",
    "STRING_P": "KStringP", "BOOLEAN_P": "KBooleanP", "TRUE": "KTrue", "FALSE": "KFalse",
    "COLON": "PColon", "DOT": "PDot", "COMMA": "PComma", "JSON_OPEN": "PJsonOpen", "QUOTE": "PQuote",
    "ARRAY_LEFT": "PArrL", "ARRAY_RIGHT": "PArrR", "LEFT_PARENTHESIS": "PLParen",
    "RIGHT_PARENTHESIS": "PRParen", "LESS_THAN": "OpLt", "LESS_THAN_OR_EQUAL": "OpLe",
    "GREATER_THAN": "OpGt", "GREATER_THAN_OR_EQUAL": "OpGe", "EQUAL": "OpEq", "NOT_EQUAL": "OpNe",
    "BOOLEAN_AND": "OpAnd", "BOOLEAN_OR": "OpOr", "BOOLEAN_NOT": "OpNot", "STAR": "OpStar",
    "SLASH": "OpSlash", "MINUS": "OpMinus", "PLUS": "OpPlus",
    "JSON_TRUE": "JTrue", "JSON_FALSE": "JFalse", "JSON_COLON": "JColon", "JSON_QUOTE": "JQuote",
    "JSON_ARRAY_LEFT": "JArrL", "JSON_ARRAY_RIGHT": "JArrR", "JSON_COMMA": "JComma",
    "JSON_OPEN_2": "JOpen2", "JSON_CLOSE": "JClose",
}
COQ_TOK_REV = {v: k for k, v in COQ_TOK.items()}
COQ_TOK_REV.update({"TInt": "INTEGER", "TFloat": "FLOAT", "TStr": "STRING", "TLower": "STARTS_WITH_LOWER_C_STR",
                    "TUpper": "STARTS_WITH_UPPER_C_STR", "JString": "JSON_STRING", "JNumber": "NUMBER",
                    "DNL": "NL", "DIndent": "INDENT", "DDedent": "DEDENT", "DEOF": "EOF"})


class FrontInterner(pfdl_ast.Interner):
    """one name space for identifiers and string contents (a JSON key must be the same
    name as the attribute identifier it denotes)"""

    def __call__(self, s):
        if s.startswith('"'):
            s = s[1:]
        return super().__call__(s)


def json_string_value(text):
    import json
    return json.loads(text)


def coq_tok(I, lx):
    n, t = lx
    if n in COQ_TOK:
        return COQ_TOK[n]
    if n == "INTEGER":
        return "(TInt %d)" % int(t)
    if n == "FLOAT":
        return "(TFloat %s)" % pfdl_ast.coq_q(Fraction(t))
    if n == "STRING":
        return "(TStr %d)" % I(t[1:-1])
    if n == "STARTS_WITH_LOWER_C_STR":
        return "(TLower %d)" % I(t)
    if n == "STARTS_WITH_UPPER_C_STR":
        return "(TUpper %d)" % I(t)
    if n == "JSON_STRING":
        return "(JString %d)" % I(json_string_value(t))
    if n == "NUMBER":
        return "(JNumber %s)" % pfdl_ast.coq_q(Fraction(t))
    raise ValueError(lx)


def coq_line(I, ln):
    return ("{| l_indent := %d; l_lex := %s; l_comment := %s; l_trail := %d; l_cr := %s |}"
            % (ln["indent"], pfdl_ast.coq_list([coq_tok(I, x) for x in ln["lex"]]),
               "None" if ln["comment"] is None else "(Some %d)" % len(ln["comment"]),
               len(ln["trail"]), "true" if ln["cr"] else "false"))


def coq_text(I, lines, final_newline):
    return ("{| t_lines := %s; t_final_nl := %s |}"
            % (pfdl_ast.coq_list([coq_line(I, x) for x in lines]), "true" if final_newline else "false"))
