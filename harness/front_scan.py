"""A small hand-written scanner of PFDL's lexical *regions* (independent of the generated
lexer): for every character position of a text, is it inside a comment, inside a string
literal, in the JSON mode of a struct literal, or in ordinary code?  Used to decide whether
an inserted character lies outside the language (a character in a comment or a string is
part of the language), and as the shape predicate of known finding D13."""

# characters no lexer rule of PFDLLexer.g4 can start with or continue, in either mode
# (outside comments and string literals)
ILLEGAL_CLASSES = {
    "dollar": "$", "question": "?", "semicolon": ";", "tilde": "~", "at": "@", "caret": "^",
    "ampersand": "&", "pipe": "|", "percent": "%", "apostrophe": "'", "backtick": "`",
    "backslash": "\\", "equals": "=", "latin1_letter": "ä", "euro": "€", "nbsp": " ",
    "nul": "\x00", "formfeed": "\x0c", "vtab": "\x0b", "del": "\x7f", "zwsp": "​", "bom": "﻿",
    "lone_cr": "\r",
}


def regions(text):
    """-> list r with r[i] in {'code','comment','string','json','jstring'} for the character
    text[i]; the quote characters belong to the string"""
    out = []
    depth = 0
    i = 0
    n = len(text)
    while i < n:
        c = text[i]
        if c == "#":
            j = i
            while j < n and text[j] != "\n":
                j += 1
            out += ["comment"] * (j - i)
            i = j
            continue
        if c == '"':
            j = i + 1
            while j < n:
                if text[j] == "\\" and j + 1 < n and text[j + 1] == '"':
                    j += 2
                    continue
                if text[j] == '"':
                    break
                j += 1
            if j >= n:
                # unterminated: a lone QUOTE token
                out.append("json" if depth else "code")
                i += 1
                continue
            out += ["jstring" if depth else "string"] * (j + 1 - i)
            i = j + 1
            continue
        if c == "{":
            depth += 1
            out.append("json")
        elif c == "}" and depth:
            out.append("json")
            depth -= 1
        else:
            out.append("json" if depth else "code")
        i += 1
    return out


def illegal_at(text, i):
    """is text[i] a character that no lexer rule matches at that place (outside comments
    and string literals)?"""
    c = text[i]
    if c not in ILLEGAL_CLASSES.values():
        return False
    reg = regions(text)[i]
    if reg not in ("code", "json"):
        return False
    if c == "=":
        if reg == "json":
            return True
        prev = text[i - 1] if i > 0 else ""
        nxt = text[i + 1] if i + 1 < len(text) else ""
        return not (prev in ("<", ">", "=", "!") or nxt == "=")
    if c == "\r":
        if reg == "json":
            return False      # white space in JSON mode
        return not (i + 1 < len(text) and text[i + 1] == "\n")
    return True


def insertion_is_illegal(text, pos, ch):
    """does inserting ch before text[pos] put a character outside the language into the
    text (rather than into a comment / a string literal / a legal operator)?"""
    new = text[:pos] + ch + text[pos:]
    return illegal_at(new, pos)


def contains_illegal_char(text):
    """shape predicate of known finding D13: some character of the text outside comments and
    string literals is matched by no lexer rule"""
    cand = set(ILLEGAL_CLASSES.values())
    return any(c in cand and illegal_at(text, i) for i, c in enumerate(text))
