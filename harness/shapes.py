"""Syntactic shape predicates over programs (computed on the call-tree unfolding).
They name the program shapes of the known findings; a failing case is attributed to a
known finding only if its shape predicate holds (see known_findings.json)."""


def unfold(prog, max_depth=30):
    """program -> tree of ('service'|'call'|'parallel'|'cond'|'while'|'count'|'parloop', ...)
    mirroring PFDL.Unfold; returns None for cyclic or ill-formed programs"""
    tasks = {}
    for t in prog["tasks"]:
        tasks.setdefault(t["name"], t)

    def call(c, depth):
        if depth > max_depth or c[0] not in tasks:
            raise RecursionError
        return ("call", c[0], block(tasks[c[0]]["body"], depth + 1))

    def block(ss, depth):
        return [stmt(s, depth) for s in ss]

    def stmt(s, depth):
        k = s[0]
        if k == "service":
            return ("service", s[1])
        if k == "call":
            return call((s[1], s[2], s[3]), depth)
        if k == "parallel":
            return ("parallel", [call(c, depth) for c in s[1]])
        if k == "while":
            return ("while", block(s[2], depth))
        if k == "count":
            if s[1]:
                if len(s[4]) != 1 or s[4][0][0] != "call":
                    raise ValueError
                c = s[4][0]
                return ("parloop", call((c[1], c[2], c[3]), depth))
            return ("count", block(s[4], depth))
        if k == "cond":
            return ("cond", block(s[2], depth), block(s[3], depth))
        raise ValueError(s)

    try:
        if "productionTask" not in tasks:
            return None
        return block(tasks["productionTask"]["body"], 0)
    except (RecursionError, ValueError):
        return None


def parloop_findings(prog):
    """set of known-finding shape names that apply to the parallel loops of prog"""
    tree = unfold(prog)
    found = set()
    if tree is None:
        return found

    def first_is_parloop(x):
        """does starting x reach a parallel loop on the same entry transition?"""
        if x[0] == "parloop":
            return True
        if x[0] == "call":
            return bool(x[2]) and first_is_parloop(x[2][0])
        if x[0] == "parallel":
            return any(first_is_parloop(b) for b in x[1])
        return False

    def last_is_parloop(x):
        if x[0] == "parloop":
            return True
        if x[0] == "call":
            return bool(x[2]) and last_is_parloop(x[2][-1])
        return False

    def walk_block(ss, in_loop):
        for s in ss:
            walk(s, in_loop)

    def walk(x, in_loop):
        k = x[0]
        if k == "parloop":
            if in_loop:
                found.add("parloop_inside_loop")
            inst = x[1]
            # instances are wired between the loop's own first and second transition
            if inst[2] and first_is_parloop(inst[2][0]):
                found.add("parloop_shared_entry")
            if inst[2] and last_is_parloop(inst[2][-1]):
                found.add("parloop_tail_of_branch")
            walk_block(inst[2], in_loop)
        elif k == "call":
            walk_block(x[2], in_loop)
        elif k == "parallel":
            for b in x[1]:
                if first_is_parloop(b):
                    found.add("parloop_shared_entry")
                if last_is_parloop(b):
                    found.add("parloop_tail_of_branch")
                walk(b, in_loop)
        elif k in ("while", "count"):
            walk_block(x[1], True)
        elif k == "cond":
            walk_block(x[1], in_loop)
            walk_block(x[2], in_loop)

    walk_block(tree, False)
    return found


def stats(prog):
    """size and construct counts of the unfolding, for the evidence's input distribution"""
    tree = unfold(prog)
    c = {"service": 0, "call": 0, "parallel": 0, "cond": 0, "while": 0, "count": 0, "parloop": 0,
         "depth": 0}
    if tree is None:
        return c

    def walk(x, d):
        c[x[0]] += 1
        c["depth"] = max(c["depth"], d)
        if x[0] == "call":
            for y in x[2]:
                walk(y, d + 1)
        elif x[0] == "parallel":
            for y in x[1]:
                walk(y, d + 1)
        elif x[0] == "parloop":
            walk(x[1], d + 1)
        elif x[0] in ("while", "count"):
            for y in x[1]:
                walk(y, d + 1)
        elif x[0] == "cond":
            for y in x[1] + x[2]:
                walk(y, d + 1)

    for s in tree:
        walk(s, 1)
    return c
