"""Case kind `front` (property C12): the parsed model is a faithful image of the text.

Slices
  A  round trip on the implementation: programs of the well-formed family (gen_front.py)
     x layout variants (front_lines.py) -> parse_string -> Process dumped field by field
     (front_dump.py) == generating AST; the real lexer's INDENT/DEDENT/NL stream == the
     skeleton of the logical-line forest.
  B  all single illegal-character insertions at sampled positions: the text must not be
     reported valid.
  C  the Gallina denter (coq/Front/Denter.v) against the real PFDLLexer on the same texts.
  D  the Gallina front end (coq/Front/Parser.v) against parse_string on the same texts.
  E  the statement of the round trip evaluated for the implementation's own models.
  F  the Gallina character-level lexer (coq/Front/CharLexer.v) against the real ANTLR lexer
     (harness/front_chars.py): rendered texts in all layouts, illegal-character insertions,
     character- and token-level mutations, short random strings over a mixed alphabet.
C to F run when the corresponding .vo files exist."""
import hashlib
import os
import random
import re
import sys
import time
from concurrent.futures import ProcessPoolExecutor

HERE = os.path.dirname(os.path.abspath(__file__))
if HERE not in sys.path:
    sys.path.insert(0, HERE)

import front_lines  # noqa: E402
import front_scan  # noqa: E402
import gen_front  # noqa: E402
from front_lines import FLayout  # noqa: E402

COQ_DIR = os.path.join(os.path.dirname(HERE), "coq")
D13 = "illegal_char_dropped"
D14T = "prec_split"


# ----------------------------------------------------------------------------------------
# layout variants
# ----------------------------------------------------------------------------------------
def _mk(name, **kw):
    return (name, lambda rng, kw=kw: FLayout(name=name, rng=rng, **kw))


LAYOUTS = [
    _mk("plain"),
    _mk("w1_tight", width=1, sep="tight"),
    _mk("w2", width=2),
    _mk("w3_lit_inline", width=3, lit_style="inline"),
    _mk("w5_lit_same", width=5, lit_style="same"),
    _mk("w6", width=6),
    _mk("w7", width=7),
    _mk("w8_crlf", width=8, crlf="all"),
    _mk("per_block", per_block=True),
    _mk("comments", comment_lines=0.3, trailing_comments=0.3),
    _mk("blank_lines", blank=0.4, tabs_ws=True),
    _mk("trailing_blanks", trailing_blanks=0.6, tabs_ws=True),
    _mk("crlf_mixed", crlf="mixed", trailing_comments=0.2),
    _mk("no_final_newline", final="none"),
    _mk("final_blank_lines", final="blanks"),
    _mk("final_spaces", final="spaces"),
    _mk("final_comment", final="comment"),
    _mk("json_multiline", json_multiline=0.8, blank=0.1, trailing_comments=0.15),
    _mk("loose_tabs", sep="loose", tabs_ws=True),
    _mk("everything", per_block=True, crlf="mixed", final="blanks", blank=0.25, comment_lines=0.2,
        trailing_comments=0.2, trailing_blanks=0.3, json_multiline=0.5, sep="loose", tabs_ws=True,
        lit_style="random"),
]


def make_layout(name, rng):
    for n, f in LAYOUTS:
        if n == name:
            L = f(rng)
            if L.lit_style == "random":
                L.lit_style = lambda: rng.choice(front_lines.LIT_STYLES)
            if name == "final_blank_lines" or name == "everything":
                L.final = rng.choice(["blanks", "none", "spaces", "comment", "nl"]) if name == "everything" else "blanks"
            return L
    raise KeyError(name)


def expected_model(prog):
    order = prog.get("order") or ([("struct", i) for i in range(len(prog["structs"]))]
                                  + [("task", i) for i in range(len(prog["tasks"]))])
    return {"structs": [prog["structs"][i] for k, i in order if k == "struct"],
            "tasks": [prog["tasks"][i] for k, i in order if k == "task"]}


def canon(x):
    """lists and tuples are not distinguished (JSON replay files turn tuples into lists)"""
    if isinstance(x, (list, tuple)):
        return tuple(canon(y) for y in x)
    if isinstance(x, dict):
        return tuple(sorted((k, canon(v)) for k, v in x.items() if k != "order"))
    return x


def exprs_of(model):
    out = []

    def walk(ss):
        for s in ss:
            if s[0] == "while":
                out.append(s[1])
                walk(s[2])
            elif s[0] == "count":
                walk(s[4])
            elif s[0] == "cond":
                out.append(s[1])
                walk(s[2])
                walk(s[3])

    for t in model["tasks"]:
        walk(t["body"])
    return out


def blank_exprs(model):
    def walk(ss):
        out = []
        for s in ss:
            if s[0] == "while":
                out.append(("while", None, walk(s[2])))
            elif s[0] == "count":
                out.append(tuple(s[:4]) + (walk(s[4]),))
            elif s[0] == "cond":
                out.append(("cond", None, walk(s[2]), walk(s[3])))
            else:
                out.append(s)
        return out
    return {"structs": model["structs"], "tasks": [dict(t, body=walk(t["body"])) for t in model["tasks"]]}


def compare_models(expected, got, chains):
    """-> ('agree', None) | ('known', finding shape) | ('differ', description)
    chains: list of [repr(expected tree), tokens] of the unparenthesised expressions"""
    if got is None:
        return "differ", "no model"
    if canon(expected) == canon(got):
        return "agree", None
    # everything except the expression trees must agree
    if canon(blank_exprs(expected)) != canon(blank_exprs(got)):
        return "differ", first_difference(canon(blank_exprs(expected)), canon(blank_exprs(got)))
    ch = {k: v for k, v in chains}
    for e, g in zip(exprs_of(expected), exprs_of(got)):
        if canon(e) != canon(g):
            toks = ch.get(repr(canon(e)))
            if toks is None or not gen_front.prec_split([tuple(t) if isinstance(t, list) else t for t in toks]):
                return "differ", "expression tree: expected %r got %r" % (e, g)
    return "known", D14T


def first_difference(a, b, path=""):
    if type(a) is not type(b):
        return "%s: %r vs %r" % (path, a, b)
    if isinstance(a, tuple):
        if len(a) != len(b):
            return "%s: length %d vs %d: %r vs %r" % (path, len(a), len(b), a, b)
        for i, (x, y) in enumerate(zip(a, b)):
            if x != y:
                return first_difference(x, y, path + "/" + str(i))
    return "%s: %r vs %r" % (path, a, b)


def chain_table(chains):
    import gen_expr
    return [[repr(canon(gen_expr.parse_standard(t))), t] for t in chains]


# ----------------------------------------------------------------------------------------
# slice A/B worker (runs in a forked process; imports the implementation lazily)
# ----------------------------------------------------------------------------------------
def gen_case(seed, pid, i):
    rng = random.Random("%d/%s/front/%d" % (seed, pid, i))
    mode = ["mixed", "paren", "chain"][i % 3]
    prog, chains = gen_front.gen_program(rng, expr_mode=mode)
    return rng, prog, chains


def roundtrip_one(text, expected, chains, skeleton):
    """-> (status, detail, result dict)"""
    import front_dump
    r = front_dump.run_front(text)
    try:
        toks = front_dump.lexer_tokens(text)
    except Exception as e:  # noqa: BLE001
        toks = ["<lexer raised %s>" % type(e).__name__]
    if skeleton is not None and toks != skeleton + ["EOF"]:
        return "differ", "token skeleton: lexer %r expected %r" % (toks[:60], skeleton[:60]), r
    if r["dump_error"]:
        return "differ", "Process contains a value outside the AST: " + r["dump_error"], r
    if r["model"] is None:
        return "differ", "no model (valid=%r, exc=%r): %s" % (r["valid"], r["exc"], r["out"][:300]), r
    st, why = compare_models(expected, r["model"], chains)
    return st, why, r


def worker_roundtrip(args):
    seed, pid, indices, layout_names = args
    from collections import Counter
    stats = Counter()
    viol = []
    samples = []
    hashes = set()
    for i in indices:
        rng, prog, chains = gen_case(seed, pid, i)
        exp = expected_model(prog)
        ctab = chain_table(chains)
        stats["programs"] += 1
        for k, v in gen_front.stats(prog).items():
            stats["dist:" + k] += v
        stats["dist:chains"] += len(chains)
        stats["dist:chains_with_prec_split"] += sum(1 for c in chains if gen_front.prec_split(c))
        for ln in layout_names:
            lrng = random.Random("%d/%s/layout/%d/%s" % (seed, pid, i, ln))
            L = make_layout(ln, lrng)
            text, spans, lines, fnl, fr = front_lines.render_text(prog, L)
            stats["generated"] += 1
            stats["layout:" + ln] += 1
            hashes.add(hashlib.sha1(text.encode()).hexdigest()[:16])
            st, why, r = roundtrip_one(text, exp, ctab, front_lines.skeleton(fr))
            stats["compared"] += 1
            if r["valid"] is False:
                stats["semantically_rejected"] += 1
            if r["exc"]:
                stats["checker_exception"] += 1
            if st == "agree":
                stats["agree"] += 1
                if len(samples) < 1 and 200 < len(text) < 1200:
                    samples.append({"layout": ln, "text": text})
            elif st == "known":
                stats["knownshape:" + why] += 1
            else:
                viol.append({"property": pid, "kind": "front", "sub": "roundtrip", "layout": ln, "text": text,
                             "expected": exp, "chains": ctab, "why": why, "impl_valid": r["valid"],
                             "impl_out": r["out"][:500], "impl_exc": r["exc"]})
    return dict(stats), viol, samples, hashes


def sample_positions(text, rng, n):
    """positions at which a character is inserted: a mix of all region kinds"""
    m = len(text)
    if m + 1 <= n:
        return list(range(m + 1))
    return sorted(rng.sample(range(m + 1), n))


def insertion_one(text, pos, ch):
    """-> ('rejected'|'accepted_same'|'accepted_other'|'exception', result)"""
    import front_dump
    new = text[:pos] + ch + text[pos:]
    r = front_dump.run_front(new)
    if r["exc"] and r["valid"] is None:
        return "exception", r
    if r["valid"] is True:
        return "accepted", r
    return "rejected", r


def worker_insertions(args):
    seed, pid, indices, per_text = args
    from collections import Counter
    stats = Counter()
    viol = []
    classes = sorted(front_scan.ILLEGAL_CLASSES.items())
    for i in indices:
        rng, prog, chains = gen_case(seed, pid, 100000 + i)
        lname = ["plain", "comments", "json_multiline", "w8_crlf", "w3_lit_inline"][i % 5]
        L = make_layout(lname, random.Random("%d/%s/ins-layout/%d" % (seed, pid, i)))
        text, spans, lines, fnl, fr = front_lines.render_text(prog, L)
        import front_dump
        base = front_dump.run_front(text)
        if base["valid"] is not True:
            stats["insertion_base_not_valid"] += 1
            continue
        stats["insertion_texts"] += 1
        # indentation by tabs: the NL rule counts spaces only, so the block structure is lost; the
        # text must be reported invalid, not accepted with some other structure
        if lname == "plain":
            tabbed = "\n".join(re.sub(r"^( {4})+", lambda m: "\t" * (len(m.group(0)) // 4), ln)
                               for ln in text.split("\n"))
            tr = front_dump.run_front(tabbed)
            stats["generated"] += 1
            stats["compared"] += 1
            if tr["valid"] is True:
                viol.append({"property": pid, "kind": "front", "sub": "tabs", "text": tabbed,
                             "why": "text indented with tabs is reported valid"})
            else:
                stats["agree"] += 1
                stats["tab_indented_text_rejected"] += 1
        reg = front_scan.regions(text)
        k = 0
        for pos in sample_positions(text, rng, per_text):
            cname, ch = classes[(k + i) % len(classes)]
            k += 1
            if not front_scan.insertion_is_illegal(text, pos, ch):
                stats["insertion_legal_skipped"] += 1     # inside a comment / string, or forms an operator
                continue
            stats["generated"] += 1
            stats["insertion_positions"] += 1
            stats["class:" + cname] += 1
            where = reg[pos] if pos < len(text) else "end"
            stats["region:" + where] += 1
            verdict, r = insertion_one(text, pos, ch)
            stats["compared"] += 1
            if verdict == "rejected":
                stats["agree"] += 1
                stats["insertion_rejected"] += 1
            elif verdict == "exception":
                stats["insertion_exception_not_verdict"] += 1
            else:
                same = r["model"] is not None and canon(r["model"]) == canon(base["model"])
                stats["insertion_accepted_same_model" if same else "insertion_accepted_other_model"] += 1
                payload = {"property": pid, "kind": "front", "sub": "insertion", "text": text, "pos": pos, "ch": ch,
                           "class": cname, "same_model": same}
                if front_scan.contains_illegal_char(text[:pos] + ch + text[pos:]):
                    stats["knownshape:" + D13] += 1
                    if len(viol) < 2:
                        viol.append(dict(payload, _known=D13))
                else:
                    viol.append(payload)
    return dict(stats), viol, [], set()


# ----------------------------------------------------------------------------------------
# slices C/D: the Gallina models evaluated inside coqc
# ----------------------------------------------------------------------------------------
def have_vo(*names):
    return all(os.path.exists(os.path.join(COQ_DIR, "Front", n + ".vo")) for n in names)


DTOK_RE = re.compile(r"DTok\s+\(?\s*([A-Za-z0-9]+)|\b(DNL|DIndent|DDedent|DEOF)\b")


def parse_dtoks(raw):
    """printed [dtok] list -> ANTLR token names"""
    out = []
    for m in DTOK_RE.finditer(raw):
        c = m.group(1) or m.group(2)
        out.append(front_lines.COQ_TOK_REV[c])
    return out


def coq_cases(seed, pid, n, layouts, wild=False):
    """texts for the Coq-side slices, chosen so that the files stay small"""
    out = []
    i = 0
    while len(out) < n and i < 20 * n:
        rng, prog, chains = gen_case(seed, pid, 200000 + i)
        i += 1
        ln = layouts[len(out) % len(layouts)]
        L = make_layout(ln, random.Random("%d/%s/coq-layout/%d" % (seed, pid, i)))
        text, spans, lines, fnl, fr = front_lines.render_text(prog, L)
        if len(text) > 2500:
            continue
        wild_now = wild and len(out) % 4 == 3
        if wild_now:
            # irregular indentation (dedents to widths that were never opened, an indented first
            # line, ...): outside layout_ok, but the denter model describes these texts too
            wr = random.Random("%d/%s/wild/%d" % (seed, pid, i))
            lines = [dict(l, indent=wr.randint(0, 10)) if (l["lex"] and wr.random() < 0.3) else l for l in lines]
            text, spans = front_lines.assemble(lines, fnl, L)
        out.append(dict(prog=prog, chains=chains, layout=ln, text=text, lines=lines, fnl=fnl, fr=fr, wild=wild_now))
    return out


ALL_TOKS = ["KStruct", "KTask", "KIn", "KOut", "KLoop", "KWhile", "KTo", "KParallel", "KCondition", "KPassed",
            "KFailed", "KOnDone", "KEnd", "KNumberP", "KStringP", "KBooleanP", "KTrue", "KFalse", "PColon", "PDot",
            "PComma", "PJsonOpen", "PQuote", "PArrL", "PArrR", "PLParen", "PRParen", "OpLt", "OpLe", "OpGt", "OpGe",
            "OpEq", "OpNe", "OpAnd", "OpOr", "OpNot", "OpStar", "OpSlash", "OpMinus", "OpPlus", "TInt", "TFloat",
            "TStr", "TLower", "TUpper", "JString", "JTrue", "JFalse", "JColon", "JQuote", "JArrL", "JArrR", "JComma",
            "JNumber", "JOpen2", "JClose"]


def check_token_tables(pid, workdir, rep, stats):
    """the harness' table 'ANTLR token name -> constructor of Front.Tokens.tok' against
    Front/Lexemes.v (tok_rule over all_toks), which Gen/ObligationsFront.v ties to PFDLLexer.g4"""
    import coqeval
    out, _ = coqeval.run_coq("Eval vm_compute in (map (fun t => snd (tok_rule t)) all_toks).\n", workdir, "toktable",
                             header="From PFDL.Front Require Import Lexemes.\nFrom Coq Require Import String List.\n"
                                    "Set Printing Depth 100000.\nSet Printing Width 200.\n")
    names = re.findall(r'"([A-Z_0-9a-z]+)"', out)
    expected = [front_lines.COQ_TOK_REV[c] for c in ALL_TOKS]
    stats["token_table_entries"] = len(names)
    if names != expected:
        rep.violation({"property": pid, "kind": "front", "sub": "token-table", "coq": names, "harness": expected,
                       "machinery_note": "harness token table and Front/Lexemes.v disagree"},
                      "no-failing-input-found")


def slice_denter(pid, cases, workdir, rep, stats):
    import coqeval
    import front_dump
    items = []
    for k, c in enumerate(cases):
        I = front_lines.FrontInterner()
        items.append(("Definition tx%d : text := %s.\n" % (k, front_lines.coq_text(I, c["lines"], c["fnl"])),
                      "(layout_ok tx%d, denter tx%d)" % (k, k)))
    raw = coqeval.eval_many(items, workdir, jobs=16, shard=max(1, (len(items) + 15) // 16),
                            header="From PFDL.Front Require Import Tokens Lines Denter.\n"
                                   "Set Printing Depth 1000000.\nSet Printing Width 200.\n", tag="denter")
    for c, r in zip(cases, raw):
        res = coqeval.parse_result(r)
        stats["generated"] += 1
        stats["denter_cases"] += 1
        stats["compared"] += 1
        ok = res.lstrip("(").startswith("true")
        model = parse_dtoks(res)
        impl = front_dump.lexer_tokens(c["text"])
        if ok:
            stats["denter_layout_ok"] += 1
        if c.get("wild"):
            stats["denter_irregular_indentation"] += 1
        if model == impl:
            stats["agree"] += 1
            stats["denter_agree"] += 1
        else:
            rep.violation({"property": pid, "kind": "front", "sub": "denter", "text": c["text"],
                           "lines": c["lines"], "final_newline": c["fnl"], "model_tokens": model,
                           "impl_tokens": impl,
                           "machinery_note": "Gallina denter and PFDLLexer disagree on the token-kind stream"})


def impl_outcome(text):
    """-> ('syntax', None) | ('visitor', None) | ('model', AST) | ('undumpable', why)"""
    import contextlib
    import io
    import front_dump
    with contextlib.redirect_stdout(io.StringIO()):
        try:
            ok, process = front_dump.visit_only(text)
        except Exception as e:  # noqa: BLE001
            return "undumpable", "visitor raised " + type(e).__name__
    if process is None:
        return "syntax", None
    if not ok:
        return "visitor", None
    try:
        return "model", front_dump.dump_process(process)
    except front_dump.DumpError as e:
        return "undumpable", str(e)


def mutate_lines(lines, rng):
    """one lexeme-level mutation outside struct literals: delete / duplicate a lexeme, swap two
    neighbouring lexemes, delete a whole line, or change one line's indentation"""
    lines = [dict(l, lex=list(l["lex"])) for l in lines]
    cand = [(i, j) for i, l in enumerate(lines) for j, x in enumerate(l["lex"])
            if x[0] not in front_lines.JSON_NAMES]
    if not cand:
        return lines, "none"
    i, j = rng.choice(cand)
    c = rng.random()
    if c < 0.35:
        del lines[i]["lex"][j]
        return lines, "delete-lexeme"
    if c < 0.55:
        lines[i]["lex"].insert(j, lines[i]["lex"][j])
        return lines, "duplicate-lexeme"
    if c < 0.7 and j + 1 < len(lines[i]["lex"]) and lines[i]["lex"][j + 1][0] not in front_lines.JSON_NAMES:
        lines[i]["lex"][j], lines[i]["lex"][j + 1] = lines[i]["lex"][j + 1], lines[i]["lex"][j]
        return lines, "swap-lexemes"
    if c < 0.8:
        if not any(x[0] in front_lines.JSON_NAMES for x in lines[i]["lex"]):
            del lines[i]
            return lines, "delete-line"
        return lines, "none"
    if c < 0.93:
        if not any(x[0] in front_lines.JSON_NAMES for x in lines[i]["lex"]):
            lines.insert(i, dict(lines[i]))
            return lines, "duplicate-line"
        return lines, "none"
    lines[i]["indent"] = rng.randint(0, 12)
    return lines, "reindent-line"


def lexeme_kinds_agree(text, lines):
    """the lexer (below the model) splits the mutated text into the lexemes the line records
    name; otherwise the case is outside what the model describes"""
    import front_dump
    try:
        impl = [t for t in front_dump.lexer_tokens(text) if t not in ("NL", "INDENT", "DEDENT", "EOF")]
    except Exception:  # noqa: BLE001
        return False
    return impl == [x[0] for l in lines for x in l["lex"]]


def slice_frontend(pid, cases, workdir, rep, stats):
    import coqeval
    import pfdl_ast
    src = []
    todo = []
    for c in cases:
        kind, model = impl_outcome(c["text"])
        if kind == "undumpable":
            stats["frontend_skipped_undumpable"] += 1
            continue
        k = len(todo)
        I = front_lines.FrontInterner()
        tx = front_lines.coq_text(I, c["lines"], c["fnl"])
        exp = {"syntax": "FSyntax", "visitor": "FVisitor"}.get(kind) or "(FOk %s)" % pfdl_ast.coq_program(I, model)
        c["impl_kind"], c["impl_model"] = kind, model
        todo.append(c)
        src.append("Definition tx%d : text := %s.\nDefinition ex%d : fres program := %s.\n"
                   "Goal True. first [ assert (front_end tx%d = ex%d) by (vm_compute; reflexivity); idtac \"@@%d AGREE\" "
                   "| idtac \"@@%d DIFFER\"; let r := eval vm_compute in (front_end tx%d) in idtac r ]. Abort.\n"
                   % (k, tx, k, exp, k, k, k, k, k))
    if not todo:
        return
    nshards = min(16, len(todo))
    shards = [list(range(len(todo)))[i::nshards] for i in range(nshards)]
    from concurrent.futures import ThreadPoolExecutor

    def one(ix):
        out, _ = coqeval.run_coq("\n".join(src[k] for k in shards[ix]), workdir, "frontend_%d" % ix,
                                 header="From PFDL.Front Require Import FrontEnd.\n"
                                        "Set Printing Depth 1000000.\nSet Printing Width 200.\n")
        return out
    with ThreadPoolExecutor(max_workers=16) as ex:
        outs = list(ex.map(one, range(nshards)))
    verdict = {}
    for out in outs:
        for m in re.finditer(r"@@(\d+) (AGREE|DIFFER)([^@]*)", out):
            verdict[int(m.group(1))] = (m.group(2), m.group(3).strip()[:3000])
    for k, c in enumerate(todo):
        stats["generated"] += 1
        stats["frontend_cases"] += 1
        stats["frontend_impl:" + c["impl_kind"]] += 1
        if c.get("mutation"):
            stats["frontend_mutated"] += 1
        v = verdict.get(k)
        stats["compared"] += 1
        if v is not None and v[0] == "AGREE":
            stats["agree"] += 1
            stats["frontend_agree"] += 1
        elif v is not None and v[1].strip().startswith("FUnsupported"):
            # the model declares the text outside itself (a guard that is a lone string literal -
            # here produced by a mutation that moved lexemes): no comparison, counted
            stats["frontend_outside_model"] += 1
        else:
            rep.violation({"property": pid, "kind": "front", "sub": "frontend", "text": c["text"],
                           "lines": c["lines"], "final_newline": c["fnl"], "mutation": c.get("mutation"),
                           "model_says": v[1] if v else "no verdict printed",
                           "impl_outcome": c["impl_kind"], "impl_model": c["impl_model"],
                           "machinery_note": "Gallina front_end and the implementation's lexer+parser+visitor "
                                             "disagree"})


COQ_LAYOUTS = [
    "{| lay_step := fun _ => 3; lay_cr := false; lay_trail := 0; lay_comment := None; lay_before := []; "
    "lay_after := []; lay_final_nl := true |}",
    "{| lay_step := fun d => 2 * d; lay_cr := true; lay_trail := 2; lay_comment := Some 1; "
    "lay_before := [ {| l_indent := 7; l_lex := []; l_comment := None; l_trail := 0; l_cr := false |}; "
    "{| l_indent := 0; l_lex := []; l_comment := Some 3; l_trail := 1; l_cr := true |} ]; "
    "lay_after := [ {| l_indent := 5; l_lex := []; l_comment := None; l_trail := 0; l_cr := false |} ]; "
    "lay_final_nl := false |}",
]


def slice_render(pid, cases, workdir, rep, stats):
    """the statement of C12_roundtrip, tested by evaluation: for the model p the implementation
    builds from a generated text, names_ok p, canon (render L p) = structure of p and
    front_end (render L p) = FOk p, for two layouts L"""
    import coqeval
    import pfdl_ast
    src = []
    todo = []
    for c in cases:
        kind, model = impl_outcome(c["text"])
        if kind != "model":
            continue
        k = len(todo)
        I = front_lines.FrontInterner()
        todo.append(dict(c, impl_model=model))
        parts = ["Definition pr%d : program := %s.\n" % (k, pfdl_ast.coq_program(I, model))]
        checks = ["names_ok pr%d = true" % k]
        for j, L in enumerate(COQ_LAYOUTS):
            checks.append("canon (render (%s) pr%d) = Some (flatten 0 (forest_of pr%d))" % (L, k, k))
            checks.append("front_end (render (%s) pr%d) = FOk pr%d" % (L, k, k))
        for j, ch in enumerate(checks):
            parts.append("Goal True. first [ assert (%s) by (vm_compute; reflexivity); idtac \"@@%d.%d OK\" "
                         "| idtac \"@@%d.%d FAIL\" ]. Abort.\n" % (ch, k, j, k, j))
        src.append("".join(parts))
    if not todo:
        return
    nshards = min(16, len(todo))
    shards = [list(range(len(todo)))[i::nshards] for i in range(nshards)]
    from concurrent.futures import ThreadPoolExecutor

    def one(ix):
        out, _ = coqeval.run_coq("\n".join(src[k] for k in shards[ix]), workdir, "render_%d" % ix,
                                 header="From PFDL.Front Require Import Render.\n")
        return out
    with ThreadPoolExecutor(max_workers=16) as ex:
        outs = "\n".join(ex.map(one, range(nshards)))
    res = {}
    for m in re.finditer(r"@@(\d+)\.(\d+) (OK|FAIL)", outs):
        res[(int(m.group(1)), int(m.group(2)))] = m.group(3)
    for k, c in enumerate(todo):
        stats["generated"] += 1
        stats["render_cases"] += 1
        stats["compared"] += 1
        verdicts = [res.get((k, j)) for j in range(1 + 2 * len(COQ_LAYOUTS))]
        if all(v == "OK" for v in verdicts):
            stats["agree"] += 1
            stats["render_roundtrip_holds"] += 1
        else:
            rep.violation({"property": pid, "kind": "front", "sub": "render", "text": c["text"],
                           "impl_model": c["impl_model"], "verdicts": verdicts,
                           "machinery_note": "the statement of C12_roundtrip (names_ok p; canon (render L p); "
                                             "front_end (render L p) = FOk p) fails by evaluation for the model "
                                             "the implementation builds from this text"}, "no-failing-input-found")


# ----------------------------------------------------------------------------------------
# the slice
# ----------------------------------------------------------------------------------------
def chunks(seq, k):
    k = max(1, k)
    return [seq[i::k] for i in range(k) if seq[i::k]]


def merge(stats, part):
    for k, v in part.items():
        stats[k] += v


def front_slice(pid, cfg, tier, seed, workdir, rep, stats, findings):
    known = {f["shape"]: f["id"] for f in findings if f["status"] == "known" and f.get("shape")}
    t = cfg[tier]
    jobs = int(os.environ.get("VERIF_JOBS", "16"))
    layout_names = [n for n, _ in LAYOUTS]
    samples = []
    distinct = set()
    t0 = time.time()
    with ProcessPoolExecutor(max_workers=jobs) as ex:
        futs = [ex.submit(worker_roundtrip, (seed, pid, ix, layout_names))
                for ix in chunks(list(range(t["programs"])), jobs * 2)]
        futs += [ex.submit(worker_insertions, (seed, pid, ix, t["positions_per_text"]))
                 for ix in chunks(list(range(t["insertion_texts"])), jobs * 2)]
        for f in futs:
            st, viol, smp, hashes = f.result()
            merge(stats, st)
            distinct |= hashes
            samples += smp
            for v in viol:
                kf = v.pop("_known", None)
                if kf is None:
                    # replay files for the first failures only; all of them are counted
                    stats["failing_cases"] += 1
                    if stats["failing_cases"] <= 40:
                        rep.violation(v)
    stats["layouts"] = len(layout_names)
    stats["distinct_texts"] = len(distinct)
    stats["character_classes"] = sum(1 for k in stats if k.startswith("class:"))
    stats["wall_impl_s"] = int(time.time() - t0)
    # attribution of failures to known findings: only through the executable shape predicates
    for shape in (D13, D14T):
        n = stats.pop("knownshape:" + shape, 0)
        if n:
            if shape in known:
                stats["known:" + known[shape]] += n
            else:
                rep.violation({"property": pid, "kind": "front", "sub": "unlisted-finding", "shape": shape,
                               "count": n, "note": "failures of this shape occurred but known_findings.json has no "
                                                   "'known' entry for it"}, "")
    # Gallina models
    t1 = time.time()
    if have_vo("Lexemes"):
        check_token_tables(pid, workdir, rep, stats)
    if have_vo("Denter"):
        cases = coq_cases(seed, pid, t["coq_denter"], layout_names, wild=True)
        slice_denter(pid, cases, workdir, rep, stats)
    else:
        rep.notes.append("coq/Front/Denter.vo not built: Gallina denter not compared")
    if have_vo("FrontEnd"):
        cases = coq_cases(seed + 1, pid, t["coq_frontend"], layout_names)
        for k, c in enumerate(cases):
            if k % 4 == 1:
                mr = random.Random("%d/%s/mut/%d" % (seed, pid, k))
                ml, how = mutate_lines(c["lines"], mr)
                mt, _ = front_lines.assemble(ml, c["fnl"], FLayout())
                if how != "none" and lexeme_kinds_agree(mt, ml):
                    c.update(lines=ml, text=mt, mutation=how)
                else:
                    stats["frontend_mutation_discarded"] += 1
        slice_frontend(pid, cases, workdir, rep, stats)
    else:
        rep.notes.append("coq/Front/FrontEnd.vo not built: Gallina front end not compared")
    if have_vo("Render") and t.get("coq_render"):
        cases = coq_cases(seed + 2, pid, t["coq_render"], ["plain"])
        slice_render(pid, cases, workdir, rep, stats)
    import front_chars
    if front_chars.have_vo():
        front_chars.slice_chars(pid, t, seed, layout_names, workdir, rep, stats)
    else:
        rep.notes.append("coq/Front/CharLexer.vo not built: Gallina character-level lexer not compared")
    stats["wall_coq_s"] = int(time.time() - t1)
    stats["_distinct"] = distinct
    return samples[:3]


# ----------------------------------------------------------------------------------------
# replay
# ----------------------------------------------------------------------------------------
def replay_front(pid, cfg, payload, workdir):
    sub = payload.get("sub")
    if sub == "roundtrip":
        st, why, r = roundtrip_one(payload["text"], payload["expected"], payload.get("chains", []), None)
        return {"fails": st != "agree", "why": "%s: %s" % (st, why)}
    if sub == "insertion":
        text, pos, ch = payload["text"], payload["pos"], payload["ch"]
        if not front_scan.insertion_is_illegal(text, pos, ch):
            return {"fails": False, "why": "the inserted character is legal at this place"}
        verdict, r = insertion_one(text, pos, ch)
        return {"fails": verdict == "accepted",
                "why": "text with %r inserted at %d is %s (valid=%r, errors=%r)"
                       % (ch, pos, verdict, r["valid"], r["out"][:200])}
    if sub == "tabs":
        import front_dump
        r = front_dump.run_front(payload["text"])
        return {"fails": r["valid"] is True, "why": "valid=%r %s" % (r["valid"], r["out"][:200])}
    if sub == "denter":
        from collections import Counter

        class R:
            def __init__(self):
                self.v = []

            def violation(self, p, tail=""):
                self.v.append(p)
        rr = R()
        slice_denter(pid, [dict(text=payload["text"], lines=payload["lines"], fnl=payload["final_newline"])],
                     workdir, rr, Counter())
        return {"fails": bool(rr.v), "why": str(rr.v[:1])[:500]}
    if sub == "frontend":
        from collections import Counter

        class R:
            def __init__(self):
                self.v = []

            def violation(self, p, tail=""):
                self.v.append(p)
        rr = R()
        slice_frontend(pid, [dict(text=payload["text"], lines=payload["lines"], fnl=payload["final_newline"])],
                       workdir, rr, Counter())
        return {"fails": bool(rr.v), "why": str(rr.v[:1])[:500]}
    if sub == "chars":
        import front_chars
        return front_chars.replay(pid, payload, workdir)
    return {"fails": True, "why": "unknown front case " + repr(sub)}


KIND = {
    "front": {"slice": front_slice, "replay": replay_front,
              "rule": "typed random generation of well-formed programs (harness/gen_front.py: structs with "
                      "primitive/struct/array attributes, tasks with inputs and outputs, all statement kinds, mixed "
                      "variable / path / struct-literal parameters, call outputs, nested literals, expressions over "
                      "all operators, parenthesised or as chains whose tree is given by the standard-precedence "
                      "parser gen_expr.parse_standard) x the layout variants of harness/kind_front.py LAYOUTS; a "
                      "case is non-trivial when the text was parsed by parse_string and its Process, dumped field by "
                      "field, was compared with the generating AST (and the lexer's INDENT/DEDENT/NL stream with "
                      "the forest skeleton); insertion cases: one character that no lexer rule matches inserted at a "
                      "sampled position outside comments and strings, compared = verdict obtained; distinct = "
                      "distinct program texts (sha1)"},
}
