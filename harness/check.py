#!/venv/bin/python
"""./check <property id> [--replay FILE]      (VERIF_TIER, VERIF_SEED honoured)

1. regenerate coq/Gen from /repo, full incremental .vo build (proof obligations);
2. audit: no Admitted/Axiom/..., Print Assumptions of the property theorems;
3. correspondence slice of the property against the implementation in /repo;
4. evidence, KNOWN-FINDING / VIOLATION lines, exit status."""
import collections
import json
import os
import random
import shutil
import sys
import time
import traceback

HERE = os.path.dirname(os.path.abspath(__file__))
sys.path.insert(0, HERE)
os.environ.setdefault("PYTHONHASHSEED", "0")

import common  # noqa: E402
from common import VERIF  # noqa: E402
import props  # noqa: E402
import pymon  # noqa: E402


class Report:
    def __init__(self, pid):
        self.pid = pid
        self.violations = []       # (replay path, tail)
        self.known = []
        self.notes = []

    def violation(self, payload, tail=""):
        path = common.write_replay(self.pid, payload)
        self.violations.append((path, tail))

    def flush(self):
        for k in self.known:
            print("KNOWN-FINDING: property=%s %s" % (self.pid, k))
        for path, tail in self.violations[:5]:
            print(("VIOLATION property=%s replay=%s %s" % (self.pid, path, tail)).rstrip())
        return 1 if self.violations else 0


def case_payload(pid, case, dr, verdict, extra=None):
    p = {"property": pid, "kind": "run", "program_text": dr.get("text"), "prog": case["prog"],
         "vals": case["vals"], "imm": case["imm"], "react": case.get("react"), "react_all": case.get("react_all"), "script": dr.get("script"),
         "options": case.get("options", {}), "impl_trace": dr.get("trace"),
         "impl_exception": dr.get("exc"), "verdict": verdict}
    if extra:
        p.update(extra)
    return p


# --------------------------------------------------------------------------------------
# run-kind properties
# --------------------------------------------------------------------------------------
def py_monitors(cfg):
    """monitors over the parts of an implementation run that are not in the Coq trace type
    (harness/pymon.py): the property's own ones and those applied to every run"""
    own = cfg.get("py_monitor") or []
    return ([own] if isinstance(own, str) else list(own)) + ["stale_oracle", "reentrant_duplicates_refused"]


def run_slice(pid, cfg, n_cases, seed, workdir, rep, stats, profiles=None, attribute=None):
    import gen_run
    import run_cases
    import shapes
    profs = profiles or cfg["profiles"]
    per = max(1, n_cases // len(profs))
    todo = []
    for pname in profs:
        kw = dict(props.RUN_PROFILES[pname])
        test_ids = kw.pop("test_ids", True)
        mutate = kw.pop("mutate", False)
        prof = gen_run.Profile(**kw)
        for i in range(per):
            rng = random.Random("%d/%s/%s/%d" % (seed, pid, pname, i))
            case = gen_run.gen_case(rng, prof)
            case["options"] = {"test_ids": test_ids, "mutate": mutate, "profile": pname}
            dr = run_cases.drive(case, rng, prof, test_ids=test_ids, mutate=mutate)
            stats["generated"] += 1
            stats["profile:" + pname] += 1
            if dr["exc"] is not None:
                stats["impl_exception"] += 1
                kf = attribute(case, dr) if attribute else None
                if kf:
                    stats["known:" + kf] += 1
                else:
                    rep.violation(case_payload(pid, case, dr, None), "")
                continue
            if not dr["valid"]:
                stats["rejected_by_validator"] += 1
                continue
            if dr.get("stalled"):
                stats["script_cut_off"] += 1
            why = None
            for mon_name in py_monitors(cfg):
                why = getattr(pymon, mon_name)(dr)
                stats["py_monitor_checked"] += 1
                if why:
                    rep.violation(case_payload(pid, case, dr, None, {"failed": {"python_monitor": mon_name},
                                                                       "why": why}))
                    break
            if why:
                continue
            todo.append((case, dr))
    verdicts = run_cases.judge_cases(todo, workdir, jobs=16, proj=cfg["proj"], mon=cfg["mon"])
    samples = []
    for (case, dr), v in zip(todo, verdicts):
        w = v["net"]
        st = shapes.stats(case["prog"])
        for k in ("parallel", "cond", "while", "count", "parloop"):
            if st[k]:
                stats["has_" + k] += 1
        stats["calls_total"] += len(dr["script"])
        stats["services_total"] += st["service"]
        if any(case["imm"][:8]):
            stats["with_immediate_completions"] += 1
        if any(e[0] == "fire_in" for r in dr["trace"] for e in r["log"]):
            stats["with_reentrant_completions_of_other_services"] += 1
        for tag, x in (("ref", v), ("net", w)):
            if x["model"] != 0:
                stats["%s_outside_model_%d" % (tag, x["model"])] += 1
            else:
                stats["compared_with_" + tag] += 1
        if v["model"] != 0 and w["model"] != 0:
            stats["monitor_only"] += 1
        else:
            stats["compared"] += 1
        if v["model"] == 0 and not v["mon_model"]:
            # the reference semantics fails the monitor on its own trace: a defect of the
            # machinery, never of /repo (the net model reproduces the implementation's defects,
            # so its trace may fail a monitor)
            rep.violation(case_payload(pid, case, dr, v, {"machinery_error": "monitor fails on a model's own trace"}),
                          "no-failing-input-found")
            continue
        if v.get("net_sig") == 0:
            stats["generated_net_equal"] += 1
        elif v.get("net_sig") == 1:
            stats["generated_net_DIFFERS"] += 1
        ref_bad = v["model"] == 0 and v["disagree"] is not None
        net_bad = w["model"] == 0 and w["disagree"] is not None
        mon_bad = not v["mon_impl"]
        for tag, x in (("ref", v), ("net", w)):
            if x["model"] == 0 and x["full_disagree"] is not None and x["disagree"] is None:
                stats["divergences_outside_projection_" + tag] += 1
        if ref_bad or mon_bad or net_bad:
            # the net model reproduces the known defects, so a deviation from it is never excused
            kf = attribute(case, dr) if (attribute and not net_bad) else None
            if kf:
                stats["known:" + kf] += 1
            elif ref_bad or mon_bad:
                rep.violation(case_payload(pid, case, dr, v, {"failed": {"reference_semantics": ref_bad,
                                                                           "monitor": mon_bad, "net_model": net_bad}}))
            else:
                rep.violation(case_payload(pid, case, dr, v, {"failed": {"net_model": True},
                                                              "broken": "correspondence NetModel (PFDL.NetRun.run_net) vs implementation"}),
                              "no-failing-input-found")
        elif v.get("net_sig") == 1 and cfg.get("net_structure", True):
            rep.violation(case_payload(pid, case, dr, v, {"failed": {"generated_net": True},
                                                          "broken": "correspondence of the generated net (PFDL.NetRun.net_sig_of) "
                                                                    "with the implementation's net: places, arcs or callback table differ",
                                                          "impl_net_signature": dr.get("net_sig")}),
                          "no-failing-input-found")
        else:
            stats["agree"] += 1
            stats.setdefault("_distinct", set()).add(
                (dr["text"], tuple(map(tuple, dr["script"]))))
            if len(samples) < 3 and len(dr["script"]) > 2:
                samples.append({"program": dr["text"], "script": dr["script"],
                                "options": case["options"], "calls": len(dr["script"])})
    return samples


def replay_run(pid, cfg, payload, workdir):
    import gen_run
    import run_cases
    case = {"prog": payload["prog"], "vals": payload["vals"], "imm": payload["imm"],
            "options": payload.get("options", {}), "react": payload.get("react"),
            "react_all": payload.get("react_all")}
    opts = case["options"]
    prof = gen_run.Profile()
    dr = run_cases.drive(case, random.Random(0), prof, test_ids=opts.get("test_ids", True),
                         mutate=opts.get("mutate", False), script=[tuple(x) for x in payload["script"]])
    if dr["exc"] is not None:
        return {"fails": True, "why": "exception %s" % (dr["exc"][:3],), "dr": dr}
    if not dr["valid"]:
        return {"fails": True, "why": "rejected by the validator: " + dr["stdout"][:200], "dr": dr}
    for mon_name in py_monitors(cfg):
        why = getattr(pymon, mon_name)(dr)
        if why:
            return {"fails": True, "why": why, "dr": dr}
    v = run_cases.judge_cases([(case, dr)], workdir, jobs=1, proj=cfg["proj"], mon=cfg["mon"])[0]
    w = v["net"]
    fails = ((v["model"] == 0 and v["disagree"] is not None) or (w["model"] == 0 and w["disagree"] is not None)
             or not v["mon_impl"])
    return {"fails": fails, "why": str(v), "dr": dr, "verdict": v}


# --------------------------------------------------------------------------------------
# corpus and known findings
# --------------------------------------------------------------------------------------
def load_corpus(pid):
    d = os.path.join(VERIF, "corpus")
    out = []
    for f in sorted(os.listdir(d)) if os.path.isdir(d) else []:
        if f.endswith(".json"):
            c = common.dec(json.load(open(os.path.join(d, f))))
            if pid in c.get("properties", []):
                c["_file"] = f
                out.append(c)
    return out


def main():
    args = sys.argv[1:]
    if not args:
        print(__doc__)
        return 2
    pid = args[0]
    replay = args[args.index("--replay") + 1] if "--replay" in args else None
    tier = common.tier()
    seed = common.seed()
    t0 = time.time()
    rep = Report(pid)
    cfg = props.PROPS.get(pid)
    if cfg is None:
        print("unknown property " + pid)
        return 2
    stats = collections.Counter()
    ev = {"property_id": pid, "tier": tier, "seed": seed, "level": "proof",
          "coverage": {}, "assumptions": [], "wall_s": 0.0, "violations": 0}
    cov = ev["coverage"]

    # ---- 1. build: translator + proof obligations ------------------------------------
    build_ok = True
    build_msg = ""
    try:
        runtime, targets = props.build_targets(pid)
        binfo = common.build(targets, runtime)
        cov["build"] = {"make_s": binfo["make_s"], "translator": binfo["gen"]["out"].strip(),
                        "targets": targets or "all", "obligations": props.OBLIGATIONS.get(pid, [])}
    except common.BuildError as e:
        build_ok = False
        build_msg = str(e)
        cov["build"] = {"error": build_msg[-1500:]}
    bad_words = common.audit_sources()
    th = common.property_theorems(pid, cfg.get("property_files", ())) if build_ok else {"theorems": [], "ok": False, "axioms": [],
                                                         "closed": 0, "output": "build failed"}
    cov["theorems"] = th["theorems"]
    cov["axioms_reported"] = th["axioms"]
    nobl = len(props.OBLIGATIONS.get(pid, []))
    cov["obligations"] = max(1, len(th["theorems"]) + nobl)
    cov["discharged"] = (len(th["theorems"]) + nobl) if (th["ok"] and not bad_words and build_ok) else 0
    cov["source_table_obligations"] = ["coq/Gen/Obligations%s.v" % o for o in props.OBLIGATIONS.get(pid, [])]
    cov["checker_cmd"] = ("tools/gen_tables.py && make -C coq (coqc 8.16.1, full .vo build) && "
                          "coqc coq/Properties/%s.v (Print Assumptions)" % pid)
    cov["trusted_base"] = [
        "Coq 8.16.1 kernel incl. its VM (vm_compute); native_compute not used",
        "axioms: none (every Print Assumptions reports 'Closed under the global context')",
        "translator tools/gen_tables.py; harness (generators, canonicalisation, scripted EE)",
        "correspondence evaluated inside coqc on Gallina terms printed by harness/pfdl_ast.py",
    ]
    proofs_ok = build_ok and th["ok"] and not bad_words
    if bad_words:
        cov["forbidden_words"] = bad_words[:10]

    workdir = os.path.join(VERIF, "work", "%s-%d" % (pid, os.getpid()))
    shutil.rmtree(workdir, ignore_errors=True)
    os.makedirs(workdir)
    cwd = os.getcwd()
    os.chdir(workdir)         # the package writes ./temp
    try:
        if replay:
            payload = common.dec(json.load(open(replay if os.path.isabs(replay) else os.path.join(cwd, replay))))
            pk = payload.get("kind") if isinstance(payload, dict) else None
            r = KIND[pk if pk in KIND else cfg["kind"]]["replay"](pid, cfg, payload, workdir)
            print("replay: %s: %s" % ("FAILS" if r["fails"] else "passes", r["why"]))
            return 1 if r["fails"] else 0

        # ---- 2. corpus and known findings ----------------------------------------------
        findings = [f for f in common.load_known_findings() if pid in f["properties"]]
        fmap = {f["id"]: f for f in findings}
        for c in load_corpus(pid):
            r = KIND[c["kind"]]["replay"](pid, props.PROPS[pid] if c["kind"] == cfg["kind"] else cfg, c, workdir)
            stats["corpus_cases"] += 1
            fid = c.get("finding")
            status = fmap.get(fid, {}).get("status") if fid else None
            if r["fails"]:
                if status == "known":
                    stats["known:" + fid] += 1
                else:
                    rep.violation(dict(c, replay_result=r["why"]))
            elif status == "known":
                rep.notes.append("known finding %s no longer reproduces on this tree" % fid)

        # ---- 3. generated correspondence slice -------------------------------------------
        samples = KIND[cfg["kind"]]["slice"](pid, cfg, tier, seed, workdir, rep, stats, findings)
        # additional slices of other kinds (their own models, generators and monitors)
        for k in cfg.get("extra_kinds", ()):
            samples = (samples or []) + (KIND[k]["slice"](pid, cfg, tier, seed, workdir, rep, stats, findings) or [])[:2]
    except Exception:  # noqa: BLE001
        tb = traceback.format_exc()
        rep.violation({"property": pid, "machinery_error": tb}, "no-failing-input-found")
        samples = []
        cov["harness_error"] = tb[-2000:]
    finally:
        os.chdir(cwd)
        shutil.rmtree(workdir, ignore_errors=True)

    # ---- 4. proofs broken: widen the search for a failing input ---------------------------------
    if not proofs_ok and not rep.violations and not replay:
        os.makedirs(workdir, exist_ok=True)
        os.chdir(workdir)
        try:
            for extra in (1, 2):
                stats["search_rounds_after_broken_proof"] += 1
                KIND[cfg["kind"]]["slice"](pid, cfg, tier, seed + 7919 * extra, workdir, rep, stats, findings)
                for k in cfg.get("extra_kinds", ()):
                    KIND[k]["slice"](pid, cfg, tier, seed + 7919 * extra, workdir, rep, stats, findings)
                if rep.violations:
                    break
        except Exception:  # noqa: BLE001
            cov["search_error"] = traceback.format_exc()[-1500:]
        finally:
            os.chdir(cwd)
            shutil.rmtree(workdir, ignore_errors=True)
    if not proofs_ok and not rep.violations:
        rep.violation({"property": pid, "broken": "proof obligation / translator / audit",
                       "build_error": build_msg[-3000:], "print_assumptions": th.get("output", "")[-2000:],
                       "forbidden_words": bad_words[:10],
                       "searched": dict((k, v) for k, v in stats.items() if not k.startswith("_"))},
                      "no-failing-input-found")

    for fid, f in ((f["id"], f) for f in findings if f["status"] == "known"):
        if stats.get("known:" + fid):
            rep.known.append("%s: %s" % (fid, f["summary"]))

    distinct = len(stats.pop("_distinct", set()))
    cov["evaluations"] = int(stats.get("generated", 0) + stats.get("corpus_cases", 0))
    cov["distinct_nontrivial"] = distinct
    cov["rule"] = KIND[cfg["kind"]]["rule"]
    cov["samples"] = samples or [{"note": "no generated case survived"}]
    cov["traces_validated_against_impl"] = int(stats.get("compared", 0))
    cov["counters"] = {k: int(v) for k, v in sorted(stats.items())}
    cov["notes"] = rep.notes
    cov["known_findings_reproduced"] = rep.known
    ev["violations"] = len(rep.violations)
    ev["assumptions"] = [
        "theorems are about the Gallina models (coq/*.v); the models are tied to /repo by the translator's "
        "reflexivity obligations and by the differential correspondence run above",
        "correspondence and failing-input search are sampling, not proof; they are reported separately from the theorems",
    ]
    ev["wall_s"] = round(time.time() - t0, 1)
    common.write_evidence(pid, ev)
    rc = rep.flush()
    print("%s: tier=%s proofs=%s theorems=%d cases=%d compared=%d agree=%d violations=%d (%.0fs)"
          % (pid, tier, "ok" if proofs_ok else "BROKEN", len(th["theorems"]), cov["evaluations"],
             stats.get("compared", 0), stats.get("agree", 0), len(rep.violations), ev["wall_s"]))
    return rc


def reentrant_in_finished(case, dr):
    """history shape of finding D20: the engine reported another service finished from inside
    a finished notification (service-finished / task-finished)"""
    if not case.get("react_all"):
        return False
    for r in dr.get("trace") or []:
        last = None
        for e in r["log"]:
            if e[0] == "notif" and e[1] == 0:
                last = e[2]
            elif e[0] == "fire_in" and last in ("SF", "TF"):
                return True
    return False


def reentrant_with_extra_listeners(case, dr):
    """history shape of finding D25: a completion is reported from inside a notification while
    more than one function is registered for that kind (or an observer is attached): the later
    functions / observers are told about the re-used API object after the nested call"""
    multi = False
    for op in dr.get("script") or []:
        if op[0] == "register" and op[2] != 0:
            multi = True
        if op[0] == "attach":
            multi = True
    if not multi:
        return False
    if any(case["imm"][:40]):
        return True
    return any(e[0] == "fire_in" for r in dr.get("trace") or [] for e in r["log"])


def run_kind_slice(pid, cfg, tier, seed, workdir, rep, stats, findings):
    import shapes
    # a program / history shape of ANY known finding excuses a deviation from the reference
    # semantics (never one from the net model, which reproduces the defects); the KNOWN-FINDING
    # line is printed only for the findings that list this property
    known_shapes = {f["shape"]: f["id"] for f in common.load_known_findings()
                    if f["status"] == "known" and f.get("shape")}

    def attribute(case, dr):
        for sh in sorted(shapes.parloop_findings(case["prog"])):
            if sh in known_shapes:
                return known_shapes[sh]
        if "reentrant_in_finished" in known_shapes and reentrant_in_finished(case, dr):
            return known_shapes["reentrant_in_finished"]
        if "reentrant_with_extra_listeners" in known_shapes and reentrant_with_extra_listeners(case, dr):
            return known_shapes["reentrant_with_extra_listeners"]
        return None

    samples = run_slice(pid, cfg, cfg[tier], seed, workdir, rep, stats)
    # shapes of the known findings: generated too, failures attributed by shape predicate
    profs = list(cfg.get("finding_profiles", []))
    if profs:
        n = max(40, cfg[tier] // 4)
        run_slice(pid, cfg, n, seed + 1, workdir, rep, stats, profiles=profs, attribute=attribute)
    return samples


# --------------------------------------------------------------------------------------
# expr-kind (C13)
# --------------------------------------------------------------------------------------
EXPR_PROGRAM = """Struct Data
    count: number
    ratio: number
    n: number
    flag: boolean
    ok: boolean
End

Task productionTask
    S0
        Out
            d: Data
    Condition
        %s
    Passed
        SP
    Failed
        SF
End
"""


# the same guard after another task has evaluated guards over the SAME variable name and
# attribute names with the types swapped (variables are local to a task: what one task's
# guards did with "d.count" must not influence how another task's guard reads its own d.count)
EXPR_PROGRAM_SHARED = EXPR_PROGRAM.replace("Task productionTask\n", """Struct Other
    count: boolean
    ratio: boolean
    n: boolean
    flag: number
    ok: number
End

Task warmUp
    W0
        Out
            d: Other
    Condition
        d.count == d.ratio Or d.n != d.count
    Passed
        WP
    Condition
        d.flag + d.ok > 0 Or d.flag * d.ok <= 0
    Passed
        WQ
End

Task productionTask
    warmUp
""")


def expr_run_impl(text, val):
    """returns (decision or None, parsed tree or None, note)"""
    import impl_run
    import zlib
    shared = zlib.crc32(text.encode()) % 3 == 0
    try:
        run = impl_run.ImplRun((EXPR_PROGRAM_SHARED if shared else EXPR_PROGRAM) % text, [val], [], test_ids=True)
    except Exception as e:  # noqa: BLE001
        return None, None, "construct:" + type(e).__name__
    if not run.valid:
        return None, None, "invalid:" + run.stdout.strip().split("\n")[0][:80]
    import gen_expr
    tree = gen_expr.dict_to_ast(run.s.process.tasks["productionTask"].statements[2 if shared else 1].expression)
    started = []
    try:
        rec = run.call(("start",))
        for _ in range(8):
            started += [e[3] for e in rec["log"] if e[0] == "notif" and e[2] == "SS"]
            if "SP" in started or "SF" in started or not run.pending:
                break
            rec = run.call(("finish", run.pending[0]))
    except Exception as e:  # noqa: BLE001
        return None, tree, "exception:" + type(e).__name__
    branch = [x for x in started if x in ("SP", "SF")]
    if branch == ["SP"]:
        return True, tree, ""
    if branch == ["SF"]:
        return False, tree, ""
    return None, tree, "no-branch:" + repr(started)


def expr_judge(items, workdir):
    """items: list of (impl_tree, intended_tree, val).  -> list of (decide, ref_impl, ref_intended)
    each None/True/False"""
    import coqeval
    import pfdl_ast
    exprs = []
    for k, (ti, tn, val) in enumerate(items):
        I = pfdl_ast.Interner()
        v = pfdl_ast.coq_value(I, val["*"])
        defs = ("Definition v%d : value := %s.\nDefinition ei%d : expr := %s.\nDefinition en%d : expr := %s.\n"
                % (k, v, k, pfdl_ast.coq_expr(I, ti), k, pfdl_ast.coq_expr(I, tn)))
        e = ("(match decide expected_ops (fun _ _ => Some v%d) ei%d 0 with Ok (b, _) => Some b | _ => None end, "
             "ref_bool (fun _ => Some v%d) ei%d, ref_bool (fun _ => Some v%d) en%d)" % (k, k, k, k, k, k))
        exprs.append((defs, e))
    raw = coqeval.eval_many(exprs, workdir, jobs=16, shard=300,
                            header="From PFDL Require Import Expr.\n", tag="expr")
    out = []
    import re
    for r in raw:
        t = coqeval.parse_result(r)
        m = re.findall(r"None|Some true|Some false", t)
        if len(m) != 3:
            raise RuntimeError("unparsable: " + t)
        out.append(tuple(None if x == "None" else x == "Some true" for x in m))
    return out


def expr_case(pid, text, toks, val, impl_dec, impl_tree, verdict, note=""):
    return {"property": pid, "kind": "expr", "text": text, "tokens": toks, "val": val,
            "impl_decision": impl_dec, "impl_tree": impl_tree, "verdict": verdict, "note": note}


def expr_eval_one(pid, text, toks, val, workdir):
    import gen_expr
    dec, tree, note = expr_run_impl(text, val)
    intended = gen_expr.parse_standard(toks)
    if dec is None:
        return {"dec": None, "note": note, "tree": tree, "intended": intended}
    d, ri, rn = expr_judge([(tree, intended, val)], workdir)[0]
    return {"dec": dec, "note": note, "tree": tree, "intended": intended, "model": d, "ref_impl": ri, "ref_intended": rn}


def expr_slice(pid, cfg, tier, seed, workdir, rep, stats, findings):
    import gen_expr
    known = {f["shape"]: f["id"] for f in findings if f["status"] == "known" and f.get("shape")}
    n = cfg[tier]
    cases = []
    # whole numbers beyond 2**53 (serial numbers): literals and engine values are exact integers;
    # comparisons only, so that no float arithmetic is involved
    from fractions import Fraction
    big = 9007199254740993
    fixed = []
    for op in ("==", "!=", "<", ">=", "<=", ">"):
        for lit in (big, big - 1):
            for v in (big - 1, big, big + 1):
                fixed.append(([("path", "d", [("f", "count")]), op, ("num", Fraction(lit))],
                              {"*": {"count": Fraction(v), "ratio": Fraction(1), "n": Fraction(3), "flag": True, "ok": False}}))
    for i in range(n + len(fixed)):
        rng = random.Random("%d/%s/expr/%d" % (seed, pid, i))
        if i >= n:
            toks, val = fixed[i - n]
        else:
            toks = gen_expr.gen_tokens_bool(rng, rng.randint(0, 2))
            val = gen_expr.gen_valuation(rng)
        text = gen_expr.tokens_text(toks)
        stats["generated"] += 1
        dec, tree, note = expr_run_impl(text, val)
        if dec is None:
            stats["skipped:" + note.split(":")[0]] += 1
            if note.startswith("exception:") and not note.endswith("ZeroDivisionError"):
                rep.violation(expr_case(pid, text, toks, val, None, tree, None, note))
            if note.startswith("invalid:") or note.startswith("construct:"):
                stats["_skipnotes"] = stats.get("_skipnotes", 0)
            continue
        cases.append((text, toks, val, dec, tree, gen_expr.parse_standard(toks)))
    res = expr_judge([(c[4], c[5], c[2]) for c in cases], workdir)
    samples = []
    distinct = set()
    for (text, toks, val, dec, tree, intended), (d, ri, rn) in zip(cases, res):
        stats["compared"] += 1
        if tree != intended:
            stats["parse_differs_from_standard_precedence"] += 1
        verdict = {"model_decide": d, "ref_on_impl_tree": ri, "ref_on_intended_tree": rn}
        if d is None:
            stats["outside_model"] += 1
            continue
        if d != dec:
            # the model of execute_expression disagrees with the code on the code's own tree
            rep.violation(expr_case(pid, text, toks, val, dec, tree, verdict, "evaluation differs from the model"))
            continue
        if rn is None:
            stats["reference_undefined"] += 1
            continue
        if rn != dec:
            if gen_expr.has_div_then_mul(toks) and "div_then_mul" in known:
                stats["known:" + known["div_then_mul"]] += 1
            else:
                rep.violation(expr_case(pid, text, toks, val, dec, tree, verdict,
                                        "decision differs from the truth value under the stated precedence"))
            continue
        stats["agree"] += 1
        distinct.add(text)
        if len(samples) < 4 and len(toks) > 6:
            samples.append({"expression": text, "valuation": val["*"], "decision": dec})
    stats["_distinct"] = distinct
    # guards inside running orders: re-evaluated against the values the engine holds then
    if cfg.get("run_profiles"):
        run_slice(pid, cfg, cfg["run_" + tier], seed, workdir, rep, stats, profiles=cfg["run_profiles"])
        stats["_distinct"] = distinct | stats.get("_distinct", set()) if isinstance(stats.get("_distinct"), set) else distinct
    # same spelling, different types in two tasks: the branch taken is the value of the guard
    import kind_check
    kind_check.guard_branch_slice(pid, 30 if tier == "quick" else 600, seed, workdir, rep, stats)
    return samples


def replay_expr(pid, cfg, payload, workdir):
    if payload.get("kind") == "run":
        return replay_run(pid, cfg, payload, workdir)
    r = expr_eval_one(pid, payload["text"], payload["tokens"], payload["val"], workdir)
    if r["dec"] is None:
        fails = r["note"].startswith("exception:") and not r["note"].endswith("ZeroDivisionError")
        return {"fails": fails, "why": r["note"]}
    fails = (r["model"] is not None and r["model"] != r["dec"]) or \
            (r["ref_intended"] is not None and r["ref_intended"] != r["dec"])
    return {"fails": fails, "why": str({k: r[k] for k in ("dec", "model", "ref_impl", "ref_intended")})}


KIND = {
    "run": {"slice": run_kind_slice, "replay": replay_run,
            "rule": "typed random generation of valid programs (profiles in harness/props.py), valuations, "
                    "immediate-completion bits and API scripts from one PRNG state per case; a case is "
                    "non-trivial when model and implementation were both run to the end of the script and "
                    "compared; distinct = distinct (program text, script) pairs among those"},
    "expr": {"slice": expr_slice, "replay": replay_expr,
             "rule": "random boolean expressions (comparison chains over arithmetic chains, And/Or, '!', "
                     "parentheses; dyadic values, divisors are non-zero literals) x random valuations; the "
                     "implementation's decision (which branch of a Condition starts) is compared with the model "
                     "of execute_expression on the implementation's own parse tree and with the reference "
                     "semantics on the tree the stated precedence rules assign; non-trivial = compared and the "
                     "reference semantics defines a value; distinct = distinct expression texts"},
}

# plug-in kinds: every harness/kind_<name>.py exposes KIND = {"<kind>": {"slice", "replay", "rule"}}
for _f in sorted(os.listdir(HERE)):
    if _f.startswith("kind_") and _f.endswith(".py"):
        _m = __import__(_f[:-3])
        KIND.update(getattr(_m, "KIND", {}))

if __name__ == "__main__":
    sys.exit(main())
