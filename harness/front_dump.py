"""Front end (C12), implementation side: run pfdl_scheduler's parse_string on a text and dump
the resulting Process field by field into the harness AST (pfdl_ast.py); run the real
PFDLLexer (with its denter) and return the token-name stream."""
import contextlib
import io
import os
import sys
from fractions import Fraction

REPO = os.environ.get("PFDL_REPO", "/repo")
if REPO not in sys.path:
    sys.path.insert(0, REPO)

from antlr4.CommonTokenStream import CommonTokenStream  # noqa: E402
from antlr4.InputStream import InputStream  # noqa: E402
from pfdl_scheduler.parser.PFDLLexer import PFDLLexer  # noqa: E402
from pfdl_scheduler.parser.PFDLParser import PFDLParser  # noqa: E402
from pfdl_scheduler.parser.pfdl_tree_visitor import PFDLTreeVisitor  # noqa: E402
from pfdl_scheduler.utils.parsing_utils import parse_string  # noqa: E402
from pfdl_scheduler.validation.error_handler import ErrorHandler  # noqa: E402
from pfdl_scheduler.validation.syntax_error_listener import SyntaxErrorListener  # noqa: E402
from pfdl_scheduler.model.struct import Struct  # noqa: E402
from pfdl_scheduler.model.array import Array  # noqa: E402
from pfdl_scheduler.model.service import Service  # noqa: E402
from pfdl_scheduler.model.task_call import TaskCall  # noqa: E402
from pfdl_scheduler.model.parallel import Parallel  # noqa: E402
from pfdl_scheduler.model.while_loop import WhileLoop  # noqa: E402
from pfdl_scheduler.model.counting_loop import CountingLoop  # noqa: E402
from pfdl_scheduler.model.condition import Condition  # noqa: E402


class DumpError(Exception):
    """the Process contains something the AST cannot express"""


def lexer_tokens(text):
    """token-name stream of the real lexer incl. INDENT / DEDENT / NL, ending with EOF"""
    lx = PFDLLexer(InputStream(text))
    lx.removeErrorListeners()
    out = []
    for _ in range(len(text) * 3 + 50):
        t = lx.nextToken()
        if t.type == -1:
            out.append("EOF")
            return out
        out.append(lx.symbolicNames[t.type])
    raise RuntimeError("lexer does not reach EOF")


def parse_pelem(text):
    if text.startswith("[") and text.endswith("]"):
        inner = text[1:-1]
        if inner == "":
            return ("in",)
        if inner.isdigit():
            return ("il", int(inner))
        return ("iv", inner)
    return ("f", text)


def num(x):
    if isinstance(x, bool) or not isinstance(x, (int, float)):
        raise DumpError("not a number: %r" % (x,))
    return ("num", Fraction(x))


def dump_expr(x):
    if isinstance(x, bool):
        return ("bool", x)
    if isinstance(x, (int, float)):
        return num(x)
    if isinstance(x, str):
        if len(x) >= 2 and x[0] == '"' and x[-1] == '"':
            return ("str", x[1:-1])
        raise DumpError("bare string in expression: %r" % x)
    if isinstance(x, list):
        if not x or not all(isinstance(t, str) for t in x):
            raise DumpError("attribute access: %r" % (x,))
        return ("path", x[0], [parse_pelem(t) for t in x[1:]])
    if isinstance(x, dict):
        if set(x) == {"unOp", "value"}:
            if x["unOp"] != "!":
                raise DumpError("unary operator %r" % (x["unOp"],))
            return ("not", dump_expr(x["value"]))
        if set(x) == {"binOp", "left", "right"}:
            if x["left"] == "(" and x["right"] == ")":
                return ("paren", dump_expr(x["binOp"]))
            if not isinstance(x["binOp"], str):
                raise DumpError("operator %r" % (x["binOp"],))
            return ("bin", x["binOp"], dump_expr(x["left"]), dump_expr(x["right"]))
    raise DumpError("expression: %r" % (x,))


def dump_vtype(t):
    if isinstance(t, str):
        return ("plain", t)
    if isinstance(t, Array):
        if t.values:
            raise DumpError("array type with values")
        ln = t.length
        if ln == -1:
            ln = None
        return ("array", t.type_of_elements, ln)
    raise DumpError("type: %r" % (t,))


def dump_json(v):
    if isinstance(v, bool):
        return ("bool", v)
    if isinstance(v, (int, float)):
        return num(v)
    if isinstance(v, str):
        return ("str", v)
    if isinstance(v, Array):
        if t_len(v) != len(v.values):
            raise DumpError("array length %r with %d values" % (v.length, len(v.values)))
        return ("arr", [dump_json(x) for x in v.values])
    if isinstance(v, Struct):
        return ("obj", [(k, dump_json(x)) for k, x in v.attributes.items()])
    raise DumpError("literal value: %r" % (v,))


def t_len(a):
    return 0 if a.length == -1 else a.length


def dump_params(ps, sites=None):
    """sites (optional list) collects the Struct objects of the literal parameters in
    dump (= source) order, for the per-site identity check of dump_process"""
    out = []
    for p in ps:
        if isinstance(p, Struct) and sites is not None:
            sites.append(p)
        if isinstance(p, str):
            out.append(("var", p))
        elif isinstance(p, list):
            out.append(("path", p[0], [parse_pelem(x) for x in p[1:]]))
        elif isinstance(p, Struct):
            out.append(("lit", p.name, dump_json(p)))
        else:
            raise DumpError("parameter: %r" % (p,))
    return out


def dump_outs(d):
    return [(k, dump_vtype(v)) for k, v in d.items()]


def dump_stmt(s, sites=None):
    if isinstance(s, Service):
        return ("service", s.name, dump_params(s.input_parameters, sites), dump_outs(s.output_parameters))
    if isinstance(s, TaskCall):
        return ("call", s.name, dump_params(s.input_parameters, sites), dump_outs(s.output_parameters))
    if isinstance(s, Parallel):
        return ("parallel", [(c.name, dump_params(c.input_parameters, sites), dump_outs(c.output_parameters))
                             for c in s.task_calls])
    if isinstance(s, WhileLoop):
        return ("while", dump_expr(s.expression), [dump_stmt(x, sites) for x in s.statements])
    if isinstance(s, CountingLoop):
        if isinstance(s.limit, int) and not isinstance(s.limit, bool):
            lim = ("int", s.limit)
        elif isinstance(s.limit, list):
            lim = ("path", s.limit[0], [parse_pelem(x) for x in s.limit[1:]])
        else:
            raise DumpError("limit: %r" % (s.limit,))
        return ("count", bool(s.parallel), s.counting_variable, lim, [dump_stmt(x, sites) for x in s.statements])
    if isinstance(s, Condition):
        return ("cond", dump_expr(s.expression), [dump_stmt(x, sites) for x in s.passed_stmts],
                [dump_stmt(x, sites) for x in s.failed_stmts])
    raise DumpError("statement: %r" % (s,))


def dump_process(process):
    structs = []
    for k, s in process.structs.items():
        if k != s.name:
            raise DumpError("struct key %r != name %r" % (k, s.name))
        structs.append({"name": s.name, "attrs": [(n, dump_vtype(t)) for n, t in s.attributes.items()]})
    tasks = []
    sites = []
    for k, t in process.tasks.items():
        if k != t.name:
            raise DumpError("task key %r != name %r" % (k, t.name))
        tasks.append({"name": t.name, "ins": [(n, dump_vtype(ty)) for n, ty in t.input_parameters.items()],
                      "body": [dump_stmt(s, sites) for s in t.statements], "outs": list(t.output_parameters)})
    check_literal_sites(sites)
    return {"structs": structs, "tasks": tasks}


def check_literal_sites(sites):
    """every struct literal written in the text is its own object, positioned at its own place:
    no object is shared between two call sites, and the contexts follow the source order"""
    seen = set()
    last = -1
    for st in sites:
        if id(st) in seen:
            raise DumpError("one Struct object is shared by two literal sites (named %r)" % (st.name,))
        seen.add(id(st))
        ctx = st.context
        try:
            idx = ctx.start.tokenIndex
            first = ctx.start.text
        except AttributeError:
            raise DumpError("literal %r has no parse context" % (st.name,))
        if first != st.name:
            raise DumpError("literal named %r is positioned at the token %r" % (st.name, first))
        if idx <= last:
            raise DumpError("literal %r is positioned before an earlier literal (token %d after %d)"
                            % (st.name, idx, last))
        last = idx


def visit_only(text):
    """parse_string without the semantic checker (used when the checker raises):
    -> (syntax_ok, process or None)"""
    lexer = PFDLLexer(InputStream(text))
    lexer.removeErrorListeners()
    ts = CommonTokenStream(lexer)
    parser = PFDLParser(ts)
    parser.removeErrorListeners()
    eh = ErrorHandler("", False)
    parser.addErrorListener(SyntaxErrorListener(ts, eh))
    tree = parser.program()
    if eh.has_error():
        return False, None
    process = PFDLTreeVisitor(eh).visit(tree)
    return (not eh.has_error()), process


def run_front(text):
    """-> dict(valid: bool|None, model: AST|None, out: stdout, exc: None|str, how: str)
    valid is parse_string's verdict (None when it raised)"""
    buf = io.StringIO()
    res = {"valid": None, "model": None, "out": "", "exc": None, "how": "parse_string", "dump_error": None}
    process = None
    try:
        with contextlib.redirect_stdout(buf):
            valid, process = parse_string(text)
        res["valid"] = bool(valid)
    except RecursionError:
        res["exc"] = "RecursionError"
    except Exception as e:  # noqa: BLE001
        res["exc"] = type(e).__name__ + ": " + str(e)[:200]
    res["out"] = buf.getvalue()
    if res["exc"] is not None:
        # the semantic checker raised: look at the model it was given
        res["how"] = "visitor"
        try:
            with contextlib.redirect_stdout(io.StringIO()):
                ok, process = visit_only(text)
        except Exception as e:  # noqa: BLE001
            res["exc"] += " / visitor: " + type(e).__name__
            process = None
    if process is not None:
        try:
            res["model"] = dump_process(process)
        except DumpError as e:
            res["dump_error"] = str(e)
    return res
