"""Per-property configuration of the validator checks (case kind `check`, harness/kind_check.py).
quick / thorough: size parameter of the slice (C10/C19: repetitions per fault class;
C11/C16/C09: number of generated well-formed programs); *_fuzz: number of fuzz inputs."""

PROPS = {
    "C09": dict(kind="check", quick=120, thorough=2400, proj="P_C01", mon="mon_C01"),  # proj/mon: run-kind corpus witnesses
    "C10": dict(kind="check", quick=3, thorough=60),
    "C11": dict(kind="check", quick=160, thorough=3200),
    "C16": dict(kind="check", quick=120, thorough=2400, quick_fuzz=1500, thorough_fuzz=30000),
    "C19": dict(kind="check", quick=3, thorough=60),
}
