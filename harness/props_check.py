"""Per-property configuration of the validator checks (case kind `check`, harness/kind_check.py).
quick / thorough: size parameter of the slice (C10/C19: repetitions per fault class;
C11/C16/C09: number of generated well-formed programs); *_fuzz: number of fuzz inputs.
runtime: the model files the correspondence evaluates inside coqc; targets: the property's
theorem file (common.build builds exactly these, see props.build_targets)."""

_RT = ["Check/CheckRun.vo", "Check/Guards.vo"]

PROPS = {
    # proj/mon and the run-time models: the run-kind corpus witnesses D1, D19 list C09
    # C09runtime: the run-time half on the reference semantics (coq/C09*.v)
    "C09": dict(kind="check", quick=120, thorough=2400, proj="P_C01", mon="mon_C01",
                property_files=("C09runtime",),
                runtime=_RT + ["NetRun.vo", "Monitors.vo"],
                targets=["Properties/C09.vo", "Properties/C09runtime.vo"]),
    # C10b: the type classes (arguments, operands, literal values, deeper path steps), coq/Check/CheckProofsC10b.v
    "C10": dict(kind="check", quick=3, thorough=60, property_files=("C10b",), runtime=_RT,
                targets=["Properties/C10.vo", "Properties/C10b.vo"]),
    "C11": dict(kind="check", quick=160, thorough=3200, runtime=_RT, targets=["Properties/C11.vo"]),
    # C16text: the same property on program TEXTS (coq/TextPipeline.v; extra slice harness/kind_c16text.py)
    "C16": dict(kind="check", quick=120, thorough=2400, quick_fuzz=1500, thorough_fuzz=30000,
                property_files=("C16text",), extra_kinds=("c16text",),
                runtime=_RT + ["TextPipeline.vo"], targets=["Properties/C16.vo", "Properties/C16text.vo"]),
    # C19lines: the same property in LINE NUMBERS of the text (coq/Front/LinesOf.v; extra slice
    # harness/kind_c19lines.py evaluates ctx_line / line_span inside coqc)
    "C19": dict(kind="check", quick=3, thorough=60, property_files=("C19lines",), extra_kinds=("c19lines",),
                runtime=_RT + ["Front/LinesOf.vo"], targets=["Properties/C19.vo", "Properties/C19lines.vo"]),
}
