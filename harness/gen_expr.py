"""`expr` cases for C13: expression texts (with and without parentheses), the tree the
property's precedence rules assign to them, and valuations."""
from fractions import Fraction

from gen_run import DYADIC, DIVISORS

# precedence the property states: * / over + - over comparisons over And over Or,
# equal rank associates to the left.  '!' is a prefix operator applied to an atom or a
# parenthesised expression in generated texts (its rank in the grammar is not part of
# the property's statement).
RANK = {"*": 5, "/": 5, "+": 4, "-": 4, "<": 3, "<=": 3, ">": 3, ">=": 3, "==": 3, "!=": 3,
        "And": 2, "Or": 1}

VALUE_FIELDS_NUM = ["count", "ratio", "n"]
VALUE_FIELDS_BOOL = ["flag", "ok"]


def gen_valuation(rng):
    return {"*": {"count": rng.choice(DYADIC), "ratio": rng.choice(DYADIC), "n": rng.choice(DYADIC),
                  "flag": rng.random() < 0.5, "ok": rng.random() < 0.5}}


def num_atom(rng):
    if rng.random() < 0.5:
        return ("path", "d", [("f", rng.choice(VALUE_FIELDS_NUM))])
    return ("num", rng.choice(DYADIC + [Fraction(8), Fraction(6)]))


def bool_atom(rng):
    c = rng.random()
    if c < 0.5:
        return ("path", "d", [("f", rng.choice(VALUE_FIELDS_BOOL))])
    return ("bool", rng.random() < 0.5)


def gen_tokens_num(rng, n_ops, allow_paren=True):
    """a flat arithmetic chain: atom (op atom)*, some operands parenthesised sub-chains.
    Returns token list; tokens are atoms (tuples), operator strings, '(' and ')'."""
    toks = []

    def operand(divisor):
        if allow_paren and rng.random() < 0.2:
            return ["("] + gen_tokens_num(rng, rng.randint(1, 2), allow_paren=False) + [")"]
        if divisor:
            return [("num", rng.choice(DIVISORS))]
        return [num_atom(rng)]

    toks += operand(False)
    for _ in range(n_ops):
        op = rng.choice(["+", "-", "*", "/"])
        toks.append(op)
        toks += operand(op == "/")
    return toks


def gen_tokens_bool(rng, depth):
    """comparison chains joined by And / Or, '!' on atoms or parenthesised groups"""
    def comparison():
        c = rng.random()
        if c < 0.6:
            return (gen_tokens_num(rng, rng.randint(0, 3)) + [rng.choice(["<", "<=", ">", ">=", "==", "!="])]
                    + gen_tokens_num(rng, rng.randint(0, 2)))
        if c < 0.75:
            return [bool_atom(rng)]
        if c < 0.9:
            inner = ["("] + gen_tokens_bool(rng, 0) + [")"] if rng.random() < 0.6 else [bool_atom(rng)]
            return ["!"] + inner
        return ["("] + gen_tokens_bool(rng, max(0, depth - 1)) + [")"]

    toks = comparison()
    for _ in range(rng.randint(0, depth + 1)):
        toks.append(rng.choice(["And", "Or"]))
        toks += comparison()
    return toks


def tokens_text(toks):
    import pfdl_ast
    out = []
    for t in toks:
        if isinstance(t, tuple):
            out.append(pfdl_ast.expr_text(t))
        else:
            out.append(t)
    s = " ".join(out)
    return s.replace("( ", "(").replace(" )", ")").replace("! ", "!")


def parse_standard(toks):
    """precedence climbing with the property's ranks; returns the intended tree
    (EParen nodes kept, as the visitor keeps them)"""
    pos = [0]

    def peek():
        return toks[pos[0]] if pos[0] < len(toks) else None

    def nxt():
        t = toks[pos[0]]
        pos[0] += 1
        return t

    def primary():
        t = nxt()
        if t == "(":
            e = expr(0)
            assert nxt() == ")"
            return ("paren", e)
        if t == "!":
            return ("not", primary())
        assert isinstance(t, tuple), t
        return t

    def expr(min_rank):
        left = primary()
        while True:
            t = peek()
            if t is None or t in (")",) or not isinstance(t, str) or t not in RANK or RANK[t] < min_rank:
                return left
            nxt()
            right = expr(RANK[t] + 1)
            left = ("bin", t, left, right)

    e = expr(0)
    assert pos[0] == len(toks)
    return e


def dict_to_ast(x):
    """the visitor's expression representation -> harness AST"""
    from impl_run import parse_pelem
    if isinstance(x, bool):
        return ("bool", x)
    if isinstance(x, (int, float)):
        return ("num", Fraction(x))
    if isinstance(x, str):
        return ("str", x.strip('"'))
    if isinstance(x, list):
        return ("path", x[0], [parse_pelem(t) for t in x[1:]])
    if isinstance(x, dict):
        if len(x) == 2:
            return ("not", dict_to_ast(x["value"]))
        if x["left"] == "(" and x["right"] == ")":
            return ("paren", dict_to_ast(x["binOp"]))
        return ("bin", x["binOp"], dict_to_ast(x["left"]), dict_to_ast(x["right"]))
    raise ValueError(x)


def has_div_then_mul(toks):
    """shape of the known finding: inside one parenthesis level, a '/' whose chain of
    multiplicative operators is continued by '*'  (a / b * c), where the generated parser
    groups a / (b * c)"""
    depth_state = [False]
    for t in toks:
        if t == "(":
            depth_state.append(False)
        elif t == ")":
            depth_state.pop()
        elif isinstance(t, str):
            if t == "/":
                depth_state[-1] = True
            elif t == "*":
                if depth_state[-1]:
                    return True
            elif t != "!":
                depth_state[-1] = False
    return False


def has_minus_then_plus(toks):
    """a - b + c : grouped a - (b + c) by the generated parser"""
    depth_state = [False]
    for t in toks:
        if t == "(":
            depth_state.append(False)
        elif t == ")":
            depth_state.pop()
        elif isinstance(t, str):
            if t == "-":
                depth_state[-1] = True
            elif t == "+":
                if depth_state[-1]:
                    return True
            elif t in ("*", "/", "!"):
                pass
            else:
                depth_state[-1] = False
    return False
