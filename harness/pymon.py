"""Monitors over the parts of an implementation run that are not in the Coq trace type."""


def petri_net_notices(dr):
    """C17: every accepted event is followed by at least one net-updated notice carrying the
    scheduler's id, for every observer attached at that time.  Returns None or a reason."""
    run = dr.get("run")
    if run is None:
        return None
    sid = run.s.scheduler_uuid
    attached = []
    for op, rec in zip(dr["script"], dr["trace"]):
        if op[0] == "attach":
            attached.append(op[1])
        elif op[0] == "detach" and op[1] in attached:
            attached.remove(op[1])
        accepted = (op[0] == "finish" and rec["ret"]) or (op[0] == "start" and rec["ret"] and any(
            e[0] == "notif" for e in rec["log"]))
        for tag, data in rec["net_notices"]:
            if data != sid:
                return "net-updated notice carries %r instead of the scheduler id" % (data,)
        if accepted:
            for o in set(attached):
                if not any(tag == o for tag, _ in rec["net_notices"]):
                    return "accepted call %r: observer %r got no net-updated notice" % (op, o)
        elif op[0] in ("finish", "junk") and rec["net_notices"]:
            return "rejected call %r produced a net-updated notice" % (op,)
    return None


def stale_oracle(dr):
    """every run: the scheduler asks the variable access function that was registered LAST (the
    harness replaces it by a fresh wrapper before later API calls of about half of the cases)"""
    run = dr.get("run")
    if run is None or not getattr(run, "stale", None):
        return None
    g, cur, name = run.stale[0]
    return ("variable %r was read through access function #%d although #%d had been registered since "
            "(%d stale reads)" % (name, g, cur, len(run.stale)))


def reentrant_duplicates_refused(dr):
    """every run (a third of the cases): the completion being delivered, reported again from
    inside its own service-finished notification, is refused"""
    run = dr.get("run")
    for sid, r in (getattr(run, "dup_results", None) or []):
        if r:
            return ("the completion of service %d was accepted a second time when it was reported again from inside "
                    "its own service-finished notification" % sid)
    return None
