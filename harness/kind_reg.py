"""C20 — functions that are registered RE-ENTRANTLY, from inside a callback, while the
scheduler iterates over the callback list of a notification (also with the rest of the order
running nested inside the engine's callback: immediate completions).

Model: coq/RegDispatch.v (run_steps: the loops of the four on_* handlers over the LIVE lists,
register_callback_* refusing a function that is in the list, notifications nested inside the
invocation of function 0, registrations from outside between API calls).  Theorems:
coq/Properties/C20reg.v.

Per case (one random.Random per case, so a case replays exactly):
  * a generated valid program, valuations, immediate-completion bits (for about half of the
    cases) and a completion order (harness/gen_run.py; dry run with function 0 only: the
    notification sequence does not depend on the other functions);
  * function 0 (the engine) is registered for the four kinds at construction; 0-2 further
    recording functions per kind are registered before start(), further ones between API calls
    and -- the point -- from inside callbacks: a table (function, notification number) -> calls
    of register_callback_<kind>(g) made inside that invocation: a new function, a registered
    one, the same new one twice (from two callbacks of one dispatch / from one callback), for the
    kind being dispatched and for other kinds; function 0's registrations precede its immediate
    completion, so that the rest of the order runs nested after them;
  * some functions are bound methods of recording objects that are kept alive ONLY by the
    scheduler's callback list (the harness holds a weak reference);
  * recorded: every invocation (notification number, function, the argument OBJECT), every
    registration with its return value, and -- through an observer's LOG_EVENT entry, which the
    handlers send right after their loop -- the end of every dispatch with the callback list;
  * judged twice: (1) the scenario is printed as a Gallina term, RegDispatch.run_coded is
    evaluated inside coqc and the event sequences and final lists must be equal; (2) a monitor
    over the implementation's record alone: a registration is refused exactly if the function
    was accepted for that kind before; every function accepted for the kind before a notification
    starts is invoked exactly once for it; nobody is invoked twice; order of invocation = order
    of acceptance; all functions of one notification receive THE SAME argument object."""
import ast
import contextlib
import fcntl
import io
import os
import random
import subprocess
import traceback
import weakref

import common
import coqeval
import gen_run
import impl_run
import run_cases
from impl_run import NotificationType, Observer

SIZES = {"quick": 150, "thorough": 3000}
POOL = 7                    # functions are numbered 0..POOL; 0 = the engine
KINDS = ["TS", "TF", "SS", "SF"]
KCODE = {k: i for i, k in enumerate(KINDS)}
FUEL = 4000
RUNAWAY = 300               # invocations for ONE notification after which the functions stop reacting
MAX_DEPTH = 150             # nesting of dispatches beyond which the record is not given to the model
HEADER = ("From Coq Require Import List.\nFrom PFDL Require Import RegDispatch.\nImport ListNotations.\n"
          "Set Printing Depth 1000000.\nSet Printing Width 200.\n")
PROGRAM_PROFILES = [
    dict(imm=0.0, budget=5, w={"service": 5, "call": 3, "parallel": 2, "count": 2, "while": 1, "cond": 2}),
    dict(imm=0.5, budget=5, w={"service": 5, "call": 3, "parallel": 2, "count": 3, "while": 1, "cond": 1}),
    dict(imm=0.0, budget=4, max_block=2, w={"service": 5, "call": 2, "parallel": 1, "count": 3, "while": 1, "cond": 1}),
    dict(imm=0.8, budget=6, w={"service": 4, "call": 4, "parallel": 2, "count": 2, "while": 0, "cond": 1}),
]


# --------------------------------------------------------------------------------------
# the implementation
# --------------------------------------------------------------------------------------
class Recorder:
    """function g: its four bound methods are what is registered"""

    def __init__(self, g, run):
        self.g = g
        self.run = run

    def on_ts(self, t):
        self.run.on_ts(self.g, t)

    def on_tf(self, t):
        self.run.on_tf(self.g, t)

    def on_ss(self, a):
        self.run.on_ss(self.g, a)

    def on_sf(self, a):
        self.run.on_sf(self.g, a)

    def __call__(self, api):
        """ONE callable for all four kinds (a generic audit listener): the kind is that of the
        notification being dispatched (function 0, registered first for every kind, has
        pushed it)"""
        K = self.run.stack[-1][1] if self.run.stack else "TS"
        getattr(self.run, "on_" + K.lower())(self.g, api)


def generic(g, weak):
    """functions registered as ONE object for every kind (not as four bound methods)"""
    return g != 0 and g % 2 == 0 and g not in weak


class EndObserver(Observer):
    """the handlers send the LOG_EVENT entry right after their loop over the functions"""

    def __init__(self, run):
        self.run = run

    def update(self, notification_type, data):
        if notification_type == NotificationType.LOG_EVENT:
            self.run.end_mark()


def ident(cb):
    """function number of an entry of a callback list"""
    if isinstance(cb, weakref.WeakMethod):
        cb = cb()
        if cb is None:
            return -1                      # a dead entry
    if isinstance(cb, Recorder):
        return cb.g
    o = getattr(cb, "__self__", None)
    if isinstance(o, Recorder):
        return o.g
    if isinstance(o, impl_run.Listener):
        return o.lid
    return -2


class RegRun(impl_run.ImplRun):
    def __init__(self, text, vals, imm, table, weak):
        self.n = -1
        self.stack = []            # notifications being dispatched: [number, kind]
        self.events = []
        self.args = []             # (notification, function, argument object): kept alive, compared with `is`
        self.table = table
        self.count = {}
        self.runaway = None
        self.weak = set(weak)
        self.strong = {}
        self.refs = {}
        super().__init__(text, vals, imm, test_ids=True)
        if self.valid:
            self.s.attach(EndObserver(self))

    # -- the four kinds arrive here, for function 0 (ImplRun's Listener) and for the Recorders
    def _enter(self, K, lid, api):
        if lid == 0:
            self.n += 1
            self.events.append(("start", self.n, K, len(self.stack)))
            self.stack.append([self.n, K])
        m = self.stack[-1][0] if self.stack else -1
        self.events.append(("inv", m, K, lid))
        self.args.append((m, lid, api))
        # a loop over a list that keeps growing need not terminate (a function that registers a
        # function again and is accepted again): stop reacting, so that the run ends
        self.count[m] = self.count.get(m, 0) + 1
        if self.count[m] > RUNAWAY or len(self.stack) > MAX_DEPTH:
            if not self.runaway:
                self.runaway = (m, K)
            return
        for K2, g in self.table.get((lid, m), ()):
            self.do_register(K2, g, (m, lid))

    def on_ts(self, lid, t):
        self._enter("TS", lid, t)
        super().on_ts(lid, t)

    def on_tf(self, lid, t):
        self._enter("TF", lid, t)
        super().on_tf(lid, t)

    def on_ss(self, lid, a):
        self._enter("SS", lid, a)
        super().on_ss(lid, a)          # function 0: immediate completion -> the rest runs nested

    def on_sf(self, lid, a):
        self._enter("SF", lid, a)
        super().on_sf(lid, a)

    def lists(self):
        tc = self.s.task_callbacks
        return {"TS": [ident(c) for c in tc.task_started], "TF": [ident(c) for c in tc.task_finished],
                "SS": [ident(c) for c in tc.service_started], "SF": [ident(c) for c in tc.service_finished]}

    def end_mark(self):
        if not self.stack:
            self.events.append(("end", -1, "TS", []))
            return
        m, K = self.stack.pop()
        self.events.append(("end", m, K, self.lists()[K]))

    def recorder(self, g):
        if g == 0:
            return self.listeners[0]       # the engine: ImplRun's own listener
        if g not in self.weak:
            return self.strong.setdefault(g, Recorder(g, self))
        r = self.refs.get(g)
        obj = r() if r is not None else None
        if obj is None:
            obj = Recorder(g, self)        # alive through the scheduler's list only
            self.refs[g] = weakref.ref(obj)
        return obj

    def do_register(self, K, g, by):
        s = self.s
        meth = self.recorder(g) if generic(g, self.weak) else getattr(self.recorder(g), "on_" + K.lower())
        fn = {"TS": s.register_callback_task_started, "TF": s.register_callback_task_finished,
              "SS": s.register_callback_service_started, "SF": s.register_callback_service_finished}[K]
        ret = fn(meth)
        del meth
        if by is None:
            self.events.append(("out", K, g, ret))
        else:
            self.events.append(("reg", by[0], by[1], K, g, ret))


def run_impl(text, vals, imm, script, ext, table, weak):
    out = {"valid": None, "exc": None, "events": [], "final": None, "kinds": [], "args_differ": None}
    try:
        with contextlib.redirect_stdout(io.StringIO()):
            run = RegRun(text, vals, imm, table, weak)
            out["valid"] = run.valid
            if not run.valid:
                return out
            for j, op in enumerate(script):
                for K, g in ext[j] if j < len(ext) else ():
                    run.do_register(K, g, None)
                run.events.append(("api", j, tuple(op)))
                run.call(tuple(op))
            for K, g in ext[len(script)] if len(ext) > len(script) else ():
                run.do_register(K, g, None)
        out["events"] = list(run.events)     # a copy: nothing that happens later belongs to this run
        out["runaway"] = run.runaway
        out["final"] = run.lists()
        out["open"] = [m for m, _ in run.stack]
        out["kinds"] = [(e[2], e[3]) for e in run.events if e[0] == "start"]
        first = {}
        for m, f, api in run.args:
            if m in first and first[m][1] is not api and out["args_differ"] is None:
                out["args_differ"] = (m, first[m][0], f)
            first.setdefault(m, (f, api))
    except Exception as e:  # noqa: BLE001
        out["exc"] = "%s: %s" % (type(e).__name__, traceback.format_exc(limit=8)[-1500:])
    return out


# --------------------------------------------------------------------------------------
# monitor: the property on the implementation's record alone
# --------------------------------------------------------------------------------------
def monitor(rec):
    if rec.get("runaway"):
        return ("notification %d (%s): more than %d invocations for one notification or dispatches nested deeper "
                "than %d (the loop keeps meeting functions that were accepted again)"
                % (rec["runaway"][0], rec["runaway"][1], RUNAWAY, MAX_DEPTH))
    acc = {K: [0] for K in KINDS}          # functions accepted per kind, in order (0: at construction)
    required, invoked, kind_of, ended = {}, {}, {}, set()
    for e in rec["events"]:
        if e[0] in ("reg", "out"):
            K, g, ret = e[-3], e[-2], e[-1]
            where = "from outside" if e[0] == "out" else "inside the invocation of function %d for notification %d" % (e[2], e[1])
            if not isinstance(ret, bool):
                return "register_callback (%s, function %d) returned %r" % (K, g, ret)
            if ret and g in acc[K]:
                return ("function %d was registered for %s %s and accepted (True) although it had been accepted "
                        "for that kind before" % (g, K, where))
            if not ret and g not in acc[K]:
                return "function %d was registered for %s %s and refused (False) although it was not registered" % (g, K, where)
            if ret:
                acc[K].append(g)
        elif e[0] == "start":
            m, K = e[1], e[2]
            required[m], invoked[m], kind_of[m] = list(acc[K]), [], K
        elif e[0] == "inv":
            m, K, g = e[1], e[2], e[3]
            if m not in invoked or m in ended:
                return "function %d was invoked (%s) outside the dispatch of a notification" % (g, K)
            if kind_of[m] != K:
                return "notification %d is %s, function %d was invoked as %s" % (m, kind_of[m], g, K)
            if g not in acc[K]:
                return "function %d was invoked for notification %d (%s) but never accepted for that kind" % (g, m, K)
            if g in invoked[m]:
                return "function %d was invoked twice for notification %d (%s)" % (g, m, K)
            invoked[m].append(g)
        elif e[0] == "end":
            m, K = e[1], e[2]
            if m not in invoked or m in ended:
                return "a log entry without a notification to function 0"
            ended.add(m)
            for g in required[m]:
                if invoked[m].count(g) != 1:
                    return ("function %d had been accepted for %s before notification %d started and was invoked "
                            "%d time(s) for it (invoked: %r)" % (g, K, m, invoked[m].count(g), invoked[m]))
            pos = [acc[K].index(g) for g in invoked[m]]
            if pos != sorted(pos):
                return "notification %d (%s): invoked %r, order of registration %r" % (m, K, invoked[m], acc[K])
    if rec.get("open") or set(invoked) - ended:
        return "dispatch of notification(s) %r never ended" % sorted(set(invoked) - ended)
    if rec["args_differ"]:
        m, f1, f2 = rec["args_differ"]
        return ("notification %d (%s): functions %d and %d received different argument objects"
                % (m, kind_of.get(m), f1, f2))
    for K in KINDS:
        if rec["final"][K] != acc[K]:
            return "callback list of %s ends as %r, the accepted registrations give %r" % (K, rec["final"][K], acc[K])
    return None


# --------------------------------------------------------------------------------------
# the model
# --------------------------------------------------------------------------------------
def coq_regs(regs):
    return "[%s]" % "; ".join("(%s, %d)" % (K, g) for K, g in regs)


def forest_of(kinds):
    """preorder list of (kind, depth) -> nested [(kind, children)]"""
    root = []
    path = [root]
    for K, d in kinds:
        d = min(d, len(path) - 1)
        del path[d + 1:]
        node = (K, [])
        path[d].append(node)
        path.append(node[1])
    return root


def coq_node(nd):
    return "Notif %s [%s]" % (nd[0], "; ".join(coq_node(c) for c in nd[1]))


def steps_of(events):
    """the scenario as the model sees it, read off the implementation's own record: registrations
    from outside and the top-level notifications with what was dispatched nested in them"""
    steps, kinds = [], []

    def flush():
        for nd in forest_of(kinds):
            steps.append("Top (%s)" % coq_node(nd))
        del kinds[:]
    for e in events:
        if e[0] == "out":
            flush()
            steps.append("Out %s %d" % (e[1], e[2]))
        elif e[0] == "start":
            if e[3] == 0:
                flush()
            kinds.append((e[2], e[3]))
    flush()
    return steps


def coq_scenario(k, events, table):
    tab = "; ".join("((%d, %d), %s)" % (f, n, coq_regs(regs)) for (f, n), regs in sorted(table.items()))
    defs = ("Definition t%d : list (nat * nat * list (kind * nat)) := [%s].\nDefinition s%d : list step := [%s].\n"
            % (k, tab, k, "; ".join(steps_of(events))))
    return defs, "run_coded %d t%d s%d ([0], [0], [0], [0])" % (FUEL, k, k)


def impl_coded(events):
    out = []
    for e in events:
        if e[0] == "inv":
            out.append([0, e[1], KCODE[e[2]], e[3]])
        elif e[0] == "reg":
            out.append([1, e[1], e[2], KCODE[e[3]], e[4], int(bool(e[5]))])
        elif e[0] == "out":
            out.append([2, KCODE[e[1]], e[2], int(bool(e[3]))])
        elif e[0] == "end":
            out.append([3, e[1], KCODE[e[2]]] + list(e[3]))
    return out


def show(c):
    if c is None:
        return "(nothing)"
    K = lambda i: KINDS[i] if 0 <= i < 4 else "?"  # noqa: E731
    if c[0] == 0:
        return "function %d invoked for notification %d (%s)" % (c[3], c[1], K(c[2]))
    if c[0] == 1:
        return "inside function %d's invocation for notification %d: register %s %d -> %s" % (c[2], c[1], K(c[3]), c[4], bool(c[5]))
    if c[0] == 2:
        return "from outside: register %s %d -> %s" % (K(c[1]), c[2], bool(c[3]))
    return "end of notification %d (%s), list %r" % (c[1], K(c[2]), c[3:])


def ensure_runtime():
    vo = os.path.join(common.COQ, "RegDispatch.vo")
    src = os.path.join(common.COQ, "RegDispatch.v")
    if os.path.exists(vo) and os.path.getmtime(vo) >= os.path.getmtime(src):
        return
    os.makedirs(os.path.join(common.VERIF, "work"), exist_ok=True)
    with open(os.path.join(common.VERIF, "work", ".build.lock"), "w") as lock:
        fcntl.flock(lock, fcntl.LOCK_EX)
        try:
            p = subprocess.run(["make", "RegDispatch.vo"], cwd=common.COQ, capture_output=True, text=True, timeout=600)
            if p.returncode != 0 or not os.path.exists(vo):
                p = subprocess.run(["coqc", "-Q", ".", "PFDL", "RegDispatch.v"], cwd=common.COQ,
                                   capture_output=True, text=True, timeout=600)
                if p.returncode != 0:
                    raise RuntimeError("cannot build RegDispatch.vo:\n" + p.stderr[-2000:])
        finally:
            fcntl.flock(lock, fcntl.LOCK_UN)


def model_eval(scens, workdir, tag="reg"):
    """scens: [(events, table)] -> [None (fuel) | (coded events, number of notifications, final lists)]"""
    ensure_runtime()
    items = [coq_scenario(k, ev, tab) for k, (ev, tab) in enumerate(scens)]
    raw = coqeval.eval_many(items, workdir, shard=40, jobs=16, header=HEADER, tag=tag)
    out = []
    for r in raw:
        t = coqeval.parse_result(r)
        if t == "None":
            out.append(None)
            continue
        if not t.startswith("Some "):
            raise RuntimeError("unparsable model result: " + t[:300])
        try:
            ev, n, fin = ast.literal_eval(t[5:].replace(";", ","))
        except (ValueError, SyntaxError):
            raise RuntimeError("unparsable model result: " + t[:300])
        out.append(([list(x) for x in ev], n, dict(zip(KINDS, [list(x) for x in fin]))))
    return out


def compare(rec, model):
    if model is None:
        return "machinery: the model ran out of fuel"
    mev, mn, mfin = model
    iev = impl_coded(rec["events"])
    for k in range(max(len(iev), len(mev))):
        a = iev[k] if k < len(iev) else None
        b = mev[k] if k < len(mev) else None
        if a != b:
            return "event %d: implementation: %s; model (run_steps): %s" % (k, show(a), show(b))
    if rec["final"] != mfin:
        return "callback lists at the end %r, model %r" % (rec["final"], mfin)
    return None


def usable(rec):
    """whether the record is given to the model at all"""
    return not rec["exc"] and not rec.get("runaway")


def judge_one(rec, model):
    if rec["exc"]:
        return "exception " + rec["exc"], ["exception"]
    if rec.get("runaway"):
        return "monitor: " + monitor(rec), ["python_monitor"]
    whys, judges = [], []
    why = monitor(rec)
    if why:
        whys.append("monitor: " + why)
        judges.append("python_monitor")
    why = compare(rec, model)
    if why:
        whys.append("model: " + why)
        judges.append("model_run_steps")
    return ("; ".join(whys), judges) if whys else (None, [])


# --------------------------------------------------------------------------------------
# generation
# --------------------------------------------------------------------------------------
def gen_scenario(rng, kinds, ncalls):
    """kinds: kind of every notification, in order.  -> ext (per API call + trailing), table, weak"""
    weak = [g for g in range(1, POOL + 1) if rng.random() < 0.3]
    present = {K: [0] for K in KINDS}      # approximate (ignores the exact moment of acceptance)
    ext = [[] for _ in range(ncalls + 1)]
    for K in KINDS:
        for g in rng.sample(range(1, POOL + 1), rng.choice([0, 1, 1, 2])):
            ext[0].append((K, g))
            present[K].append(g)
    rng.shuffle(ext[0])
    if ext[0] and rng.random() < 0.3:
        ext[0].append(rng.choice(ext[0]))              # repeated registration from outside
    for j in range(1, ncalls + 1):
        if rng.random() < 0.2:
            K = rng.choice(KINDS)
            g = rng.randint(1, POOL)
            ext[j].append((K, g))
            if g not in present[K]:
                present[K].append(g)
    table = {}
    p = rng.choice([0.2, 0.4, 0.6])

    def target(K_now):
        K = K_now if rng.random() < 0.45 else rng.choice(KINDS)
        fresh = [g for g in range(1, POOL + 1) if g not in present[K]]
        if fresh and rng.random() < 0.65:
            return K, rng.choice(fresh)
        return K, rng.choice(present[K])

    for n, K_now in enumerate(kinds):
        if rng.random() >= p:
            continue
        fs = list(present[K_now])
        shape = rng.random()
        if shape < 0.2 and len(fs) >= 2:
            # the same function from two callbacks of one dispatch
            f1, f2 = rng.sample(fs, 2)
            K, g = target(K_now)
            table.setdefault((f1, n), []).append((K, g))
            table.setdefault((f2, n), []).append((K, g))
            regs = [(K, g)]
        elif shape < 0.3:
            f = rng.choice(fs)
            K, g = target(K_now)
            regs = [(K, g), (K, g)]                    # twice in one callback
            table.setdefault((f, n), []).extend(regs)
        else:
            f = 0 if rng.random() < 0.35 else rng.choice(fs)
            regs = [target(K_now) for _ in range(rng.choice([1, 1, 2, 3]))]
            table.setdefault((f, n), []).extend(regs)
        for K, g in regs:
            if g not in present[K]:
                present[K].append(g)
    return ext, table, weak


def classify(rec, stats):
    depth = {}
    for e in rec["events"]:
        if e[0] == "start":
            depth[e[1]] = e[3]
            if e[3] > 0:
                stats["reg_nested_notifications"] += 1
        elif e[0] == "out":
            stats["reg:outside_" + ("accepted" if e[3] else "refused")] += 1
        elif e[0] == "reg":
            m, f, K, g, ret = e[1:]
            kind_now = next((x[2] for x in rec["events"] if x[0] == "start" and x[1] == m), None)
            stats["reg:%s_%s" % ("same_kind" if K == kind_now else "other_kind", "accepted" if ret else "refused")] += 1
            if f == 0:
                stats["reg:by_the_engine"] += 1
            if depth.get(m, 0) > 0:
                stats["reg:inside_a_nested_notification"] += 1


def payload_of(pid, text, vals, imm, script, ext, table, weak, why, judges, rec):
    return {"property": pid, "kind": "reg", "program_text": text, "vals": vals, "imm": list(imm),
            "script": [tuple(op) for op in script], "ext": [[tuple(a) for a in x] for x in ext],
            "table": [(f, n, [tuple(a) for a in regs]) for (f, n), regs in sorted(table.items())],
            "weak": list(weak), "why": why, "failed": judges,
            "impl_record": [e for e in (rec or {}).get("events", []) if e[0] != "api"][:400],
            "impl_final_lists": (rec or {}).get("final")}


def slice_reg(pid, cfg, tier, seed, workdir, rep, stats, findings):
    n = cfg.get("reg_" + tier, SIZES[tier])
    cases = []
    for i in range(n):
        rng = random.Random("%d/%s/reg/%d" % (seed, pid, i))
        prof = gen_run.Profile(**PROGRAM_PROFILES[i % len(PROGRAM_PROFILES)])
        case = gen_run.gen_case(rng, prof)
        dry = run_cases.drive(case, rng, prof, test_ids=True)
        stats["generated"] += 1
        stats["reg_generated"] += 1
        if dry["exc"] is not None or not dry["valid"] or dry.get("stalled"):
            stats["reg_dry_run_unusable"] += 1
            continue
        script = dry["script"]
        kinds = [e[2] for r in dry["trace"] for e in r["log"] if e[0] == "notif" and e[1] == 0]
        ext, table, weak = gen_scenario(rng, kinds, len(script))
        rec = run_impl(dry["text"], case["vals"], case["imm"], script, ext, table, weak)
        if rec["exc"] is None and (not rec["valid"] or [k for k, _ in rec["kinds"]] != kinds):
            why = monitor(rec) if rec["valid"] else None
            rep.violation(payload_of(pid, dry["text"], case["vals"], case["imm"], script, ext, table, weak,
                                     ("monitor: " + why + "; " if why else "") +
                                     "function 0 saw other notifications (%d) than in the run with function 0 alone (%d)"
                                     % (len(rec["kinds"]), len(kinds)),
                                     ["python_monitor"] if why else ["functions_change_the_run"], rec))
            continue
        cases.append((dry["text"], case["vals"], case["imm"], script, ext, table, weak, rec))
    models = model_eval([(c[7]["events"], c[5]) for c in cases if usable(c[7])], workdir)
    models = iter(models)
    samples = []
    for text, vals, imm, script, ext, table, weak, rec in cases:
        model = next(models) if usable(rec) else None
        stats["compared"] += 1
        stats["reg_compared"] += 1
        why, judges = judge_one(rec, model)
        if why:
            rep.violation(payload_of(pid, text, vals, imm, script, ext, table, weak, why, judges, rec))
            continue
        stats["agree"] += 1
        stats["reg_agree"] += 1
        classify(rec, stats)
        stats["reg_notifications"] += len(rec["kinds"])
        stats["reg_invocations"] += sum(1 for e in rec["events"] if e[0] == "inv")
        if any(g in weak for K in KINDS for g in rec["final"][K]):
            stats["reg_with_function_alive_through_the_scheduler_only"] += 1
        key = (text, tuple(map(tuple, script)), tuple(sorted((k, tuple(v)) for k, v in table.items())),
               tuple(tuple(x) for x in ext), tuple(imm[:20]))
        stats.setdefault("_distinct", set()).add(key)
        if len(samples) < 2 and len(table) >= 2 and any(d > 0 for _, d in rec["kinds"]):
            samples.append({"kind": "reg", "program": text, "script": script, "outside": ext,
                            "reactions": {"%d@%d" % k: v for k, v in sorted(table.items())},
                            "notifications (kind, depth)": rec["kinds"], "final_lists": rec["final"]})
    return samples


def replay_reg(pid, cfg, payload, workdir):
    table = {(int(f), int(n)): [tuple(a) for a in regs] for f, n, regs in payload["table"]}
    ext = [[tuple(a) for a in x] for x in payload["ext"]]
    script = [tuple(op) for op in payload["script"]]
    rec = run_impl(payload["program_text"], payload["vals"], list(payload.get("imm") or []), script, ext, table,
                   payload.get("weak") or [])
    if rec["exc"]:
        return {"fails": True, "why": "exception " + rec["exc"]}
    if not rec["valid"]:
        return {"fails": True, "why": "program rejected by the validator"}
    model = model_eval([(rec["events"], table)], workdir, tag="reg_replay")[0] if usable(rec) else None
    why, judges = judge_one(rec, model)
    return {"fails": bool(why), "why": why if why else
            "agrees with RegDispatch.run_steps (%d notifications) and the monitor accepts" % len(rec["kinds"])}


KIND = {"reg": {"slice": slice_reg, "replay": replay_reg,
                "rule": "functions registered from inside callbacks: generated valid programs, completion orders and (for "
                        "half of the cases) immediate completions from inside service_started, so that the rest of the "
                        "order is dispatched nested; function 0 plus 0-2 functions per kind registered before start(), "
                        "a random table (function, notification number) -> register_callback calls made inside that "
                        "invocation (a new function, a registered one, the same new one from two callbacks of one "
                        "dispatch or twice in one callback, for the kind being dispatched and for others; the engine's "
                        "registrations precede its immediate completion), registrations from outside between API calls, "
                        "some functions kept alive by the scheduler's list only; the real Scheduler's record (invocations "
                        "with argument objects, return values, list at the end of every dispatch, final lists) is compared "
                        "with RegDispatch.run_steps evaluated in coqc and judged by a monitor that does not use the model; "
                        "non-trivial = both agree; distinct = distinct (program, script, table, outside calls, immediate bits)"}}
