"""Drive the real pfdl_scheduler.Scheduler (imported from the current /repo working
tree) with a scripted execution engine and record a canonical trace."""
import contextlib
import io
import json
import os
import re
import signal
import threading
import zlib
import sys
from fractions import Fraction

REPO = os.environ.get("PFDL_REPO", "/repo")
if REPO not in sys.path:
    sys.path.insert(0, REPO)

from pfdl_scheduler.scheduler import Scheduler  # noqa: E402
from pfdl_scheduler.scheduling.event import Event  # noqa: E402
from pfdl_scheduler.model.struct import Struct  # noqa: E402
from pfdl_scheduler.model.array import Array  # noqa: E402
from pfdl_scheduler.model.service import Service  # noqa: E402
from pfdl_scheduler.model.task_call import TaskCall  # noqa: E402
from pfdl_scheduler.model.parallel import Parallel  # noqa: E402
from pfdl_scheduler.model.while_loop import WhileLoop  # noqa: E402
from pfdl_scheduler.model.counting_loop import CountingLoop  # noqa: E402
from pfdl_scheduler.model.condition import Condition  # noqa: E402
from pfdl_scheduler.api.observer_api import NotificationType, Observer  # noqa: E402


def to_py_value(v, as_float=False):
    """harness value -> what an execution engine would hand to the scheduler; as_float: whole
    numbers are delivered as floats (2.0, e.g. a JSON-decoded service result) instead of ints"""
    if isinstance(v, bool):
        return v
    if isinstance(v, int):
        return float(v) if as_float and abs(v) < 2 ** 53 else v
    if isinstance(v, Fraction):
        return (float(v) if as_float and abs(v) < 2 ** 53 else int(v)) if v.denominator == 1 else float(v)
    if isinstance(v, tuple):
        return v[1]
    return Struct(attributes={k: to_py_value(x, as_float) for k, x in v.items()})


def parse_pelem(text):
    if text.startswith("[") and text.endswith("]"):
        inner = text[1:-1]
        if inner == "":
            return ("in",)
        if inner.isdigit():
            return ("il", int(inner))
        return ("iv", inner)
    return ("f", text)


def struct_to_json(s):
    def conv(v):
        if isinstance(v, bool):
            return ("bool", v)
        if isinstance(v, (int, float)):
            return ("num", Fraction(v))
        if isinstance(v, str):
            return ("str", v)
        if isinstance(v, Array):
            return ("arr", [conv(x) for x in v.values])
        if isinstance(v, Struct):
            return ("obj", [(k, conv(x)) for k, x in v.attributes.items()])
        return ("str", "<?" + type(v).__name__ + ">")
    return conv(s)


def canon_params(ps):
    out = []
    for p in ps:
        if isinstance(p, str):
            out.append(("var", p))
        elif isinstance(p, list):
            out.append(("path", p[0], [parse_pelem(x) for x in p[1:]]))
        elif isinstance(p, Struct):
            out.append(("lit", p.name, struct_to_json(p)))
        else:
            out.append(("var", "<?" + type(p).__name__ + ">"))
    return out


def site_map(process):
    """id(statement object) -> (task name, index path) for services, task calls and loops"""
    m = {}

    def walk(ss, tname, prefix):
        for i, s in enumerate(ss):
            path = prefix + [i]
            if isinstance(s, (Service, TaskCall)):
                m[id(s)] = (tname, tuple(path))
            elif isinstance(s, Parallel):
                for j, c in enumerate(s.task_calls):
                    m[id(c)] = (tname, tuple(path + [j]))
            elif isinstance(s, CountingLoop):
                m[id(s)] = (tname, tuple(path))
                if s.parallel:
                    for j, c in enumerate(s.statements):
                        m[id(c)] = (tname, tuple(path + [j]))
                else:
                    walk(s.statements, tname, path)
            elif isinstance(s, WhileLoop):
                walk(s.statements, tname, path)
            elif isinstance(s, Condition):
                walk(s.passed_stmts, tname, path + [0])
                walk(s.failed_stmts, tname, path + [1])

    for t in process.tasks.values():
        walk(t.statements, t.name, [])
    return m


LOG_RE = re.compile(r"^(Task|Service) (.*) with UUID '(.*)' (started|finished)\.$")


CALL_TIMEOUT = 30.0      # seconds per API call (a normal call takes milliseconds)


class CallTimeout(Exception):
    pass


def _on_alarm(signum, frame):
    raise CallTimeout("the call did not return within %.0f s" % CALL_TIMEOUT)


class RecObserver(Observer):
    """records LOG_EVENT entries (parsed) and counts PETRI_NET notices"""

    def __init__(self, tag, run):
        self.tag = tag
        self.run = run

    def update(self, notification_type, data):
        run = self.run
        if notification_type == NotificationType.LOG_EVENT:
            m = LOG_RE.match(data[0])
            if not m:
                run.entries.append(("obs_raw", self.tag, data[0]))
                return
            ent, name, uuid, what = m.groups()
            kind = ("T" if ent == "Task" else "S") + ("S" if what == "started" else "F")
            run.entries.append(("obs", self.tag, kind, name,
                                run.cid("t" if ent == "Task" else "s", uuid), bool(data[2])))
        elif notification_type == NotificationType.PETRI_NET:
            run.net_notices.append((self.tag, data))
        else:
            run.entries.append(("obs_raw", self.tag, str(notification_type)))


class Listener:
    """a registered callback object; bound methods of one Listener compare equal, so
    registering the same listener twice exercises the 'already registered' path with an
    equal-but-not-identical callable"""

    def __init__(self, lid, run):
        self.lid = lid
        self.run = run

    # what a callback returns is of no concern to the scheduler: return False / 0 / None in turn
    def _ret(self):
        self.run.nret += 1
        return (False, 0, None)[self.run.nret % 3]

    def on_ts(self, t):
        self.run.on_ts(self.lid, t)
        return self._ret()

    def on_tf(self, t):
        self.run.on_tf(self.lid, t)
        return self._ret()

    def on_ss(self, a):
        self.run.on_ss(self.lid, a)
        return self._ret()

    def on_sf(self, a):
        self.run.on_sf(self.lid, a)
        return self._ret()


class ImplRun:
    """One scheduler instance + recording execution engine.

    vals     : list of valuations (dict var -> harness value, '*' = any variable); the k-th
               call of variable_access_function is answered from vals[min(k, len-1)]
    imm      : list of bools; the k-th service start is completed from inside its
               service-started notification when imm[k]
    mutate   : hostile EE: mutate every delivered parameter list after recording it
    """

    def __init__(self, text, vals, imm, test_ids=True, mutate=False, listeners=1,
                 draw=False, scheduler_uuid="", react=None, react_all=False):
        self.vals = vals
        self.imm = imm
        # react[k] = j: inside the k-th notification delivered to function 0 the engine reports
        # the j-th (mod the number of) pending services as finished (a completion of ANOTHER
        # service sent re-entrantly from inside a callback)
        self.react = react or []
        self.react_all = react_all   # react also inside finished notifications
        self.ncalls = 0
        self.nret = 0
        self.pending = []          # canonical ids announced to function 0 and not yet finished
        self.nnot = 0
        self.mutate = mutate
        self.entries = []          # entries of the current call
        self.ids = {"t": {}, "s": {}}
        self.uuid_of_sid = {}
        self.test_ids = test_ids
        self.nq = 0
        self.nss = 0
        self.stdout = ""
        self.reentrant_results = []
        self.net_notices = []
        self.listeners = {}
        self.observers = {}
        if not scheduler_uuid and not draw and zlib.crc32(text.encode()) % 5 == 3:
            scheduler_uuid = "order 17/Charge-\u00e4\u00f6:%d" % (zlib.crc32(text.encode()) % 97)
        buf = io.StringIO()
        with contextlib.redirect_stdout(buf):
            self.s = Scheduler(text, test_ids, draw, scheduler_uuid)
        self.stdout = buf.getvalue()
        self.valid = self.s.pfdl_file_valid
        if not self.valid:
            return
        self.sites = site_map(self.s.process)
        s = self.s
        for kind in ("TS", "TF", "SS", "SF"):
            self.register(kind, 0)
        # the access function is replaced by a fresh wrapper before every later API call of
        # about half of the cases (decided by the program text, so that a case replays): the
        # scheduler has to ask the function registered LAST ("the values the engine holds at
        # that moment"); a query that arrives through an older wrapper is recorded in self.stale
        self.oracle_gen = 0
        self.stale = []
        self.reoracle = zlib.crc32(text.encode()) % 2 == 0
        self.dup_in_sf = zlib.crc32(text.encode()) % 3 == 1
        self.dup_results = []
        # in a third of the cases the engine delivers whole numbers as floats (2.0 for 2)
        self.float_ints = zlib.crc32(text.encode()) % 3 == 2
        self._register_oracle()

    # -- identifiers -----------------------------------------------------
    def cid(self, kind, uuid):
        if self.test_ids:
            try:
                n = int(uuid)
            except ValueError:
                n = 900 + len(self.ids[kind])      # a uuid4 leaked in test-id mode
                n = self.ids[kind].setdefault(uuid, n)
            if kind == "s":
                self.uuid_of_sid[n] = uuid
            return n
        tab = self.ids[kind]
        if uuid not in tab:
            tab[uuid] = len(tab)
        if kind == "s":
            self.uuid_of_sid[tab[uuid]] = uuid
        return tab[uuid]

    # -- callbacks -------------------------------------------------------
    def register(self, kind, lid):
        lst = self.listeners.setdefault(lid, Listener(lid, self))
        s = self.s
        if kind == "TS":
            return s.register_callback_task_started(lst.on_ts)
        if kind == "TF":
            return s.register_callback_task_finished(lst.on_tf)
        if kind == "SS":
            return s.register_callback_service_started(lst.on_ss)
        return s.register_callback_service_finished(lst.on_sf)

    def _task_entry(self, kind, lid, t):
        ctx = t.task_context
        site = self.sites.get(id(t.task_call), ("productionTask", ())) if t.task_call else ("productionTask", ())
        return ("notif", lid, kind, t.task.name, site, self.cid("t", t.uuid),
                None if ctx is None else self.cid("t", ctx.uuid),
                canon_params(t.input_parameters), bool(self.s.running))

    def _svc_entry(self, kind, lid, a):
        site = self.sites.get(id(a.service), ("?", ()))
        return ("notif", lid, kind, a.service.name, site, self.cid("s", a.uuid),
                self.cid("t", a.task_context.uuid), canon_params(a.input_parameters),
                bool(self.s.running))

    def _hostile(self, api):
        """hostile EE: damage the list it was handed (after recording it)"""
        if not self.mutate:
            return
        lst = api.input_parameters
        how = self.mutate if isinstance(self.mutate, str) else "append"
        for p in lst:
            if isinstance(p, list):
                p.append("mutated")
            elif isinstance(p, Struct):
                # also what hangs below the struct: the value lists of its arrays and its nested
                # structs (what was delivered is a copy all the way down, or this leaks)
                def damage(st):
                    for v in list(st.attributes.values()):
                        if isinstance(v, Array):
                            for x in v.values:
                                if isinstance(x, Struct):
                                    damage(x)
                            v.values[:] = [0]
                        elif isinstance(v, Struct):
                            damage(v)
                            v.attributes["mutated"] = 1
                damage(p)
                p.attributes["mutated"] = 1
                p.name = "Mutated"
        if how == "clear":
            lst.clear()
        elif how == "append":
            lst.append("mutated")
        elif how == "replace":
            for i in range(len(lst)):
                lst[i] = "mutated"

    def _react(self, kind):
        k = self.nnot
        self.nnot += 1
        if not (self.react_all or kind in ("TS", "SS")):
            return
        if k < len(self.react) and self.react[k] is not None and self.pending:
            sid = self.pending[self.react[k] % len(self.pending)]
            self.entries.append(("fire_in", sid))
            with contextlib.redirect_stdout(io.StringIO()):
                r = self.s.fire_event(Event("service_finished", {"service_uuid": self.uuid_of_sid[sid]}))
            self.entries.append(("fire_out", sid, bool(r)))

    def on_ts(self, lid, t):
        self.entries.append(self._task_entry("TS", lid, t))
        if lid == 0:
            self._hostile(t)
            self._react("TS")

    def on_tf(self, lid, t):
        self.entries.append(self._task_entry("TF", lid, t))
        if lid == 0:
            self._react("TF")

    def on_ss(self, lid, a):
        e = self._svc_entry("SS", lid, a)
        self.entries.append(e)
        if lid != 0:
            return
        self.pending.append(e[5])
        self._hostile(a)
        k = self.nss
        self.nss += 1
        if k < len(self.imm) and self.imm[k]:
            with contextlib.redirect_stdout(io.StringIO()):
                r = self.s.fire_event(Event("service_finished", {"service_uuid": a.uuid}))
            self.reentrant_results.append(r)
        self._react("SS")

    def on_sf(self, lid, a):
        e = self._svc_entry("SF", lid, a)
        self.entries.append(e)
        if lid == 0:
            if e[5] in self.pending:
                self.pending.remove(e[5])
            if self.dup_in_sf:
                # the completion that is being delivered right now, reported once more from inside
                # its own service-finished notification: it must be refused.  A refused event
                # changes nothing (C08), so the rest of the trace stays comparable with the models;
                # the answer is kept aside and judged by pymon.reentrant_duplicates_refused
                with contextlib.redirect_stdout(io.StringIO()):
                    r = self.s.fire_event(Event("service_finished", {"service_uuid": a.uuid}))
                self.dup_results.append((e[5], bool(r)))
            self._react("SF")

    def _register_oracle(self):
        gen = self.oracle_gen

        def access(name, ctx=None, gen=gen):        # "name only" is not how the scheduler may call it
            if gen != self.oracle_gen:
                self.stale.append((gen, self.oracle_gen, name))
            return self.var(name, ctx)
        self.s.register_variable_access_function(access)

    def var(self, name, ctx):
        self.entries.append(("query", name, self.cid("t", ctx.uuid)))
        k = min(self.nq, len(self.vals) - 1)
        self.nq += 1
        v = self.vals[k]
        x = v.get(name, v.get("*"))
        return to_py_value(x, self.float_ints)

    # -- API calls -------------------------------------------------------
    def snapshot(self, ret):
        s = self.s
        aw = []
        other = 0
        for ev in s.awaited_events:
            if ev.event_type == "service_finished":
                aw.append(self.cid("s", ev.data["service_uuid"]))
            else:
                other += 1
        g = s.petri_net_generator
        marking = s.petri_net_logic.petri_net.get_marking()
        final = (len(marking) == 1 and g.task_finished_uuid in marking
                 and list(marking[g.task_finished_uuid]) == [1])
        rec = {"ret": bool(ret), "log": self.entries, "running": bool(s.running),
               "awaited": aw, "awaited_other": other, "final": final,
               "tokens": sum(len(marking[p]) for p in marking),
               "net_notices": self.net_notices}
        self.entries = []
        self.net_notices = []
        return rec

    def call(self, op):
        """op: ('start',) | ('finish', canonical service id) | ('junk', kind)
        | ('register', kind, lid) | ('attach', o) | ('detach', o).
        A call that does not return within CALL_TIMEOUT seconds raises CallTimeout (a scheduler
        that spins for ever is a failing input like any other, not a check that never ends)."""
        use_alarm = threading.current_thread() is threading.main_thread()
        if use_alarm:
            old = signal.signal(signal.SIGALRM, _on_alarm)
            signal.setitimer(signal.ITIMER_REAL, CALL_TIMEOUT)
        try:
            with contextlib.redirect_stdout(io.StringIO()):
                return self._call(op)
        finally:
            if use_alarm:
                signal.setitimer(signal.ITIMER_REAL, 0)
                signal.signal(signal.SIGALRM, old)

    def _call(self, op):
        if self.reoracle and self.ncalls > 0:
            self.oracle_gen += 1
            self._register_oracle()
        self.ncalls += 1
        if op[0] == "start":
            r = self.s.start()
        elif op[0] == "register":
            r = self.register(op[1], op[2])
        elif op[0] == "attach":
            ob = self.observers.setdefault(op[1], RecObserver(op[1], self))
            self.s.attach(ob)
            r = True
        elif op[0] == "detach":
            ob = self.observers.setdefault(op[1], RecObserver(op[1], self))
            self.s.detach(ob)
            r = True
        elif op[0] == "finish":
            # an identifier that has not been announced (yet): in test-id mode the numeral itself, which
            # may well be announced later - a refused event must not be remembered
            uuid = self.uuid_of_sid.get(op[1], str(op[1]) if self.test_ids else "no-such-service-%d" % op[1])
            if self.ncalls % 3 == 0:
                # as it arrives from a message bus: all strings are fresh objects
                ev = Event.from_json(json.dumps({"event_type": "service_finished", "data": {"service_uuid": uuid}}))
            else:
                ev = Event("service_finished", {"service_uuid": uuid})
            r = self.s.fire_event(ev)
        elif op[0] == "junk":
            r = self.s.fire_event(make_junk(op[1], self))
        else:
            raise ValueError(op)
        return self.snapshot(r)


def make_junk(kind, run):
    if kind == "empty":
        return Event()
    if kind == "unknown_type":
        return Event("no_such_type", {"service_uuid": "x"})
    if kind == "set_place_bogus":
        return Event("loc_started", {"place_uuid": "not-a-place"})
    if kind == "finish_no_data":
        return Event("service_finished", {})
    if kind == "finish_none_data":
        return Event("service_finished", None)
    if kind == "finish_wrong_key":
        return Event("service_finished", {"uuid": "0"})
    if kind == "from_json_unknown":
        return Event.from_json('{"event_type": "service_finished", "data": {"service_uuid": "zzz"}}')
    if kind == "start_event":
        return Event("start_production_task", {})
    if kind == "set_place_real":
        # an internal place-marking event naming a place that exists
        net = run.s.petri_net_generator.net
        return Event("loc_started", {"place_uuid": next(iter(net._place.keys()))})
    raise ValueError(kind)


JUNK_KINDS = ["empty", "unknown_type", "set_place_bogus", "finish_no_data", "finish_none_data",
              "finish_wrong_key", "from_json_unknown", "start_event", "set_place_real"]


def net_signature(run, I):
    """canonical signature of the generated net of a (not yet started) scheduler; the same
    shape as PFDL.NetRun.net_sig_of, with names interned by I"""
    g = run.s.petri_net_generator
    net = g.net
    pidx = {u: k for k, u in enumerate(net._place.keys())}
    tidx = {u: k for k, u in enumerate(net._trans.keys())}

    def api_sig(api):
        if hasattr(api, "service"):
            name, site = api.service.name, run.sites.get(id(api.service), ("?", ()))
        elif api.task_call is not None:
            name, site = api.task.name, run.sites.get(id(api.task_call), ("?", ()))
        else:
            name, site = api.task.name, ("productionTask", ())
        return [I(name), I(site[0])] + list(site[1])

    def cb_sig(cb):
        fn, a = cb.func.__name__, cb.args
        if fn == "on_task_started":
            return [0] + api_sig(a[0])
        if fn == "on_task_finished":
            return [1] + api_sig(a[0])
        if fn == "on_service_started":
            return [2] + api_sig(a[0])
        if fn == "on_service_finished":
            return [3] + api_sig(a[0])
        if fn == "on_condition_started":
            return [4, pidx[a[1]], pidx[a[2]]] + api_sig(a[3])
        if fn == "on_while_loop_started":
            return [5, pidx[a[1]], pidx[a[2]]] + api_sig(a[3])
        if fn == "on_counting_loop_started":
            site = run.sites.get(id(a[0]), ("?", ()))
            return [6, pidx[a[1]], pidx[a[2]], I(site[0])] + list(site[1])
        if fn == "on_parallel_loop_started":
            return [7, I(a[0].counting_variable), pidx[a[3]], tidx[a[4]], tidx[a[5]], I(a[2].name)]
        return [99]

    trans = []
    for u in net._trans.keys():
        t = net.transition(u)
        pre = sorted(pidx[p.name] for p, _ in t.input())
        post = sorted(pidx[p.name] for p, _ in t.output())
        trans.append((pre, post, [cb_sig(c) for c in g.transition_dict.get(u, [])]))
    return (len(pidx), pidx[g.task_started_uuid], pidx[g.task_finished_uuid], trans)
