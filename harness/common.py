"""Shared plumbing of the checks: paths, build of the Coq development, assumption
audit, evidence and replay files, known findings."""
import fcntl
import hashlib
import json
import os
import re
import subprocess
import sys
import time
from fractions import Fraction

VERIF = os.path.dirname(os.path.dirname(os.path.abspath(__file__)))
COQ = os.path.join(VERIF, "coq")
REPO = os.environ.get("PFDL_REPO", "/repo")
PY = sys.executable

FORBIDDEN = re.compile(r"\b(Admitted|admit|Axiom|Axioms|Parameter|Parameters|Conjecture|Conjectures|"
                       r"Unset Guard Checking|Unset Positivity Checking|Unset Universe Checking|"
                       r"bypass_check|Admit Obligations|type-in-type|impredicative-set)\b")
# section-local assumptions are discharged when the section closes; outside a section they are axioms
SECTION_ONLY = re.compile(r"^\s*(?:Local\s+|Global\s+|#\[[^\]]*\]\s*)?(Hypothesis|Hypotheses|Variable|Variables|Context)\b")

# axioms of the standard library that a theorem may depend on (named in DESIGN.md §7);
# at present no theorem needs any
ALLOWED_AXIOMS = set()


def tier():
    t = os.environ.get("VERIF_TIER", "quick")
    return t if t in ("quick", "thorough") else "quick"


def seed():
    try:
        return int(os.environ.get("VERIF_SEED", "20260926"))
    except ValueError:
        return 20260926


class BuildError(Exception):
    pass


def sh(cmd, cwd=None, timeout=1800):
    p = subprocess.run(cmd, cwd=cwd, capture_output=True, text=True, timeout=timeout)
    return p.returncode, p.stdout, p.stderr


def build(targets=None, runtime=None):
    """Regenerate coq/Gen from the implementation's working tree, then build (full .vo
    compilation, never -vos): first the model files the correspondence evaluates (`runtime`),
    then the property's theorem file and its obligations (`targets`); with targets=None the
    whole development.  Serialised by a file lock: checks may be started concurrently.
    A failure of the second step is reported through BuildError but leaves the runtime usable,
    so the search for a failing input can still run."""
    os.makedirs(os.path.join(VERIF, "work"), exist_ok=True)
    lock = open(os.path.join(VERIF, "work", ".build.lock"), "w")
    fcntl.flock(lock, fcntl.LOCK_EX)
    t0 = time.time()
    info = {"gen": None, "make_s": None}
    try:
        rc, out, err = sh([PY, os.path.join(VERIF, "tools", "gen_tables.py")], cwd=VERIF, timeout=300)
        info["gen"] = {"rc": rc, "out": out[-2000:], "err": err[-2000:]}
        if rc != 0:
            raise BuildError("translator crashed:\n" + out[-1500:] + err[-1500:])
        if not os.path.exists(os.path.join(COQ, "Makefile")):
            rc, out, err = sh(["coq_makefile", "-f", "_CoqProject", "-o", "Makefile"], cwd=COQ)
            if rc != 0:
                raise BuildError("coq_makefile failed: " + err)
        steps = [list(runtime)] if runtime else []
        steps.append(list(targets) if targets else [])
        for k, tg in enumerate(steps):
            rc, out, err = sh(["timeout", "2400", "make", "-k", "-j16"] + tg, cwd=COQ, timeout=2500)
            info["make_s"] = round(time.time() - t0, 1)
            if rc != 0:
                m = re.search(r'File "\./([^"]+)", line (\d+)', err)
                info["failed_file"] = m.group(1) if m else None
                info["runtime_ok"] = bool(runtime) and k > 0
                raise BuildError("make %s failed:\n%s" % (" ".join(tg), err[-3000:]))
        return info
    except BuildError as e:
        e.info = info
        raise
    finally:
        fcntl.flock(lock, fcntl.LOCK_UN)
        lock.close()


def audit_sources():
    """no Admitted / admit / Axiom / Parameter / ... anywhere in the development; Variable /
    Hypothesis / Context only inside a Section"""
    bad = []
    # the development = the files of coq/_CoqProject (work in progress that is not yet part of
    # the project is not built, not used and not audited)
    listed = [l.strip() for l in open(os.path.join(COQ, "_CoqProject")) if l.strip().endswith(".v")]
    for rel in listed:
        for path in [os.path.join(COQ, rel)]:
            if os.path.exists(path):
                text = open(path).read()
                text = re.sub(r"\(\*.*?\*\)", lambda m: "\n" * m.group(0).count("\n"), text, flags=re.S)
                depth = 0
                for i, line in enumerate(text.split("\n")):
                    if re.match(r"^\s*Section\s+\w+", line):
                        depth += 1
                    elif re.match(r"^\s*End\s+\w+\s*\.", line) and depth > 0:
                        depth -= 1
                    if FORBIDDEN.search(line) or (depth == 0 and SECTION_ONLY.match(line)):
                        bad.append("%s:%d: %s" % (os.path.relpath(path, VERIF), i + 1, line.strip()[:100]))
    return bad


def property_theorems(pid, extra_files=()):
    """compile Properties/<pid>.v (and the extra property files of that property) once more to
    capture the Print Assumptions output.
    Returns dict(theorems=[...], closed=n, axioms=[...], ok=bool, output=str)."""
    import shutil
    import tempfile
    res = {"theorems": [], "closed": 0, "axioms": [], "ok": True, "output": "", "printed": []}
    for name in (pid,) + tuple(extra_files):
        path = os.path.join(COQ, "Properties", name + ".v")
        if not os.path.exists(path):
            res["ok"] = False
            res["output"] += "missing " + path
            continue
        src = open(path).read()
        src_nc = re.sub(r"\(\*.*?\*\)", "", src, flags=re.S)
        theorems = re.findall(r"^\s*(?:Theorem|Corollary)\s+(\w+)", src_nc, re.M)
        prints = re.findall(r"Print Assumptions\s+(\w+)", src_nc)
        d = tempfile.mkdtemp(prefix="pfdl_prop_")
        try:
            shutil.copy(path, os.path.join(d, name + ".v"))
            rc, out, err = sh(["coqc", "-Q", COQ, "PFDL", "-w", "-all", os.path.join(d, name + ".v")], cwd=d, timeout=900)
        finally:
            shutil.rmtree(d, ignore_errors=True)
        closed = out.count("Closed under the global context")
        axioms = []
        for m in re.finditer(r"Axioms:\n((?:.+\n?)+?)(?:\n|$)", out):
            for line in m.group(1).split("\n"):
                mm = re.match(r"^(\S+)\s*:", line)
                if mm:
                    axioms.append(mm.group(1))
        bad_axioms = [a for a in axioms if a not in ALLOWED_AXIOMS]
        ok = (rc == 0 and len(theorems) > 0 and set(theorems) <= set(prints)
              and closed + len(re.findall(r"Axioms:", out)) == len(prints) and not bad_axioms)
        res["theorems"] += theorems
        res["printed"] += prints
        res["closed"] += closed
        res["axioms"] += axioms
        res["ok"] = res["ok"] and ok
        res["output"] += (out + err)[-3000:]
    return res


# ---- JSON with Fractions and tuples --------------------------------------------
def enc(x):
    if isinstance(x, Fraction):
        return {"__q": "%d/%d" % (x.numerator, x.denominator)}
    if isinstance(x, tuple):
        return {"__t": [enc(y) for y in x]}
    if isinstance(x, list):
        return [enc(y) for y in x]
    if isinstance(x, dict):
        return {str(k): enc(v) for k, v in x.items()}
    if isinstance(x, (str, int, float, bool)) or x is None:
        return x
    return repr(x)


def dec(x):
    if isinstance(x, dict):
        if "__q" in x and len(x) == 1:
            return Fraction(x["__q"])
        if "__t" in x and len(x) == 1:
            return tuple(dec(y) for y in x["__t"])
        return {k: dec(v) for k, v in x.items()}
    if isinstance(x, list):
        return [dec(y) for y in x]
    return x


def write_replay(pid, payload):
    os.makedirs(os.path.join(VERIF, "replays"), exist_ok=True)
    blob = json.dumps(enc(payload), indent=1, sort_keys=True)
    h = hashlib.sha1(blob.encode()).hexdigest()[:10]
    path = os.path.join(VERIF, "replays", "%s-%s.json" % (pid, h))
    with open(path, "w") as f:
        f.write(blob)
    return path


def write_evidence(pid, ev):
    # a trial against a scratch worktree (PFDL_REPO set) must not overwrite the evidence
    sub = "evidence" if REPO == "/repo" else os.path.join("work", "evidence-trial")
    os.makedirs(os.path.join(VERIF, sub), exist_ok=True)
    path = os.path.join(VERIF, sub, pid + ".json")
    with open(path, "w") as f:
        json.dump(enc(ev), f, indent=1, sort_keys=True)
    return path


def load_known_findings():
    path = os.path.join(VERIF, "known_findings.json")
    if not os.path.exists(path):
        return []
    return json.load(open(path))["findings"]
