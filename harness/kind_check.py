"""Case kind `check` (properties C09 C10 C11 C16 C19): the validator.

Every case is a program AST (harness/pfdl_ast.py) rendered to text by gen_check.render.
The implementation side is pfdl_scheduler.utils.parsing_utils.parse_string (console and
editor-extension output format) and, for C09/C16, pfdl_scheduler.Scheduler; the model side
is PFDL.Check.CheckModel.validate evaluated with vm_compute inside coqc on the same AST,
together with the decidable certificate wf_dec (PFDL.Check.Typing) and the shape
predicates of the known findings (PFDL.Check.Guards).

compared (correspondence): exception class, verdict, multiset of (message kind, line) —
message kinds through the regex table check_core.MSG_TABLE, lines through the printer's
line map of the model's context references;
monitors (per property) are applied to the implementation's observation only."""
import collections
import os
import random
import re
import sys
import time
import traceback
from concurrent.futures import ProcessPoolExecutor

import check_core
import common
import faults
import gen_check

EXTRA = ["wf_dec", "from_grammar", "sh_bad_guard", "sh_string_eq", "sh_array_element", "c11_guard"]
HEADER = check_core.HEADER + "From PFDL.Check Require Import Typing Guards.\n"

# finding id -> (shape name among EXTRA, value of the predicate that means "shape present").
# After the repairs D8-D12a, D21-D23 in /repo no shape excuses an exception any more.
CRASH_SHAPES = []
ACCEPT_SHAPES = [("D12b-guard-type-unchecked", "sh_bad_guard", True)]
REJECT_SHAPES = [("D24-string-equality-rejected", "sh_string_eq", True),
                 ("D25-array-element-rejected", "sh_array_element", True)]
LINE_SHAPES = []


def shapes_of(m):
    return dict(zip(EXTRA, m["extra"]))


def attribute(known_ids, shape_vals, table):
    for fid, name, present in table:
        if fid in known_ids and shape_vals.get(name) is present:
            return fid
    return None


# --------------------------------------------------------------------------------------
# parallel execution of the implementation
# --------------------------------------------------------------------------------------
# A valid program that DEFINES every name the fault injectors use as "unknown" (struct Nosuch,
# task nosuch, variable zz, attribute nosuch).  It is validated in the same process right before
# every case: validation must not remember anything from earlier validations (a leak of struct
# names / tasks / variables between parse_string calls would make the faulty program pass).
PRIMER = """Struct Nosuch
    a: number
    nosuch: number
    zz: number
End

Struct Fnew
    a: number
End

Task nosuch
    In
        zz: Nosuch
    Sprimer
        In
            zz
        Out
            x: Nosuch
            x1: Nosuch
            w: Nosuch
End

Task tnew
    Sprimer2
End

Task productionTask
    Sprimer3
        Out
            zz: Nosuch
            q: Nosuch
    nosuch
        In
            zz
End
"""


def _impl_pair(text):
    """one case = a short sequence of validations in one process: the primer, then the text in
    the console format twice in a row (the repetition must give the same verdict and print the
    same messages), then in the extension format"""
    check_core.run_impl(PRIMER, ext=False)
    r1 = check_core.run_impl(text, ext=False)
    r1b = check_core.run_impl(text, ext=False)
    r2 = check_core.run_impl(text, ext=True)
    if (r1b["valid"], r1b["exc"], r1b["out"]) != (r1["valid"], r1["exc"], r1["out"]):
        r1["repeat_diff"] = "second validation of the same text: verdict %s, exception %s, output %r" % (
            r1b["valid"], r1b["exc"], r1b["out"][:80])
    for r in (r1, r2):
        r.pop("process", None)
    return r1, r2


def _init_worker(wd):
    os.chdir(wd)


def run_impl_many(texts, workdir, jobs=14):
    if len(texts) < 24:
        return [_impl_pair(t) for t in texts]
    with ProcessPoolExecutor(max_workers=jobs, initializer=_init_worker, initargs=(workdir,)) as ex:
        return list(ex.map(_impl_pair, texts, chunksize=8))


def evaluate(cases, workdir, tag="chk"):
    """cases: list of dict(prog, text, lm, ...).  Adds impl (console), implx (extension),
    model, obs_i, obs_x, obs_m, shapes, diff (None or text)."""
    pairs = run_impl_many([c["text"] for c in cases], workdir)
    models = check_core.model_eval([c["prog"] for c in cases], workdir, extra=EXTRA, header=HEADER, tag=tag)
    for c, (r1, r2), m in zip(cases, pairs, models):
        c["impl"], c["implx"], c["model"] = r1, r2, m
        c["obs_i"] = check_core.impl_observation(r1)
        c["obs_x"] = check_core.impl_observation(r2)
        c["obs_m"] = check_core.model_observation(m, c["lm"])
        c["shapes"] = shapes_of(m)
        c["diff"] = check_core.compare(c["obs_i"], c["obs_m"]) or check_core.compare(c["obs_x"], c["obs_m"])
    return cases


def payload(pid, c, monitor, why):
    return {"property": pid, "kind": "check", "mode": "program", "monitor": monitor, "why": why,
            "program_text": c["text"], "prog": c["prog"], "linemap": [[list(k) if isinstance(k, tuple) else k, v]
                                                                      for k, v in c["lm"].items()],
            "meta": c.get("meta", {}),
            "impl_console": c.get("impl", {}).get("out"), "impl_exception": c.get("impl", {}).get("exc"),
            "model": c.get("model")}


def lm_from_payload(p):
    lm = {}
    for k, v in p["linemap"]:
        if isinstance(k, list):
            k = tuple(tuple(x) if isinstance(x, list) else x for x in k)
        lm[k] = tuple(v) if isinstance(v, list) else v
    return lm


# --------------------------------------------------------------------------------------
# monitors on the implementation's observation
# --------------------------------------------------------------------------------------
def mon_C11(c):
    """accepted, no output, in both formats"""
    for r in (c["impl"], c["implx"]):
        if r["exc"] is not None:
            return "exception " + r["exc"]
        if r["valid"] is not True:
            return "reported invalid"
        if r["out"] != "":
            return "accepted but printed output"
    return None


def mon_C10(c):
    """reported invalid with at least one message, no exception, in both formats"""
    for r in (c["impl"], c["implx"]):
        if r["exc"] is not None:
            return "exception " + r["exc"]
        if r["valid"] is not False:
            return "accepted"
        if not r["msgs"]:
            return "invalid without a message"
    return None


def mon_C16(c):
    """a verdict is returned without raising; valid <-> nothing printed; validating the same text
    again gives the same verdict and the same output"""
    if c["impl"].get("repeat_diff"):
        return c["impl"]["repeat_diff"]
    for r in (c["impl"], c["implx"]):
        if r["exc"] is not None:
            return "exception " + r["exc"]
        if r["valid"] not in (True, False):
            return "no verdict"
        if r["valid"] != (r["out"] == ""):
            return "verdict %s but output %r" % (r["valid"], r["out"][:60])
    return None


def mon_C19(c):
    """some reported line lies within the span of the offending construct; every reported line
    lies in the file; both formats.  None when nothing can be said (not reported: C10's business)"""
    span = c["meta"]["span"]
    n = c["lm"]["nlines"]
    for r in (c["impl"], c["implx"]):
        if r["exc"] is not None or r["valid"] is not False or not r["msgs"]:
            return None
        lines = [ln for _, ln in r["msgs"]]
        out = [ln for ln in lines if not 1 <= ln <= n]
        if out:
            return "reported line %d lies outside the file (1..%d)" % (out[0], n)
        if span == "file":
            if 1 not in lines:
                return "no message at line 1 for an error about the whole file: %s" % lines
        else:
            a, b = c["lm"][tuple(span) if isinstance(span, list) else span]
            if not any(a <= ln <= b for ln in lines):
                return "no reported line in %d..%d: %s" % (a, b, lines)
    return None


# --------------------------------------------------------------------------------------
# case families
# --------------------------------------------------------------------------------------
def wf_case(seed_str, cfg=None, layout=True, permute=False):
    rng = random.Random(seed_str)
    prog = gen_check.WGen(rng, cfg).gen_program()
    if permute:
        order = list(prog["order"])
        rng.shuffle(order)
        prog["order"] = order
    lm = {}
    text = gen_check.render(prog, gen_check.rand_layout(rng) if layout else None, lm)
    return {"prog": prog, "text": text, "lm": lm, "meta": {"family": "wf", "seed": seed_str, "permuted": permute}}


def permuted_variant(c, seed_str):
    """same definitions in another order (structs and tasks interleaved at random) and another layout"""
    rng = random.Random(seed_str)
    prog = gen_check.clone(c["prog"])
    # the model numbers definitions by their position among the structs / tasks: permute the lists
    # themselves, not only the interleaving
    si = list(range(len(prog["structs"])))
    ti = list(range(len(prog["tasks"])))
    rng.shuffle(si)
    rng.shuffle(ti)
    prog["structs"] = [prog["structs"][i] for i in si]
    prog["tasks"] = [prog["tasks"][i] for i in ti]
    order = [("struct", i) for i in range(len(si))] + [("task", i) for i in range(len(ti))]
    rng.shuffle(order)
    # keep the relative order of structs among themselves and of tasks among themselves as listed
    ss = iter(range(len(si)))
    ts = iter(range(len(ti)))
    order = [("struct", next(ss)) if k == "struct" else ("task", next(ts)) for k, _ in order]
    prog["order"] = order
    lm = {}
    text = gen_check.render(prog, gen_check.rand_layout(rng), lm)
    return {"prog": prog, "text": text, "lm": lm,
            "meta": {"family": "wf-permuted", "seed": seed_str, "of": c["meta"].get("seed")}}


# well-formed programs of the shapes of the C11 findings (outside the guard of C11_partial)
def wf_outside_guard(seed_str):
    rng = random.Random(seed_str)
    prog = faults.with_support(gen_check.WGen(rng).gen_program())
    which = rng.choice(["string_eq", "array_elem_expr", "prim_array_elem_param", "array_elem_whole_cond",
                        "paren_string_operand", "array_elem_limit"])
    q = ("service", "Sq", [], [("q", faults.FQ)])
    P = faults.P
    if which == "string_eq":
        s = ("cond", ("bin", rng.choice(["==", "!="]), P("q", "label"), ("str", "a")), [("service", "Sp", [], [])], [])
    elif which == "array_elem_expr":
        s = ("cond", ("bin", "<", P("q", "items", 0, "n"), ("num", 3)), [("service", "Sp", [], [])], [])
    elif which == "paren_string_operand":
        s = ("cond", ("bin", rng.choice(["<", ">="]), ("paren", P("q", "label")), ("str", "a")),
             [("service", "Sp", [], [])], [])
    elif which == "array_elem_limit":
        s = ("count", False, "kk", ("path", "q", [("f", "items"), ("il", 1), ("f", "n")]), [("service", "Sp", [], [])])
    elif which == "array_elem_whole_cond":
        s = ("cond", P("q", "items", 1, "ok"), [("service", "Sp", [], [])], [])
    else:
        s = ("service", "Sp", [P("q", "nums", 0)], [])
    prod = next(t for t in prog["tasks"] if t["name"] == "productionTask")
    at = rng.randrange(len(prod["body"]) + 1)
    prod["body"][at:at] = [q, s]
    lm = {}
    text = gen_check.render(prog, gen_check.rand_layout(rng), lm)
    return {"prog": prog, "text": text, "lm": lm, "meta": {"family": "wf-outside-guard", "which": which, "seed": seed_str}}


def fault_case(seed_str, fault, pos_kind=None, depth=None):
    rng = random.Random(seed_str)
    base = gen_check.WGen(rng).gen_program()
    pk = pos_kind or rng.choice(faults.POS_KINDS)
    inj = faults.inject(base, rng, fault, pk, depth)
    if inj is None:
        inj = faults.inject(base, rng, fault, "new_called", depth)
    lm = {}
    text = gen_check.render(inj["prog"], gen_check.rand_layout(rng), lm)
    return {"prog": inj["prog"], "text": text, "lm": lm,
            "meta": {"family": "fault", "fault": fault, "pos": inj["pos"], "span": inj["span"],
                     "depth": inj["depth"], "seed": seed_str}}


CONTAINERS = ["while", "count", "passed", "failed", "called_task", "parallel_task", "parloop_task"]
INNER = ["service", "call", "parallel", "while", "count", "parloop", "cond"]


def nesting_case(container, inner, seed_str):
    """every statement kind DIRECTLY inside every container kind (and one level deeper for the
    loop / branch containers): a small valid program that is driven to the end"""
    rng = random.Random(seed_str)
    P = faults.P
    q = ("service", "Sq", [], [("q", faults.FQ)])

    def inner_stmt(k):
        call = ("call",) + faults.GOOD_CALL
        if k == "service":
            return ("service", "Si", [("var", "q")], [])
        if k == "call":
            return call
        if k == "parallel":
            return ("parallel", [faults.GOOD_CALL, ("fcallee", [("var", "q"), P("q", "count")], [("x2", faults.FIN)])])
        if k == "while":
            return ("while", ("bin", "<", P("q", "count"), ("num", 0)), [("service", "Sw", [], [])])
        if k == "count":
            return ("count", False, "m", ("int", 2), [("service", "Sc", [], [])])
        if k == "parloop":
            return ("count", True, "m", ("path", "q", [("f", "count")]), [call])
        return ("cond", P("q", "flag"), [("service", "Sp", [], [])], [("service", "Sf", [], [])])

    body = [q, inner_stmt(inner)]
    if rng.random() < 0.5:
        body.append(("service", "Safter", [], []))
    prog = {"structs": [dict(s) for s in faults.SUPPORT_STRUCTS], "tasks": []}
    host = None
    if container == "while":
        host = [("count", False, "o", ("int", 1), [("while", ("bool", False), body)]), ("while", ("bin", "<", ("num", 1), ("num", 0)), body)]
    elif container == "count":
        host = [("count", False, "o", ("int", rng.choice([1, 2])), body)]
    elif container == "passed":
        host = [("cond", ("bool", True), body, [])]
    elif container == "failed":
        host = [("cond", ("bool", False), [("service", "Sk", [], [])], body)]
    if host is not None:
        prod = {"name": "productionTask", "ins": [], "body": host, "outs": []}
        prog["tasks"] = [prod, gen_check.clone(faults.SUPPORT_TASK)]
    else:
        tnew = {"name": "tnew", "ins": [], "body": body, "outs": []}
        if container == "called_task":
            pb = [("call", "tnew", [], [])]
        elif container == "parallel_task":
            pb = [("parallel", [("tnew", [], []), ("tother", [], [])])]
        else:
            pb = [("count", True, "z", ("int", 2), [("call", "tnew", [], [])])]
        prog["tasks"] = [{"name": "productionTask", "ins": [], "body": pb, "outs": []}, tnew,
                         {"name": "tother", "ins": [], "body": [("service", "So", [], [])], "outs": []},
                         gen_check.clone(faults.SUPPORT_TASK)]
    lm = {}
    text = gen_check.render(prog, None, lm)
    return {"prog": prog, "text": text, "lm": lm,
            "meta": {"family": "nesting", "container": container, "inner": inner, "seed": seed_str}}


def shared_names_case(seed_str):
    """well-formed: several tasks use the SAME variable name for values of DIFFERENT struct types
    whose identically named attribute has different primitive types, and every task uses that
    path in a guard, a condition or a loop limit"""
    rng = random.Random(seed_str)
    P = faults.P
    NUM, BOOL, STR = ("plain", "number"), ("plain", "boolean"), ("plain", "string")
    kinds = [("Sa", NUM), ("Sb", BOOL), ("Sc", STR)]
    rng.shuffle(kinds)
    attr = rng.choice(["val", "quality", "state"])
    var = rng.choice(["r", "result", "x"])
    structs = [{"name": sn, "attrs": [(attr, ty), ("other", NUM)]} for sn, ty in kinds]
    nested = rng.random() < 0.5
    if nested:   # the same path spelling two levels deep: r.inner.val
        structs += [{"name": "W" + sn, "attrs": [("inner", ("plain", sn))]} for sn, _ in kinds]

    def use(sn, ty):
        path = P(var, "inner", attr) if nested else P(var, attr)
        decl = ("service", "Sd", [], [(var, ("plain", ("W" + sn) if nested else sn))])
        if ty == NUM:
            form = rng.choice(["limit", "cmp", "while"])
            if form == "limit":
                return [decl, ("count", False, "k", ("path", path[1], path[2]), [("service", "Sl", [], [])])]
            if form == "cmp":
                return [decl, ("cond", ("bin", rng.choice(["<", ">=", "=="]), path, ("num", 3)), [("service", "Sp", [], [])], [])]
            return [decl, ("while", ("bin", "<", ("bin", "+", path, ("num", 1)), ("num", 0)), [("service", "Sw", [], [])])]
        if ty == BOOL:
            form = rng.choice(["bare", "and"])
            if form == "bare":
                return [decl, ("cond", path, [("service", "Sp", [], [])], [("service", "Sf", [], [])])]
            return [decl, ("while", ("bin", "And", ("bool", False), path), [("service", "Sw", [], [])])]
        return [decl, ("cond", ("bin", rng.choice(["<", ">"]), path, ("str", "m")), [("service", "Sp", [], [])], [])]

    tasks = []
    names = ["productionTask", "taskB", "taskC"]
    for (sn, ty), tn in zip(kinds, names):
        body = use(sn, ty)
        if tn == "productionTask":
            body = body + [("call", "taskB", [], []), ("call", "taskC", [], [])]
        tasks.append({"name": tn, "ins": [], "body": body, "outs": []})
    prog = {"structs": structs, "tasks": tasks}
    order = [("struct", i) for i in range(len(structs))] + [("task", i) for i in range(len(tasks))]
    rng.shuffle(order)
    prog["order"] = order
    lm = {}
    text = gen_check.render(prog, gen_check.rand_layout(rng), lm)
    return {"prog": prog, "text": text, "lm": lm, "meta": {"family": "wf-shared-names", "seed": seed_str}}


def loop_scope_case(seed_str):
    """well-formed: nested counting loops that REUSE the counting variable, an [i] path as call
    input in the outer body after (and before, and inside) the inner loop; control variants
    with different variables, parallel inner loops, three levels"""
    rng = random.Random(seed_str)
    P = faults.P
    q = ("service", "Sq", [], [("q", faults.FQ)])
    variant = rng.choice(["same_after", "same_after", "same_before_after", "diff", "three", "inner_parallel", "in_cond"])
    outer = rng.choice(["i", "k", "idx"])
    inner = outer if variant != "diff" else outer + "2"

    def use(v, name):
        c = rng.random()
        if c < 0.4:
            return ("service", name, [P("q", "items", "@" + v)], [])
        if c < 0.7:
            return ("service", name, [P("q", "items", "@" + v, "n"), P("q", "fixed", "@" + v)], [])
        return ("call", "fcallee", [("var", "q"), P("q", "items", "@" + v, "n")], [("x" + name, faults.FIN)])

    inner_loop = ("count", False, inner, rng.choice([("int", 2), ("path", "q", [("f", "count")])]), [use(inner, "Sin")])
    if variant == "inner_parallel":
        inner_loop = ("count", True, inner, ("int", 2), [("call", "fcallee", [("var", "q"), P("q", "items", "@" + inner, "n")],
                                                         [("xp", faults.FIN)])])
    body = [inner_loop, use(outer, "Safter")]
    if variant == "same_before_after":
        body = [use(outer, "Sbefore")] + body + [use(outer, "Safter2")]
    if variant == "three":
        body = [("count", False, outer, ("int", 1), [inner_loop, use(outer, "Smid")]), use(outer, "Safter")]
    if variant == "in_cond":
        body = [("cond", ("bool", True), [inner_loop], [inner_loop]), use(outer, "Safter")]
    stmts = [q, ("count", False, outer, ("int", 2), body)]
    prog = {"structs": [dict(x) for x in faults.SUPPORT_STRUCTS],
            "tasks": [{"name": "productionTask", "ins": [], "body": stmts, "outs": []}, gen_check.clone(faults.SUPPORT_TASK)]}
    if rng.random() < 0.5:   # the same in a called task
        prog["tasks"][0]["body"] = [("call", "tloops", [], [])]
        prog["tasks"].append({"name": "tloops", "ins": [], "body": stmts, "outs": []})
    lm = {}
    text = gen_check.render(prog, gen_check.rand_layout(rng), lm)
    return {"prog": prog, "text": text, "lm": lm, "meta": {"family": "wf-loop-scopes", "variant": variant, "seed": seed_str}}


def nested_array_case(seed_str):
    """a struct literal in which an array directly contains arrays (the implementation skips the
    inner lists; whatever the verdict, it has to be a verdict)"""
    rng = random.Random(seed_str)
    n = faults.n
    inner = ("arr", [n(rng.randint(0, 9)) for _ in range(rng.randint(0, 2))])
    which = rng.choice(["all_nested", "mixed_tail", "mixed_head", "nested_in_nested", "struct_array", "strings", "deep"])
    over = {}
    if which == "all_nested":
        over["nums"] = ("arr", [inner, ("arr", [n(3), n(4)])])
    elif which == "mixed_tail":
        over["nums"] = ("arr", [n(1), n(2), inner])
    elif which == "mixed_head":
        over["nums"] = ("arr", [inner, n(1), n(2)])
    elif which == "nested_in_nested":
        over["inner"] = faults.fin_json(pair=("arr", [n(1), ("arr", [inner]), n(2)]))
    elif which == "struct_array":
        over["items"] = ("arr", [faults.fin_json(), ("arr", [faults.fin_json()]), inner])
    elif which == "strings":
        over["nums"] = ("arr", [("arr", [("str", "a"), ("str", "b")]), ("arr", [("bool", True)])])
    else:
        over["fixed"] = ("arr", [faults.fin_json(), faults.fin_json(), ("arr", [("arr", [("arr", [])])])])
    lit = ("lit", "Fq", faults.fq_json(**over))
    stmt = rng.choice([("service", "Sn", [lit], []),
                       ("call", "fcallee", [lit, ("path", "q", [("f", "count")])], [("x1", faults.FIN)])])
    body = [("service", "Sq", [], [("q", faults.FQ)]), stmt]
    if rng.random() < 0.5:
        body = [("count", False, "w", ("int", 1), [("cond", ("bool", False), [("service", "Sk", [], [])], body)])]
    prog = {"structs": [dict(x) for x in faults.SUPPORT_STRUCTS],
            "tasks": [{"name": "productionTask", "ins": [], "body": body, "outs": []}, gen_check.clone(faults.SUPPORT_TASK)]}
    lm = {}
    text = gen_check.render(prog, gen_check.rand_layout(rng), lm)
    return {"prog": prog, "text": text, "lm": lm, "meta": {"family": "nested-array-literal", "which": which, "seed": seed_str}}


def has_nested_array_literal(prog):
    """shape predicate of the (fixed) finding D28: some struct literal has an array that directly contains an array"""
    def walk_json(j):
        if j[0] == "arr":
            return any(x[0] == "arr" for x in j[1]) or any(walk_json(x) for x in j[1])
        if j[0] == "obj":
            return any(walk_json(v) for _, v in j[1])
        return False

    def params(ins):
        return any(p[0] == "lit" and walk_json(p[2]) for p in ins)

    def walk(ss):
        for s in ss:
            k = s[0]
            if k in ("service", "call") and params(s[2]):
                return True
            if k == "parallel" and any(params(c[1]) for c in s[1]):
                return True
            if k == "while" and walk(s[2]):
                return True
            if k == "count" and walk(s[4]):
                return True
            if k == "cond" and (walk(s[2]) or walk(s[3])):
                return True
        return False
    return any(walk(t["body"]) for t in prog["tasks"])


def attr_var_clash_case(seed_str, which):
    """well-formed: a struct whose attributes are named like the variables of one task but have other
    types, defined DIRECTLY AFTER that task (which: 0 productionTask, 1 fcallee, else a random task);
    the other definitions in random order"""
    rng = random.Random(seed_str)
    prog = faults.with_support(gen_check.WGen(rng).gen_program())
    prod = next(t for t in prog["tasks"] if t["name"] == "productionTask")
    prod["body"] += [("service", "Sq", [], [("q", faults.FQ)]), ("call",) + faults.GOOD_CALL]
    names = [t["name"] for t in prog["tasks"]]
    tname = "productionTask" if which == 0 else "fcallee" if which == 1 else rng.choice(names)
    ti = names.index(tname)
    vt = gen_check.var_types(prog).get(tname, {})
    NUM, STR = ("plain", "number"), ("plain", "string")
    attrs = [(v, STR if t == NUM else NUM) for v, t in sorted(vt.items())][:8] or [("zz", NUM)]
    prog["structs"].append({"name": "Fclash", "attrs": attrs})
    si = len(prog["structs"]) - 1
    order = [o for o in (prog.get("order") or []) if o != ("struct", si)]
    rng.shuffle(order)
    at = order.index(("task", ti))
    order[at + 1:at + 1] = [("struct", si)]
    prog["order"] = order
    lm = {}
    text = gen_check.render(prog, gen_check.rand_layout(rng), lm)
    return {"prog": prog, "text": text, "lm": lm,
            "meta": {"family": "wf-attr-var-clash", "after": tname, "seed": seed_str}}


def redeclare_case(seed_str):
    """accepted although a call output re-declares a variable of the task (an earlier call output or a
    task input) with ANOTHER type: the validator keeps the last type; nothing may be printed"""
    rng = random.Random(seed_str)
    prog = faults.with_support(gen_check.WGen(rng).gen_program())
    prod = next(t for t in prog["tasks"] if t["name"] == "productionTask")
    FQ, FIN, P = faults.FQ, faults.FIN, faults.P
    q = ("service", "Sq", [], [("q", FQ)])
    which = rng.choice(["other_struct", "array", "task_input", "call_output", "in_loop"])
    if which == "other_struct":
        seq = [q, ("service", "S1", [], [("x", FIN)]), ("service", "S2", [("var", "x")], [("x", FQ)]),
               ("service", "S3", [P("x", "inner", "n")], [])]
    elif which == "array":
        first, second = rng.choice([(FIN, ("array", "Fin", None)), (("array", "Fin", None), FIN), (("array", "Fin", 2), ("array", "Fin", None))])
        seq = [q, ("service", "S1", [], [("x", first)]), ("service", "S2", [], [("x", second)]), ("service", "S3", [("var", "x")], [])]
    elif which == "task_input":
        prog["tasks"].append({"name": "tredecl", "ins": [("p", FQ), ("k", ("plain", "number"))],
                              "body": [("service", "S1", [("var", "p")], [("p", FIN), ("k", ("plain", "string"))]),
                                       ("service", "S2", [P("p", "n"), ("var", "k")], [])], "outs": ["p"]})
        prog["order"].append(("task", len(prog["tasks"]) - 1))
        seq = [q, ("call", "tredecl", [("var", "q"), P("q", "count")], [("y", FIN)])]
    elif which == "call_output":
        seq = [q, ("service", "S1", [], [("x1", FQ)]), ("call",) + faults.GOOD_CALL, ("service", "S3", [P("x1", "n")], [])]
    else:
        seq = [q, ("service", "S1", [], [("x", FIN)]),
               ("count", False, "w", ("int", 2), [("cond", ("bool", True), [("service", "S2", [], [("x", FQ)])], [])]),
               ("service", "S3", [P("x", "count")], [])]
    at = rng.randrange(len(prod["body"]) + 1)
    prod["body"][at:at] = seq
    lm = {}
    text = gen_check.render(prog, gen_check.rand_layout(rng), lm)
    return {"prog": prog, "text": text, "lm": lm, "meta": {"family": "redeclared-type", "which": which, "seed": seed_str}}


def twin_array_literal_case(seed_str):
    """well-formed: two token-identical struct literals that contain an ARRAY OF STRUCTS, used for two
    struct types whose array attribute has different element types"""
    rng = random.Random(seed_str)
    prog = faults.with_support(gen_check.WGen(rng).gen_program())
    NUM = ("plain", "number")
    n0 = len(prog["structs"])
    prog["structs"] += [{"name": "Parcel", "attrs": [("size", NUM)]}, {"name": "Letter", "attrs": [("size", NUM)]},
                        {"name": "Van", "attrs": [("cargo", ("array", "Parcel", None)), ("spare", ("plain", "Parcel"))]},
                        {"name": "Bag", "attrs": [("cargo", ("array", "Letter", None)), ("spare", ("plain", "Letter"))]}]
    prog["order"] += [("struct", n0 + i) for i in range(4)]
    k = rng.choice([1, 2, 3])
    one = ("obj", [("size", ("num", gen_check.Fraction(rng.choice([1, 2, 5]))))])
    lit = ("obj", [("cargo", ("arr", [one] * k)), ("spare", one)])
    names = ["Van", "Bag"]
    rng.shuffle(names)
    seq = [("service", "Sv", [("lit", names[0], gen_check.clone(lit))], []),
           ("service", "Sb", [("lit", names[1], gen_check.clone(lit))], [])]
    if rng.random() < 0.5:   # the second one in another task
        prog["tasks"].append({"name": "tlit", "ins": [], "body": [seq.pop()], "outs": []})
        prog["order"].append(("task", len(prog["tasks"]) - 1))
        seq.append(("call", "tlit", [], []))
    prod = next(t for t in prog["tasks"] if t["name"] == "productionTask")
    at = rng.randrange(len(prod["body"]) + 1)
    prod["body"][at:at] = seq
    order = list(prog["order"])
    rng.shuffle(order)
    prog["order"] = order
    lm = {}
    text = gen_check.render(prog, gen_check.rand_layout(rng), lm)
    return {"prog": prog, "text": text, "lm": lm, "meta": {"family": "wf-twin-literals", "seed": seed_str}}


def repeated_out_case(seed_str):
    """well-formed: a called task returns THE SAME variable at several positions together with a
    variable of another type; the call declares the matching types"""
    rng = random.Random(seed_str)
    prog = faults.with_support(gen_check.WGen(rng).gen_program())
    NUM, FIN, FQ = ("plain", "number"), faults.FIN, faults.FQ
    pattern = rng.choice([["v", "v", "r"], ["v", "r", "v"], ["r", "v", "v"], ["r", "r", "v", "v"], ["v", "v"]])
    ty = {"v": rng.choice([NUM, FQ]), "r": FIN}
    prog["tasks"].append({"name": "trep", "ins": [],
                          "body": [("service", "Sr", [], [("v", ty["v"]), ("r", ty["r"])])], "outs": pattern})
    prog["order"].append(("task", len(prog["tasks"]) - 1))
    prod = next(t for t in prog["tasks"] if t["name"] == "productionTask")
    call = ("call", "trep", [], [("o%d" % i, ty[x]) for i, x in enumerate(pattern)])
    use = ("service", "Su", [("var", "o0"), ("var", "o%d" % (len(pattern) - 1))], [])
    at = rng.randrange(len(prod["body"]) + 1)
    prod["body"][at:at] = [call, use]
    order = list(prog["order"])
    rng.shuffle(order)
    prog["order"] = order
    lm = {}
    text = gen_check.render(prog, gen_check.rand_layout(rng), lm)
    return {"prog": prog, "text": text, "lm": lm, "meta": {"family": "wf-repeated-out", "seed": seed_str}}


def support_case(seed_str):
    """the fault-free host of the mutants: must be certified well-formed and accepted"""
    rng = random.Random(seed_str)
    prog = faults.with_support(gen_check.WGen(rng).gen_program())
    prod = next(t for t in prog["tasks"] if t["name"] == "productionTask")
    prod["body"] += [("service", "Sq", [], [("q", faults.FQ)]), ("call",) + faults.GOOD_CALL]
    lm = {}
    text = gen_check.render(prog, gen_check.rand_layout(rng), lm)
    return {"prog": prog, "text": text, "lm": lm, "meta": {"family": "wf-support", "seed": seed_str}}


# --------------------------------------------------------------------------------------
# slices
# --------------------------------------------------------------------------------------
def count_shape_stats(stats, c):
    st = prog_stats(c["prog"])
    for k, v in st.items():
        stats["dist:" + k] += v


def prog_stats(prog):
    st = collections.Counter()

    def walk(ss, d):
        st["max_depth_%d" % min(d, 5)] += 0
        for s in ss:
            st["stmt_" + s[0]] += 1
            st["depth_ge_%d" % min(d, 4)] += 1
            if s[0] in ("service", "call"):
                for p in s[2]:
                    st["param_" + p[0]] += 1
                    if p[0] == "path" and any(e[0] != "f" for e in p[2]):
                        st["param_path_indexed"] += 1
            elif s[0] == "parallel":
                for cc in s[1]:
                    for p in cc[1]:
                        st["param_" + p[0]] += 1
            elif s[0] == "while":
                walk(s[2], d + 1)
            elif s[0] == "count":
                if s[1]:
                    st["stmt_parloop"] += 1
                walk(s[4], d + 1)
            elif s[0] == "cond":
                walk(s[2], d + 1)
                walk(s[3], d + 1)
    for t in prog["tasks"]:
        walk(t["body"], 1)
    st["structs"] += len(prog["structs"])
    st["tasks"] += len(prog["tasks"])
    return st


def corr_check(pid, c, rep, stats):
    """correspondence implementation / model on one evaluated case; True when they agree"""
    stats["compared"] += 1
    if c["model"]["status"] in ("fuel", "unsupported"):
        stats["outside_model"] += 1
        return True
    if c["diff"]:
        rep.violation(payload(pid, c, "correspondence", c["diff"]))
        return False
    if c["impl"].get("repeat_diff"):
        rep.violation(payload(pid, c, "repeat", c["impl"]["repeat_diff"]))
        return False
    return True


def slice_C11(pid, cfg, tier, seed, workdir, rep, stats, findings):
    known = {f["id"] for f in findings if f["status"] == "known"}
    n = cfg[tier]
    cases = []
    for i in range(n):
        c = wf_case("%d/%s/wf/%d" % (seed, pid, i))
        cases.append(c)
        cases.append(permuted_variant(c, "%d/%s/perm/%d" % (seed, pid, i)))
    for i in range(max(8, n // 10)):
        cases.append(support_case("%d/%s/support/%d" % (seed, pid, i)))
    for i in range(max(12, n // 6)):
        cases.append(wf_outside_guard("%d/%s/out/%d" % (seed, pid, i)))
    for i in range(max(24, n // 6)):
        cases.append(shared_names_case("%d/%s/shared/%d" % (seed, pid, i)))
    for i in range(max(24, n // 6)):
        cases.append(loop_scope_case("%d/%s/scopes/%d" % (seed, pid, i)))
    for i in range(max(24, n // 6)):
        cases.append(attr_var_clash_case("%d/%s/clash/%d" % (seed, pid, i), i % 3))
    for i in range(max(12, n // 12)):
        cases.append(twin_array_literal_case("%d/%s/twinlit/%d" % (seed, pid, i)))
        cases.append(repeated_out_case("%d/%s/repout/%d" % (seed, pid, i)))
    stats["generated"] += len(cases)
    evaluate(cases, workdir)
    samples = []
    distinct = set()
    verdict_of = {}
    for c in cases:
        fam = c["meta"]["family"]
        stats["family:" + fam] += 1
        if not c["shapes"]["wf_dec"]:
            stats["not_certified_dropped"] += 1
            if fam != "wf-outside-guard":
                # generator bug: never weakens the check, but is reported
                rep.violation(payload(pid, c, "generator", "program of the well-formed family is not certified by wf_dec"),
                              "no-failing-input-found")
            continue
        stats["certified_wf"] += 1
        count_shape_stats(stats, c)
        ok = corr_check(pid, c, rep, stats)
        why = mon_C11(c)
        if c["shapes"].get("c11_guard"):
            stats["inside_c11_guard"] += 1
            # theorem C11_wf_accepted_partial: certified and inside the guard => the model accepts;
            # a deviation can only be a defect of the printers / the evaluation glue
            if c["model"]["status"] != "ok" or c["model"]["errs"]:
                rep.violation(payload(pid, c, "machinery", "wf_dec and c11_guard hold but the model does not accept"),
                              "no-failing-input-found")
                continue
        if fam == "wf":
            verdict_of[c["meta"]["seed"]] = c["impl"]["valid"]
        if fam == "wf-permuted":
            # order independence: same verdict as the original
            pass
        if why:
            sv = c["shapes"]
            fid = None
            if "exception" in why:
                fid = attribute(known, sv, CRASH_SHAPES)
            elif why == "reported invalid":
                fid = attribute(known, sv, REJECT_SHAPES) or attribute(known, sv, CRASH_SHAPES)
            if fid:
                stats["known:" + fid] += 1
            else:
                rep.violation(payload(pid, c, "C11", why))
        elif ok:
            stats["agree"] += 1
            distinct.add(c["text"])
            if len(samples) < 3 and len(c["text"]) > 600:
                samples.append({"program": c["text"], "verdict": "valid, no output (both formats), model: Ok []"})
    stats["_distinct"] = distinct
    return samples


def fault_plan(pid, tier, seed, reps):
    plan = []
    for f in faults.ALL_FAULTS:
        for r in range(reps):
            # the first eight repetitions walk through the position kinds, the rest are random
            pk = faults.POS_KINDS[r % len(faults.POS_KINDS)] if r < len(faults.POS_KINDS) else None
            depth = (r % 4) if r < 8 else None
            plan.append(("%d/%s/%s/%d" % (seed, pid, f, r), f, pk, depth))
    return plan


def slice_C10(pid, cfg, tier, seed, workdir, rep, stats, findings):
    known = {f["id"] for f in findings if f["status"] == "known"}
    reps = cfg[tier]
    cases = [fault_case(s, f, pk, d) for s, f, pk, d in fault_plan(pid, tier, seed, reps)]
    hosts = [support_case("%d/%s/support/%d" % (seed, pid, i)) for i in range(max(6, reps))]
    stats["generated"] += len(cases) + len(hosts)
    evaluate(cases + hosts, workdir)
    for h in hosts:
        # the fault-free host is well-formed and accepted: the mutants differ from it by one fault
        corr_check(pid, h, rep, stats)
        if not h["shapes"]["wf_dec"] or mon_C11(h):
            rep.violation(payload(pid, h, "host", "fault-free host not certified or not accepted: %s" % mon_C11(h)),
                          "no-failing-input-found")
    samples = []
    distinct = set()
    for c in cases:
        f = c["meta"]["fault"]
        stats["class:" + f[:3]] += 1
        stats["depth:%d" % c["meta"]["depth"]] += 1
        stats["pos:" + c["meta"]["pos"].split("/")[0]] += 1
        if c["shapes"]["wf_dec"] != (f in faults.WF_BUT_REJECTED):
            # the injector did not produce what the catalogue says: machinery problem, reported
            rep.violation(payload(pid, c, "injector", "mutant: wf_dec = %s" % c["shapes"]["wf_dec"]), "no-failing-input-found")
            continue
        ok = corr_check(pid, c, rep, stats)
        why = mon_C10(c)
        if why:
            sv = c["shapes"]
            fid = attribute(known, sv, CRASH_SHAPES) if "exception" in why else attribute(known, sv, ACCEPT_SHAPES)
            if fid:
                stats["known:" + fid] += 1
                stats["unreported:" + f] += 1
            else:
                rep.violation(payload(pid, c, "C10", why))
        elif ok:
            stats["agree"] += 1
            stats["rejected:" + f] += 1
            distinct.add(c["text"])
            if len(samples) < 3 and c["meta"]["depth"] >= 2:
                samples.append({"fault": f, "position": c["meta"]["pos"], "program": c["text"],
                                "messages": c["impl"]["out"]})
    stats["_distinct"] = distinct
    return samples


def slice_C19(pid, cfg, tier, seed, workdir, rep, stats, findings):
    known = {f["id"] for f in findings if f["status"] == "known"}
    reps = cfg[tier]
    cases = [fault_case(s, f, pk, d) for s, f, pk, d in fault_plan(pid, tier, seed, reps)]
    stats["generated"] += len(cases)
    evaluate(cases, workdir)
    samples = []
    distinct = set()
    for c in cases:
        f = c["meta"]["fault"]
        ok = corr_check(pid, c, rep, stats)
        if mon_C10(c):
            stats["not_reported_see_C10"] += 1
            continue
        why = mon_C19(c)
        if why:
            fid = attribute(known, c["shapes"], LINE_SHAPES)
            if fid:
                stats["known:" + fid] += 1
            else:
                rep.violation(payload(pid, c, "C19", why))
        elif ok:
            stats["agree"] += 1
            stats["located:" + f[:3]] += 1
            distinct.add(c["text"])
            if len(samples) < 3 and c["meta"]["depth"] >= 2:
                samples.append({"fault": f, "position": c["meta"]["pos"], "span": c["meta"]["span"],
                                "messages_console": c["impl"]["out"], "messages_extension": c["implx"]["out"]})
    stats["_distinct"] = distinct
    return samples


# ---- C16 -----------------------------------------------------------------------------
def fuzz_texts(rng, bases, n):
    """arbitrary strings: token/character mutations of valid programs, truncations, random
    token sequences, random bytes"""
    TOK = ["Struct", "Task", "In", "Out", "Loop", "While", "To", "Parallel", "Condition", "Passed", "Failed",
           "End", "number", "string", "boolean", "true", "false", ":", ".", ",", "{", "}", "[", "]", "(", ")",
           "<", "<=", ">", ">=", "==", "!=", "And", "Or", "!", "*", "/", "-", "+", "0", "7", "1.5", '"s"',
           "a", "b1", "Xy", "productionTask", "\n", "\n    ", "\n        ", "#c", " ", "\t", "$", "\\", '"',
           "OnDone", "\r\n", "ä", "\x00", "'", "=", ";", "?", "\n            "]
    out = []
    for i in range(n):
        c = rng.random()
        base = rng.choice(bases)
        if c < 0.25:      # character-level mutations
            s = list(base)
            for _ in range(rng.randint(1, 6)):
                if not s:
                    break
                p = rng.randrange(len(s))
                op = rng.random()
                if op < 0.35:
                    del s[p]
                elif op < 0.7:
                    s.insert(p, rng.choice(TOK + list("{}[]\":\\\n ")))
                else:
                    s[p] = rng.choice(list("{}[]\":.\\\n#!<>=aZ0 \t"))
            out.append(("char", "".join(s)))
        elif c < 0.5:     # token-level mutations
            toks = re.findall(r"\s+|[A-Za-z_][A-Za-z0-9_]*|\d+(?:\.\d+)?|\"[^\"\n]*\"|.", base)
            for _ in range(rng.randint(1, 5)):
                if not toks:
                    break
                p = rng.randrange(len(toks))
                op = rng.random()
                if op < 0.3:
                    del toks[p]
                elif op < 0.6:
                    toks.insert(p, rng.choice(TOK))
                elif op < 0.8:
                    toks[p] = rng.choice(TOK)
                else:
                    q = rng.randrange(len(toks))
                    toks[p], toks[q] = toks[q], toks[p]
            out.append(("token", "".join(toks)))
        elif c < 0.65:    # truncations
            out.append(("trunc", base[:rng.randrange(len(base) + 1)]))
        elif c < 0.75:    # line-level: drop / duplicate / re-indent a line
            ls = base.split("\n")
            p = rng.randrange(len(ls))
            op = rng.random()
            if op < 0.3:
                del ls[p]
            elif op < 0.6:
                ls.insert(p, ls[p])
            else:
                ls[p] = " " * rng.randint(0, 12) + ls[p].lstrip()
            out.append(("line", "\n".join(ls)))
        elif c < 0.82:    # JSON arrays nested in arrays
            arrs = list(re.finditer(r"\[([^\[\]\n]*)\]", base[base.find("{"):] if "{" in base else ""))
            if arrs:
                off = base.find("{")
                m = rng.choice(arrs)
                inner = m.group(1)
                repl = rng.choice(["[[%s]]" % inner, "[%s[1, 2]]" % (inner + ", " if inner.strip() else ""),
                                   "[[%s], [%s]]" % (inner, inner), "[[[]]]", "[[%s], 3]" % inner])
                out.append(("jsonnest", base[:off + m.start()] + repl + base[off + m.end():]))
            else:
                out.append(("jsonnest", base + '\nTask tj\n    Sj\n        In\n            Fq\n                {"nums": [[1, 2], [3]]}\nEnd\n'))
        elif c < 0.9:     # random token sequences
            out.append(("tokens", " ".join(rng.choice(TOK) for _ in range(rng.randint(0, 60)))))
        else:             # random bytes (decoded permissively)
            b = bytes(rng.randrange(256) for _ in range(rng.randint(0, 120)))
            out.append(("bytes", b.decode("latin-1")))
    return out


def _fuzz_one(item):
    kind, text = item
    import contextlib
    import io
    r1 = check_core.run_impl(text, ext=False)
    r1b = check_core.run_impl(text, ext=False)
    r2 = check_core.run_impl(text, ext=True)
    res = {"kind": kind, "why": None, "valid": r1["valid"], "exc": r1["exc"] or r2["exc"]}
    # (the wording of ANTLR's syntax messages - the "expecting {...}" set - depends on how warm the
    # parser's prediction cache is; only the verdict and "printed something" are compared here)
    if (r1b["valid"], r1b["exc"], r1b["out"] == "") != (r1["valid"], r1["exc"], r1["out"] == ""):
        res["why"] = "second validation of the same text differs: verdict %s, output %r" % (r1b["valid"], r1b["out"][:60])
        return res
    for r in (r1, r2):
        if r["exc"] is not None:
            res["why"] = "exception " + r["exc"]
            # where does it come from?  the front end alone (lexer, parser, visitor) or the checker
            proc, syn, fexc = check_core.front_process(text)
            res["front_exc"] = fexc
            if proc is not None:
                try:
                    res["prog"] = check_core.process_to_prog(proc)
                except Exception as e:  # noqa: BLE001
                    res["prog_error"] = type(e).__name__
            return res
        if r["valid"] not in (True, False):
            res["why"] = "no verdict"
            return res
        if r["valid"] != (r["out"] == ""):
            res["why"] = "verdict %s but output %r" % (r["valid"], r["out"][:80])
            return res
    if r1["valid"] != r2["valid"]:
        res["why"] = "verdict differs between the output formats"
        return res
    if r1["valid"] is False:
        res["why"] = no_order_for_invalid(text)
    return res


def no_order_for_invalid(text):
    """for an invalid program: construction does not raise, start() is False, events are rejected"""
    import contextlib
    import io
    from pfdl_scheduler.scheduler import Scheduler
    from pfdl_scheduler.scheduling.event import Event
    try:
        with contextlib.redirect_stdout(io.StringIO()):
            s = Scheduler(text, True, False)
            if s.pfdl_file_valid:
                return "Scheduler reports valid where parse_string reported invalid"
            if s.start() is not False:
                return "start() did not report failure for an invalid program"
            for ev in (Event("start_production_task", {}), Event("service_finished", {"service_uuid": "0"}),
                       Event("service_finished", {"service_uuid": "1"}), Event()):
                if s.fire_event(ev) is not False:
                    return "fire_event accepted %s for an invalid program" % ev.event_type
            if s.running:
                return "running is set for an invalid program"
    except RecursionError:
        return "exception RecursionError from Scheduler/start/fire_event on an invalid program"
    except Exception as e:  # noqa: BLE001
        return "exception %s from Scheduler/start/fire_event on an invalid program" % type(e).__name__
    return None


def shape_json_string_not_loadable(text):
    """the token stream of the text (the implementation's own lexer and parser) contains a struct
    literal whose JSON text json.loads rejects: the JSON lexer mode accepts any characters inside
    double quotes (raw control characters, backslashes that start no JSON escape)"""
    import json
    from antlr4.CommonTokenStream import CommonTokenStream
    from antlr4.InputStream import InputStream
    from pfdl_scheduler.parser.PFDLLexer import PFDLLexer
    from pfdl_scheduler.parser.PFDLParser import PFDLParser
    try:
        lexer = PFDLLexer(InputStream(text))
        lexer.removeErrorListeners()
        parser = PFDLParser(CommonTokenStream(lexer))
        parser.removeErrorListeners()
        tree = parser.program()
    except Exception:  # noqa: BLE001
        return False
    found = []

    def walk(n):
        if type(n).__name__ == "Struct_initializationContext" and n.json_object() is not None:
            try:
                json.loads(n.json_object().getText())
            except ValueError:
                found.append(1)
            except Exception:  # noqa: BLE001
                pass
        for c in getattr(n, "children", None) or []:
            walk(c)
    try:
        walk(tree)
    except RecursionError:
        return False
    return bool(found)


def shape_text_is_a_path(text):
    """the program text is the name of an existing file or directory (Scheduler / parse_program
    treat such a string as a path)"""
    try:
        return os.path.exists(text)
    except (ValueError, TypeError):
        return False


def slice_C16(pid, cfg, tier, seed, workdir, rep, stats, findings):
    known = {f["id"] for f in findings if f["status"] == "known"}
    n = cfg[tier]
    # (1) programs: well-formed, single-fault mutants, shapes outside the guards
    cases = [wf_case("%d/%s/wf/%d" % (seed, pid, i)) for i in range(n)]
    cases += [wf_outside_guard("%d/%s/out/%d" % (seed, pid, i)) for i in range(max(10, n // 5))]
    cases += [nested_array_case("%d/%s/nested/%d" % (seed, pid, i)) for i in range(max(21, n // 5))]
    cases += [redeclare_case("%d/%s/redecl/%d" % (seed, pid, i)) for i in range(max(15, n // 8))]
    plan = fault_plan(pid, tier, seed, max(1, n // 60))
    cases += [fault_case(s, f, pk, d) for s, f, pk, d in plan]
    stats["generated"] += len(cases)
    evaluate(cases, workdir)
    samples = []
    distinct = set()
    invalid_texts = []
    for c in cases:
        ok = corr_check(pid, c, rep, stats)
        why = mon_C16(c)
        # the model's prediction of the exception is part of the correspondence; the guard
        # crash_free must hold whenever the implementation does not raise ... and fail when it does
        if not c["shapes"]["from_grammar"]:
            # theorem C16_always_a_verdict assumes the grammar's AST shape; the generators only
            # produce such ASTs
            rep.violation(payload(pid, c, "machinery", "generated AST is not of the grammar's shape"),
                          "no-failing-input-found")
            continue
        if why:
            fid = attribute(known, c["shapes"], CRASH_SHAPES)
            if fid:
                stats["known:" + fid] += 1
            else:
                rep.violation(payload(pid, c, "C16", why))
        elif ok:
            stats["agree"] += 1
            distinct.add(c["text"])
            if c["impl"]["valid"] is False:
                invalid_texts.append(c)
    # (2) invalid programs cannot be started
    for c in invalid_texts[: max(40, n // 2)]:
        stats["invalid_start_checked"] += 1
        w = no_order_for_invalid(c["text"])
        if w:
            rep.violation(payload(pid, c, "C16-start", w))
    # (3) fuzz stream (monitor only)
    rng = random.Random("%d/%s/fuzz" % (seed, pid))
    bases = [c["text"] for c in cases[: max(20, n // 4)]]
    items = fuzz_texts(rng, bases, cfg[tier + "_fuzz"])
    stats["generated"] += len(items)
    with ProcessPoolExecutor(max_workers=14, initializer=_init_worker, initargs=(workdir,)) as ex:
        results = list(ex.map(_fuzz_one, items, chunksize=16))
    # exceptions raised by the checker on a syntactically valid fuzz text: the text is read back
    # into an AST through the implementation's own front end, the model and the shape predicates
    # are evaluated on it; attributed only if the model predicts the same exception class and the
    # crash shape holds
    crashed = [(i, r) for i, r in enumerate(results) if r.get("prog") is not None]
    models = {}
    if crashed:
        ms = check_core.model_eval([r["prog"] for _, r in crashed], workdir, extra=EXTRA, header=HEADER, tag="fuzzchk")
        models = {i: m for (i, _), m in zip(crashed, ms)}
    for i, ((kind, text), r) in enumerate(zip(items, results)):
        stats["fuzz:" + kind] += 1
        stats["fuzz_verdict:" + str(r["valid"])] += 1
        if r["why"]:
            fid = None
            if r["why"].startswith("exception") and i in models:
                m = models[i]
                if m["status"] == "exn" and m["exn"] == r["exc"]:
                    fid = attribute(known, shapes_of(m), CRASH_SHAPES)
                    stats["fuzz_exception_predicted_by_model"] += 1
            if fid:
                stats["known:" + fid] += 1
            else:
                rep.violation({"property": pid, "kind": "check", "mode": "fuzz", "text": text, "why": r["why"],
                               "fuzz_kind": kind, "front_exc": r.get("front_exc"),
                               "model": models.get(i)})
        else:
            stats["fuzz_ok"] += 1
    if len(samples) < 2:
        samples.append({"fuzz_inputs": len(items), "example": items[0][1][:200] if items else ""})
    stats["_distinct"] = distinct
    return samples


# ---- C09 -----------------------------------------------------------------------------
def to_impl_value(v, whole_as_float=False):
    """whole_as_float: an execution engine that reads JSON may deliver the number 3 as 3.0"""
    from fractions import Fraction
    from pfdl_scheduler.model.struct import Struct
    from pfdl_scheduler.model.array import Array
    if isinstance(v, bool):
        return v
    if isinstance(v, Fraction):
        return (float(v) if whole_as_float else int(v)) if v.denominator == 1 else float(v)
    if isinstance(v, tuple):
        return v[1]
    if isinstance(v, list):
        return Array(values=[to_impl_value(x, whole_as_float) for x in v])
    return Struct(attributes={k: to_impl_value(x, whole_as_float) for k, x in v.items()})


def _fixed_value(v):
    """JSON-able value of a witness / generated case -> what an execution engine hands over"""
    from pfdl_scheduler.model.struct import Struct
    from pfdl_scheduler.model.array import Array
    if isinstance(v, dict):
        return Struct(attributes={k: _fixed_value(x) for k, x in v.items()})
    if isinstance(v, list):
        return Array(values=[_fixed_value(x) for x in v])
    return v


def drive_accepted(text, prog, seed_str, max_calls=300, values=None):
    """construct, start and drive to the end with well-typed values and a random completion
    order; at most max_calls completions (an order that is not finished by then "does not
    complete").  values: optional {task name: {variable: value}} that overrides the random
    well-typed values.  -> dict(exc, where, completed, calls)"""
    import contextlib
    import io
    from pfdl_scheduler.scheduler import Scheduler
    from pfdl_scheduler.scheduling.event import Event
    rng = random.Random(seed_str)
    floats = random.Random("floats/" + str(seed_str)).random() < 0.3    # this engine delivers whole numbers as floats
    vt = gen_check.var_types(prog)
    sdef = {s["name"]: dict(s["attrs"]) for s in prog["structs"]}
    state = {"queries": 0}
    pending = []
    res = {"exc": None, "where": None, "completed": False, "calls": 0}

    def var(name, ctx):
        state["queries"] += 1
        if values and name in values.get(ctx.task.name, {}):
            return _fixed_value(values[ctx.task.name][name])
        t = vt.get(ctx.task.name, {}).get(name)
        final = state["queries"] > 40
        if t is None:
            t = ("plain", "number")
        try:
            return to_impl_value(gen_check.value_for(t, sdef, rng, final=final), whole_as_float=floats)
        except KeyError:
            return to_impl_value(gen_check.Fraction(0))

    def on_ss(api):
        pending.append(api.uuid)

    buf = io.StringIO()
    with contextlib.redirect_stdout(buf):
        try:
            s = Scheduler(text, True, False)
        except RecursionError:
            res.update(exc="RecursionError", where="construct")
            return res
        except Exception as e:  # noqa: BLE001
            res.update(exc=type(e).__name__, where="construct", tb=traceback.format_exc(limit=4))
            return res
        if not s.pfdl_file_valid:
            res["where"] = "invalid"
            return res
        s.register_callback_service_started(on_ss)
        s.register_variable_access_function(var)
        try:
            if s.start() is not True:
                res.update(exc="start-returned-false", where="start")
                return res
            while pending and res["calls"] < max_calls:
                u = pending.pop(rng.randrange(len(pending)))
                res["calls"] += 1
                ok = s.fire_event(Event("service_finished", {"service_uuid": u}))
                if not ok:
                    res.update(exc="completion-rejected", where="fire_event")
                    return res
        except RecursionError:
            res.update(exc="RecursionError", where="run")
            return res
        except Exception as e:  # noqa: BLE001
            res.update(exc=type(e).__name__, where="run", tb=traceback.format_exc(limit=4))
            return res
        g = s.petri_net_generator
        marking = s.petri_net_logic.petri_net.get_marking()
        res["completed"] = (not pending and len(marking) == 1 and g.task_finished_uuid in marking)
        res["stalled"] = bool(pending)
    return res


def _drive_one(args):
    text, prog, seed_str, values, max_calls = args
    try:
        return drive_accepted(text, prog, seed_str, max_calls=max_calls, values=values)
    except Exception as e:  # noqa: BLE001
        return {"exc": "harness:" + type(e).__name__, "where": "harness", "completed": False, "calls": 0,
                "tb": traceback.format_exc(limit=6)}


def has_division_in_guard(prog):
    """shape predicate of finding D18: some While guard or Condition contains a division"""
    def has_div(e):
        k = e[0]
        if k == "bin":
            return e[1] == "/" or has_div(e[2]) or has_div(e[3])
        if k in ("not", "paren"):
            return has_div(e[1])
        return False

    def walk(ss):
        for s in ss:
            if s[0] == "while" and (has_div(s[1]) or walk(s[2])):
                return True
            if s[0] == "count" and walk(s[4]):
                return True
            if s[0] == "cond" and (has_div(s[1]) or walk(s[2]) or walk(s[3])):
                return True
        return False
    return any(walk(t["body"]) for t in prog["tasks"])


DATA_STRUCT = {"name": "Data", "attrs": [("count", ("plain", "number")), ("ratio", ("plain", "number")),
                                         ("flag", ("plain", "boolean"))]}


def div_zero_case(seed_str):
    """an accepted program whose guard divides by a value that is 0 at run time (finding D18):
    variable divisor with the supplied value 0, or the literal divisor 0; Condition or While;
    in productionTask or in a called task"""
    from fractions import Fraction
    rng = random.Random(seed_str)
    P = faults.P
    divisor = rng.choice([P("d", "count"), P("d", "count"), ("num", Fraction(0)),
                          ("paren", ("bin", "-", P("d", "count"), P("d", "count")))])
    guard = ("bin", rng.choice(["<", ">=", "=="]), ("bin", "/", P("d", "ratio"), divisor), ("num", Fraction(1)))
    if rng.random() < 0.3:
        guard = ("bin", "And", P("d", "flag"), ("paren", guard))
    decl = ("service", "S1", [], [("d", ("plain", "Data"))])
    if rng.random() < 0.6:
        st = ("cond", guard, [("service", "S2", [], [])], [("service", "S3", [], [])])
    else:
        st = ("while", guard, [("service", "S2", [], [])])
    body = [decl, st]
    tname = "productionTask"
    tasks = [{"name": "productionTask", "ins": [], "body": body, "outs": []}]
    if rng.random() < 0.4:
        tname = "checkTask"
        tasks = [{"name": "productionTask", "ins": [], "body": [("call", "checkTask", [], [])], "outs": []},
                 {"name": "checkTask", "ins": [], "body": body, "outs": []}]
    prog = {"structs": [dict(DATA_STRUCT)], "tasks": tasks}
    lm = {}
    text = gen_check.render(prog, None, lm)
    return {"prog": prog, "text": text, "lm": lm,
            "meta": {"family": "div-zero", "seed": seed_str,
                     "values": {tname: {"d": {"count": 0, "ratio": 1.5, "flag": True}}}}}


def same_variable_loops_cases():
    """deterministic: counting loops nested in one task that use the SAME counting variable"""
    P = faults.P
    q = ("service", "Sq", [], [("q", faults.FQ)])
    call = ("call",) + faults.GOOD_CALL
    svc = ("service", "Sin", [P("q", "items", "@i")], [])
    shapes = {
        "seq_seq": [("count", False, "i", ("int", 2), [("count", False, "i", ("int", 3), [svc])])],
        "seq_seq_same_header": [("count", False, "i", ("int", 2), [("count", False, "i", ("int", 2), [svc]),
                                                                     ("service", "Safter", [P("q", "items", "@i")], [])])],
        "seq_par": [("count", False, "i", ("int", 2), [("count", True, "i", ("int", 2), [call])])],
        "seq_par_then_service": [("count", False, "i", ("int", 3), [("count", True, "i", ("int", 2), [call]),
                                                                      ("service", "Safter", [], [])])],
        "three": [("count", False, "i", ("int", 2), [("count", False, "i", ("int", 2), [("count", False, "i", ("int", 2), [svc])])])],
        "three_mixed": [("count", False, "i", ("int", 2),
                         [("count", False, "i", ("int", 2), [("count", True, "i", ("int", 2), [call]), svc])])],
        "seq_seq_limit_path": [("count", False, "i", ("int", 2), [("count", False, "i", ("path", "q", [("f", "count")]), [svc])])],
    }
    out = []
    for name, stmts in shapes.items():
        for in_called in (False, True):
            body = [q] + gen_check.clone(stmts)
            tasks = [{"name": "productionTask", "ins": [], "body": body, "outs": []}]
            if in_called:
                tasks = [{"name": "productionTask", "ins": [], "body": [("call", "tloops", [], [])], "outs": []},
                         {"name": "tloops", "ins": [], "body": body, "outs": []}]
            prog = {"structs": [dict(x) for x in faults.SUPPORT_STRUCTS], "tasks": tasks + [gen_check.clone(faults.SUPPORT_TASK)]}
            lm = {}
            text = gen_check.render(prog, None, lm)
            out.append({"prog": prog, "text": text, "lm": lm,
                        "meta": {"family": "nesting", "container": "same-variable-loops", "inner": name,
                                 "max_calls": 200, "seed": "same-variable/%s/%d" % (name, in_called)}})
    return out


def near_valid_case(seed_str):
    """near-valid variants: self / mutual recursion, zero limits, undeclared limit variables"""
    rng = random.Random(seed_str)
    which = rng.choice(["F19a", "F19b", "F19c", "F19d", "F19e", "F19f", "F19g", "F19e", "F19f", "zero_limit", "F04e", "F05d",
                        "F18f", "zero_parloop", "F18ad", "F18ae", "F18af", "F18ag"])
    if which in ("zero_limit", "zero_parloop"):
        prog = faults.with_support(gen_check.WGen(rng, gen_check.Config(runtime_safe=True)).gen_program())
        prod = next(t for t in prog["tasks"] if t["name"] == "productionTask")
        q = ("service", "Sq", [], [("q", faults.FQ)])
        if which == "zero_limit":
            s = ("count", False, "z", ("int", 0), [("service", "Sz", [], [])])
        else:
            s = ("count", True, "z", ("int", 0), [("call",) + faults.GOOD_CALL])
        at = rng.randrange(len(prod["body"]) + 1)
        prod["body"][at:at] = [q, s]
        lm = {}
        text = gen_check.render(prog, None, lm)
        return {"prog": prog, "text": text, "lm": lm, "meta": {"family": "near-valid", "which": which, "seed": seed_str}}
    c = fault_case(seed_str, which, rng.choice(["prod_last", "new_called"]), rng.randint(0, 1))
    c["meta"]["family"] = "near-valid"
    c["meta"]["which"] = which
    return c


# ---- guards evaluated at run time: the branch taken is the arithmetic / logical value ---------
def _eval_guard(e, val):
    from fractions import Fraction
    k = e[0]
    if k == "num":
        return Fraction(e[1])
    if k == "bool":
        return e[1]
    if k == "path":
        return val
    if k == "not":
        return not _eval_guard(e[1], val)
    if k == "paren":
        return _eval_guard(e[1], val)
    a, b = _eval_guard(e[2], val), _eval_guard(e[3], val)
    return {"<": lambda: a < b, "<=": lambda: a <= b, ">": lambda: a > b, ">=": lambda: a >= b,
            "==": lambda: a == b, "!=": lambda: a != b, "And": lambda: bool(a and b), "Or": lambda: bool(a or b),
            "+": lambda: a + b, "-": lambda: a - b, "*": lambda: a * b, "/": lambda: a / b}[e[1]]()


def guard_branch_case(seed_str):
    """two tasks use the SAME variable and attribute spelling for a boolean and for a number; both
    read it in a Condition whose branches start different services; the values handed out by the
    execution engine are chosen here, so the branch each Condition has to take is known"""
    from fractions import Fraction
    rng = random.Random(seed_str)
    var = rng.choice(["s", "r", "state"])
    attr = rng.choice(["level", "val", "ok"])
    nested = rng.random() < 0.3
    pth = ("path", var, ([("f", "inner")] if nested else []) + [("f", attr)])
    bool_guards = [pth, ("not", pth), ("bin", "==", pth, ("bool", True)), ("bin", "And", pth, ("bool", True)),
                   ("bin", "Or", ("bool", False), pth)]
    num_guards = [("bin", ">", pth, ("num", Fraction(1))),
                  ("bin", "<=", ("bin", "-", ("bin", "*", pth, ("num", Fraction(2))), ("num", Fraction(1))), ("num", Fraction(0))),
                  ("bin", "==", pth, ("num", Fraction(1, 2))), ("bin", ">=", ("bin", "+", pth, ("num", Fraction(1))), ("num", Fraction(3))),
                  ("bin", "!=", pth, ("num", Fraction(1))), ("bin", "<", pth, ("num", Fraction(0)))]
    gb = gen_check.fix_parens(rng.choice(bool_guards))
    gn = gen_check.fix_parens(rng.choice(num_guards))
    vb = rng.random() < 0.5
    vn = rng.choice([Fraction(0), Fraction(1), Fraction(-1), Fraction(1, 2), Fraction(2), Fraction(3)])
    NUM, BOOL = ("plain", "number"), ("plain", "boolean")
    structs = [{"name": "Flags", "attrs": [(attr, BOOL)]}, {"name": "Tank", "attrs": [(attr, NUM)]}]
    tb, tn = "Flags", "Tank"
    if nested:
        structs += [{"name": "WFlags", "attrs": [("inner", ("plain", "Flags"))]},
                    {"name": "WTank", "attrs": [("inner", ("plain", "Tank"))]}]
        tb, tn = "WFlags", "WTank"

    def task(name, sname, guard, yes, no):
        return {"name": name, "ins": [], "outs": [],
                "body": [("service", "Read" + name, [], [(var, ("plain", sname))]),
                         ("cond", guard, [("service", yes, [], [])], [("service", no, [], [])])]}
    order = ["checkFlags", "checkTank"]
    if rng.random() < 0.35:
        order.reverse()
    prog = {"structs": structs,
            "tasks": [{"name": "productionTask", "ins": [], "outs": [], "body": [("call", t, [], []) for t in order]},
                      task("checkFlags", tb, gb, "FlagsYes", "FlagsNo"), task("checkTank", tn, gn, "TankYes", "TankNo")]}
    lm = {}
    text = gen_check.render(prog, None, lm)
    spelling = rng.choice(["plain", "plain", "zeros"])
    if spelling == "zeros":
        # INTEGER: [0-9]+ and FLOAT: INTEGER '.' INTEGER admit leading zeros: 01, 007, 00.5 denote 1, 7, 0.5
        # (the program contains no digits outside the guards)
        pad = rng.choice(["0", "00"])
        text = re.sub(r"(?<![\w.])(\d+(?:\.\d+)?)", lambda m: pad + m.group(1), text)
    expect = sorted(["FlagsYes" if _eval_guard(gb, vb) else "FlagsNo", "TankYes" if _eval_guard(gn, vn) else "TankNo"])
    return {"prog": prog, "text": text, "lm": lm,
            "meta": {"family": "guard-branch", "seed": seed_str, "expect": expect, "attr": attr, "nested": nested,
                     "spelling": spelling,
                     "values": {"checkFlags": vb, "checkTank": [vn.numerator, vn.denominator]}}}


def drive_guard_branch(args):
    """-> dict(exc, branches): the Yes/No services that were started"""
    text, meta = args
    import contextlib
    import io
    from fractions import Fraction
    from pfdl_scheduler.scheduler import Scheduler
    from pfdl_scheduler.scheduling.event import Event
    from pfdl_scheduler.model.struct import Struct
    started, pending = [], []
    vals = meta["values"]

    def var(name, ctx):
        v = vals[ctx.task.name]
        if isinstance(v, list):
            q = Fraction(v[0], v[1])
            v = int(q) if q.denominator == 1 else float(q)
        leaf = Struct(attributes={meta["attr"]: v})
        return Struct(attributes={"inner": leaf}) if meta["nested"] else leaf

    def on_ss(api):
        started.append(api.service.name)
        pending.append(api.uuid)
    try:
        with contextlib.redirect_stdout(io.StringIO()):
            s = Scheduler(text, True, False)
            if not s.pfdl_file_valid:
                return {"exc": "invalid", "branches": []}
            s.register_callback_service_started(on_ss)
            s.register_variable_access_function(var)
            s.start()
            n = 0
            while pending and n < 50:
                n += 1
                s.fire_event(Event("service_finished", {"service_uuid": pending.pop(0)}))
    except Exception as e:  # noqa: BLE001
        return {"exc": type(e).__name__, "branches": sorted(x for x in started if x.endswith(("Yes", "No")))}
    return {"exc": None, "branches": sorted(x for x in started if x.endswith(("Yes", "No")))}


def long_while_case(seed_str):
    """one activation of a While loop whose guard stays true for `passes` evaluations (one service per
    pass) and is false afterwards: exactly `passes` passes, then the statement after the loop"""
    from fractions import Fraction
    rng = random.Random(seed_str)
    passes = rng.choice([65, 66, 70, 97, 128, 150])
    form = rng.choice(["lt", "sum", "ne"])
    P = faults.P
    N = ("num", Fraction(passes))
    guard = {"lt": ("bin", "<", P("x", "done"), N),
             "sum": ("bin", "<=", ("bin", "+", P("x", "done"), ("num", Fraction(1))), P("x", "wanted")),
             "ne": ("bin", "!=", P("x", "done"), N)}[form]
    NUM = ("plain", "number")
    prog = {"structs": [{"name": "Progress", "attrs": [("done", NUM), ("wanted", NUM)]}],
            "tasks": [{"name": "productionTask", "ins": [], "outs": [],
                       "body": [("service", "Begin", [], [("x", ("plain", "Progress"))]),
                                ("while", guard, [("service", "Step", [], [("x", ("plain", "Progress"))])]),
                                ("service", "After", [], [])]}]}
    lm = {}
    text = gen_check.render(prog, None, lm)
    return {"prog": prog, "text": text, "lm": lm,
            "meta": {"family": "long-while", "seed": seed_str, "passes": passes, "form": form}}


def drive_long_while(args):
    """-> dict(exc, steps, after): how often the body ran, whether the statement after the loop started"""
    text, meta = args
    import contextlib
    import io
    from pfdl_scheduler.scheduler import Scheduler
    from pfdl_scheduler.scheduling.event import Event
    from pfdl_scheduler.model.struct import Struct
    started, pending, finished = [], [], []

    def var(name, ctx):
        return Struct(attributes={"done": finished.count("Step"), "wanted": meta["passes"]})

    def on_ss(api):
        started.append(api.service.name)
        pending.append((api.uuid, api.service.name))
    try:
        with contextlib.redirect_stdout(io.StringIO()):
            s = Scheduler(text, True, False)
            if not s.pfdl_file_valid:
                return {"exc": "invalid", "steps": 0, "after": 0}
            s.register_callback_service_started(on_ss)
            s.register_variable_access_function(var)
            s.start()
            n = 0
            while pending and n < 400:
                n += 1
                u, name = pending.pop(0)
                finished.append(name)
                s.fire_event(Event("service_finished", {"service_uuid": u}))
    except Exception as e:  # noqa: BLE001
        return {"exc": type(e).__name__, "steps": started.count("Step"), "after": started.count("After")}
    return {"exc": None, "steps": started.count("Step"), "after": started.count("After")}


def guard_branch_slice(pid, n, seed, workdir, rep, stats):
    """usable from any property's slice (C09 here; C13 can call it the same way): returns nothing,
    records violations through rep"""
    cases = [guard_branch_case("%d/%s/branch/%d" % (seed, pid, i)) for i in range(n)]
    with ProcessPoolExecutor(max_workers=8, initializer=_init_worker, initargs=(workdir,)) as ex:
        results = list(ex.map(drive_guard_branch, [(c["text"], c["meta"]) for c in cases], chunksize=4))
    for c, r in zip(cases, results):
        stats["generated"] += 1
        stats["family:guard-branch"] += 1
        if r["exc"] is not None or r["branches"] != c["meta"]["expect"]:
            p = payload(pid, c, "C13-branch", "branches taken %s, arithmetic/logical value of the guards says %s (%s)"
                        % (r["branches"], c["meta"]["expect"], r["exc"]))
            rep.violation(p)
        else:
            stats["branch_as_expected"] += 1
    lw = [long_while_case("%d/%s/longwhile/%d" % (seed, pid, i)) for i in range(max(2, n // 15))]
    with ProcessPoolExecutor(max_workers=4, initializer=_init_worker, initargs=(workdir,)) as ex:
        results = list(ex.map(drive_long_while, [(c["text"], c["meta"]) for c in lw]))
    for c, r in zip(lw, results):
        stats["generated"] += 1
        stats["family:long-while"] += 1
        if r["exc"] is not None or r["steps"] != c["meta"]["passes"] or r["after"] != 1:
            rep.violation(payload(pid, c, "C13-long-while",
                                  "the loop body ran %d times and the statement after the loop started %d times; the guard "
                                  "is true for exactly %d evaluations (%s)" % (r["steps"], r["after"], c["meta"]["passes"], r["exc"])))
        else:
            stats["while_passes_as_expected"] += 1


RUN_SHAPES = [("D12b-guard-type-unchecked", "sh_bad_guard", True)]


def slice_C09(pid, cfg, tier, seed, workdir, rep, stats, findings):
    known = {f["id"] for f in findings if f["status"] == "known"}
    n = cfg[tier]
    rs = gen_check.Config(runtime_safe=True)
    cases = [wf_case("%d/%s/wf/%d" % (seed, pid, i), cfg=rs) for i in range(n)]
    cases += [near_valid_case("%d/%s/near/%d" % (seed, pid, i)) for i in range(max(18, n // 3))]
    # near-valid: indexed array paths in guards and limits (the scheduler cannot evaluate them)
    for i, f in enumerate(sorted(faults.WF_BUT_REJECTED) * max(2, n // 60)):
        cases.append(fault_case("%d/%s/idx/%s/%d" % (seed, pid, f, i), f, faults.POS_KINDS[i % len(faults.POS_KINDS)], i % 3))
    for rnd in range(max(1, n // 240)):
        cases += [nesting_case(co, inn, "%d/%s/nest/%s/%s/%d" % (seed, pid, co, inn, rnd))
                  for co in CONTAINERS for inn in INNER]
    cases += same_variable_loops_cases()
    cases += [div_zero_case("%d/%s/div0/%d" % (seed, pid, i)) for i in range(max(6, n // 40))]
    cases += [fault_case(s, f, pk, d) for s, f, pk, d in fault_plan(pid, tier, seed, max(1, n // 80))]
    stats["generated"] += len(cases)
    evaluate(cases, workdir)
    accepted = []
    for c in cases:
        corr_check(pid, c, rep, stats)
        if c["impl"]["exc"] is None and c["impl"]["valid"] is True:
            accepted.append(c)
        else:
            stats["not_accepted"] += 1
    stats["accepted"] += len(accepted)
    with ProcessPoolExecutor(max_workers=14, initializer=_init_worker, initargs=(workdir,)) as ex:
        results = list(ex.map(_drive_one, [(c["text"], c["prog"], c["meta"].get("seed", ""), c["meta"].get("values"),
                                            c["meta"].get("max_calls", 300)) for c in accepted], chunksize=4))
    samples = []
    distinct = set()
    for c, r in zip(accepted, results):
        stats["family:" + c["meta"]["family"]] += 1
        stats["calls_total"] += r["calls"]
        bad = r["exc"] is not None or not r["completed"]
        if bad:
            why = ("%s at %s" % (r["exc"], r["where"])) if r["exc"] else "order did not complete"
            fid = attribute(known, c["shapes"], RUN_SHAPES)
            if (r["exc"] == "ZeroDivisionError" and "D18-division-by-zero-escapes" in known
                    and has_division_in_guard(c["prog"])):
                fid = "D18-division-by-zero-escapes"
            if fid:
                stats["known:" + fid] += 1
            else:
                p = payload(pid, c, "C09", why)
                p["run"] = {k: v for k, v in r.items()}
                rep.violation(p)
        else:
            stats["agree"] += 1
            stats["completed"] += 1
            distinct.add(c["text"])
            if len(samples) < 3 and r["calls"] > 3:
                samples.append({"program": c["text"], "completions": r["calls"], "result": "order completed"})
    # guards over values of the execution engine: same spelling, different types in two tasks
    guard_branch_slice(pid, max(24, n // 4), seed, workdir, rep, stats)
    stats["_distinct"] = distinct
    return samples


SLICES = {"C09": slice_C09, "C10": slice_C10, "C11": slice_C11, "C16": slice_C16, "C19": slice_C19}


def check_slice(pid, cfg, tier, seed, workdir, rep, stats, findings):
    return SLICES[pid](pid, cfg, tier, seed, workdir, rep, stats, findings)


# --------------------------------------------------------------------------------------
# replay (also used for the corpus and the known-finding witnesses)
# --------------------------------------------------------------------------------------
def replay(pid, cfg, p, workdir):
    mode = p.get("mode", "program")
    if mode == "fuzz":
        r = _fuzz_one((p.get("fuzz_kind", "replay"), p["text"]))
        return {"fails": bool(r["why"]), "why": r["why"] or "monitor holds"}
    c = {"prog": p["prog"], "text": p["program_text"], "lm": lm_from_payload(p), "meta": p.get("meta", {})}
    mon = (p.get("monitors") or {}).get(pid) or p.get("monitor")
    if mon == "C13-branch":      # a run-time monitor: no validator model involved
        r = drive_guard_branch((c["text"], c["meta"]))
        bad = r["exc"] is not None or r["branches"] != c["meta"]["expect"]
        return {"fails": bad, "why": str(r)}
    if mon == "C13-long-while":
        r = drive_long_while((c["text"], c["meta"]))
        bad = r["exc"] is not None or r["steps"] != c["meta"]["passes"] or r["after"] != 1
        return {"fails": bad, "why": str(r)}
    evaluate([c], workdir, tag="replay")
    if c["diff"] and c["model"]["status"] not in ("fuel", "unsupported"):
        return {"fails": True, "why": "correspondence: " + c["diff"]}
    if mon == "C09":
        r = drive_accepted(c["text"], c["prog"], c["meta"].get("seed", ""), values=c["meta"].get("values"),
                           max_calls=c["meta"].get("max_calls", 300))
        bad = r["where"] != "invalid" and (r["exc"] is not None or not r["completed"])
        return {"fails": bad, "why": str({k: v for k, v in r.items() if k != "tb"})}
    if mon == "C13-branch":
        r = drive_guard_branch((c["text"], c["meta"]))
        bad = r["exc"] is not None or r["branches"] != c["meta"]["expect"]
        return {"fails": bad, "why": str(r)}
    if mon == "C16-start":
        w = no_order_for_invalid(c["text"])
        return {"fails": bool(w), "why": w or "monitor holds"}
    f = {"C10": mon_C10, "C11": mon_C11, "C16": mon_C16, "C19": mon_C19}.get(mon)
    if f is None:
        f = {"C10": mon_C10, "C11": mon_C11, "C16": mon_C16, "C19": mon_C19}.get(pid, mon_C16)
    w = f(c)
    return {"fails": bool(w), "why": w or "monitor holds"}


KIND = {"check": {"slice": check_slice, "replay": replay,
                  "rule": "typed random generation of the well-formed family (gen_check.WGen: structs with "
                          "number/boolean/string, nested structs, fixed and dynamic arrays; tasks with typed inputs and "
                          "outputs; all statement kinds to nesting depth 4; parameters mixing variables, attribute paths, "
                          "array elements and struct literals; expressions over the 12 operators), each program certified "
                          "by the Gallina decision procedure wf_dec inside coqc; single-fault mutants for every class of "
                          "the fault catalogue x position kind x nesting depth 0..3 (harness/faults.py); permutations of "
                          "the definitions; layout variants that shift lines; for C16 a fuzz stream of arbitrary strings. "
                          "Every program is run through parse_string in the console and the editor-extension format and "
                          "through CheckModel.validate (vm_compute); exception class, verdict and the multiset of "
                          "(message kind, line) are compared. non-trivial = compared and in agreement; distinct = "
                          "distinct program texts among those"}}
