"""C18 — the same program, values and completion order under every configuration:
program as text / as file path, drawing on / off, test ids / UUIDs, observers attached or
not, other scheduler instances created and driven in between, events of one scheduler sent
to another; repeated runs.  Notification sequences are compared after first-occurrence
renaming of identifiers.  The baseline run is also judged against both Coq models."""
import os
import zlib
import random

import gen_run
import impl_run
import props
import run_cases
from pfdl_ast import render


def norm(trace):
    """per call: return value, notifications to function 0 (kind, name, site, renamed id,
    renamed context, parameters), oracle queries, running, final, number awaited"""
    ren = {"t": {}, "s": {}}

    def rid(k, i):
        if i is None:
            return None
        tab = ren[k]
        return tab.setdefault(i, len(tab))
    out = []
    for r in trace:
        ents = []
        for e in r["log"]:
            if e[0] == "notif" and e[1] == 0:
                k = "t" if e[2] in ("TS", "TF") else "s"
                ents.append((e[2], e[3], e[4], rid(k, e[5]), rid("t", e[6]), repr(e[7]), e[8]))
            elif e[0] == "query":
                ents.append(("q", e[1], rid("t", e[2])))
        out.append((r["ret"], tuple(ents), r["running"], r["final"], len(r["awaited"])))
    return out


OTHER_PROGRAM = {"structs": [dict(s) for s in gen_run.STRUCTS], "tasks": [
    {"name": "productionTask", "ins": [], "outs": [], "body": [
        ("service", "B1", [], [("d", ("plain", "Data"))]),
        ("parallel", [("tb", [], []), ("tb", [], [])]),
        ("count", False, "i", ("int", 2), [("service", "B2", [], [])])]},
    {"name": "tb", "ins": [], "outs": [], "body": [("service", "B3", [], [])]}]}


class Variant:
    def __init__(self, name, path=False, uuid=False, observers=False, draw=False, other=False, tabs=False):
        self.name, self.path, self.uuid, self.observers, self.draw, self.other = name, path, uuid, observers, draw, other
        self.tabs = tabs      # a stray tab after the indentation of some lines (insignificant layout)


VARIANTS = [Variant("repeat"), Variant("path", path=True), Variant("uuid", uuid=True),
            Variant("observers", observers=True), Variant("other", other=True),
            Variant("other_uuid", other=True, uuid=True),
            Variant("tabs_text", tabs=True), Variant("tabs_path", tabs=True, path=True),
            Variant("all", path=True, uuid=True, observers=True, other=True)]
DRAW_VARIANTS = [Variant("draw", draw=True), Variant("draw_all", path=True, uuid=True, observers=True, draw=True)]


def run_variant(case, script, v, workdir, tag):
    """replay the baseline's script under configuration v; returns (trace, notes)"""
    text = render(case["prog"])
    if v.tabs:
        rng = random.Random(len(text))
        lines = text.split("\n")
        for k, ln in enumerate(lines):
            st = ln.lstrip(" ")
            if st and len(ln) > len(st) and rng.random() < 0.4:
                lines[k] = ln[:len(ln) - len(st)] + "\t" + st
        text = "\n".join(lines)
    if not v.path and zlib.crc32(text.encode()) % 2 == 0:
        # a program passed as TEXT may end in anything, e.g. a comment naming the file it came from
        text = text.rstrip("\n") + "\n# exported from orders/cabinet_door.pfdl\n"
    prog_arg = text
    if v.path:
        # every program of the run is written to the SAME path, and the file keeps one (old)
        # modification time: an order template copied over "the current order" (cp -p); what is
        # scheduled must be what the file contains now, not what an earlier scheduler read there
        p = os.path.join(workdir, "current_order.pfdl")
        with open(p, "w") as f:
            f.write(render(OTHER_PROGRAM))
        os.utime(p, (1000000000, 1000000000))
        impl_run.ImplRun(p, [gen_run.FINAL_VALUATION], [], test_ids=not v.uuid)   # an earlier order read from that path
        with open(p, "w") as f:
            f.write(text)
        os.utime(p, (1000000000, 1000000000))
        prog_arg = p
    notes = []
    other = None
    if v.other:
        # somebody else's REJECTED order, validated in this process just before: a program nested
        # far too deeply (answered invalid); it must leave no trace for the next validation
        import contextlib
        import io
        from pfdl_scheduler.utils.parsing_utils import parse_string
        with contextlib.redirect_stdout(io.StringIO()):
            try:
                parse_string("Task productionTask\n    Loop While " + "(" * 3000 + "true" + ")" * 3000
                             + "\n        Move\nEnd\n")
            except Exception:  # noqa: BLE001
                pass          # judged by the C16 check
        other = impl_run.ImplRun(render(OTHER_PROGRAM), [gen_run.FINAL_VALUATION], [], test_ids=not v.uuid)
    run = impl_run.ImplRun(prog_arg, case["vals"], case["imm"], test_ids=not v.uuid, draw=v.draw,
                           scheduler_uuid="sched-%s" % tag, react=case.get("react"),
                           react_all=bool(case.get("react_all")))
    if not run.valid:
        return None, ["rejected: " + run.stdout[:200]]
    other2 = None
    if v.other:
        other2 = impl_run.ImplRun(render(OTHER_PROGRAM), [gen_run.FINAL_VALUATION], [], test_ids=not v.uuid)
    if v.observers:
        run.call(("attach", 0))
        run.call(("attach", 1))
    trace = []
    opend = []

    other_log = {}

    def drive_other(o):
        if o is None:
            return
        if not o.s.running and not opend_started.get(id(o)):
            opend_started[id(o)] = True
            op = ("start",)
        elif o.pending:
            op = ("finish", o.pending[0])
        else:
            return
        other_log.setdefault(id(o), []).append((op, o.call(op)))
    opend_started = {}
    for op in script:
        drive_other(other)
        if v.other and v.uuid:
            # an event addressed to one scheduler must not affect another
            for o in (other, other2):
                for sid in list(o.pending)[:1]:
                    ev = impl_run.Event("service_finished", {"service_uuid": o.uuid_of_sid[sid]})
                    if run.s.fire_event(ev):
                        notes.append("scheduler accepted an event addressed to another scheduler")
            for sid in list(run.pending)[:1]:
                ev = impl_run.Event("service_finished", {"service_uuid": run.uuid_of_sid[sid]})
                for o in (other, other2):
                    if o.s.fire_event(ev):
                        notes.append("another scheduler accepted this scheduler's event")
            run.entries = []
            run.net_notices = []
        trace.append(run.call(op))
        drive_other(other2)
    # the other instances must have behaved as they do alone
    for o in (other, other2):
        if o is None or id(o) not in other_log:
            continue
        solo = impl_run.ImplRun(render(OTHER_PROGRAM), [gen_run.FINAL_VALUATION], [], test_ids=not v.uuid)
        solo_tr = [solo.call(op) for op, _ in other_log[id(o)]]
        if norm(solo_tr) != norm([r for _, r in other_log[id(o)]]) or o.entries:
            notes.append("another scheduler instance was disturbed (its own run differs from a run alone)")
    return trace, notes


def first_diff(a, b):
    for i, (x, y) in enumerate(zip(a, b)):
        if x != y:
            return i
    return None if len(a) == len(b) else min(len(a), len(b))


def slice_config(pid, cfg, tier, seed, workdir, rep, stats, findings):
    n = cfg[tier]
    profs = cfg["profiles"]
    per = max(1, n // len(profs))
    todo = []
    samples = []
    ndraw = 0
    for pname in profs:
        kw = dict(props.RUN_PROFILES[pname])
        kw.pop("test_ids", None)
        kw.pop("mutate", None)
        prof = gen_run.Profile(**kw)
        for i in range(per):
            rng = random.Random("%d/%s/%s/%d" % (seed, pid, pname, i))
            case = gen_run.gen_case(rng, prof)
            case["options"] = {"test_ids": True, "mutate": False, "profile": pname}
            dr = run_cases.drive(case, rng, prof, test_ids=True)
            stats["generated"] += 1
            if dr["exc"] is not None or not dr["valid"]:
                stats["baseline_failed"] += 1
                rep.violation({"property": pid, "kind": "config", "program_text": dr["text"],
                               "why": "baseline run raised / rejected", "exc": dr["exc"]})
                continue
            base = norm(dr["trace"])
            todo.append((case, dr))
            variants = list(VARIANTS)
            if ndraw < cfg.get("draw_" + tier, 2):
                variants += DRAW_VARIANTS
                ndraw += 1
            ok = True
            for v in variants:
                stats["variant_runs"] += 1
                stats["variant:" + v.name] += 1
                try:
                    tr, notes = run_variant(case, dr["script"], v, workdir, "%s%d%s" % (pname, i, v.name))
                except Exception as e:  # noqa: BLE001
                    tr, notes = None, ["exception " + type(e).__name__ + ": " + str(e)[:200]]
                d = None if tr is None else first_diff(base, norm(tr))
                if tr is None or d is not None or notes:
                    ok = False
                    rep.violation({"property": pid, "kind": "config", "program_text": dr["text"],
                                   "prog": case["prog"], "vals": case["vals"], "imm": case["imm"],
                                   "react": case.get("react"), "react_all": case.get("react_all"),
                                   "script": dr["script"], "variant": v.name, "first_differing_call": d,
                                   "notes": notes})
                    break
            if ok:
                stats["configurations_agree"] += 1
                stats.setdefault("_distinct", set()).add((dr["text"], tuple(map(tuple, dr["script"]))))
                if len(samples) < 2 and len(dr["script"]) > 2:
                    samples.append({"program": dr["text"], "script": dr["script"],
                                    "variants": [v.name for v in variants]})
    # the baseline runs are tied to both models
    verdicts = run_cases.judge_cases(todo, workdir, jobs=16, proj="P_ids", mon="mon_true")
    for (case, dr), v in zip(todo, verdicts):
        w = v["net"]
        stats["compared"] += 1
        if (v["model"] == 0 and v["disagree"] is not None) or (w["model"] == 0 and w["disagree"] is not None):
            rep.violation({"property": pid, "kind": "run", "program_text": dr["text"], "prog": case["prog"],
                           "vals": case["vals"], "imm": case["imm"], "script": dr["script"],
                           "options": case["options"], "verdict": v})
        else:
            stats["agree"] += 1
    return samples


def replay_config(pid, cfg, payload, workdir):
    if payload.get("kind") == "run" or "variant" not in payload:
        import check
        return check.replay_run(pid, dict(cfg, proj="P_ids", mon="mon_true"), payload, workdir)
    case = {"prog": payload["prog"], "vals": payload["vals"], "imm": payload["imm"],
            "react": payload.get("react"), "react_all": payload.get("react_all")}
    script = [tuple(x) for x in payload["script"]]
    base = impl_run.ImplRun(render(case["prog"]), case["vals"], case["imm"], test_ids=True,
                            react=case.get("react"), react_all=bool(case.get("react_all")))
    bt = [base.call(op) for op in script]
    v = [x for x in VARIANTS + DRAW_VARIANTS if x.name == payload["variant"]][0]
    tr, notes = run_variant(case, script, v, workdir, "replay")
    d = None if tr is None else first_diff(norm(bt), norm(tr))
    return {"fails": tr is None or d is not None or bool(notes), "why": "variant %s: first differing call %s %s" % (v.name, d, notes)}


KIND = {"config": {"slice": slice_config, "replay": replay_config,
                   "rule": "typed random generation of valid programs, valuations, immediate-completion bits and completion "
                           "orders (one PRNG state per case); each case is run once as baseline (text, test ids, no drawing, "
                           "no observers, alone) and replayed under every configuration variant (file path, UUIDs, observers, "
                           "other schedulers driven in between incl. cross-addressed events, all combined, repeated; drawing "
                           "for the first few cases); a case is non-trivial when all variants ran to the end and were compared; "
                           "distinct = distinct (program text, script) pairs among those"}}
