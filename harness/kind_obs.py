"""C17 — observers that attach / detach RE-ENTRANTLY, from inside update(), while
Scheduler.notify is iterating over the observer list.

Model: coq/ObsDispatch.v (dispatch_fixed = the loop of scheduler.py: copy of the list and a
membership test at every turn; run_notifs = a sequence of notifications with attach / detach
from outside in between).  Theorems: coq/Properties/C17obs.v.

Per case (one random.Random per case, so a case replays exactly):
  * a generated valid program and completion order (harness/gen_run.py; dry run without
    observers: the notification sequence does not depend on the observers);
  * 2-5 observers attached before start(), further ones attached later; a table
    (observer, notification number) -> attach / detach calls made inside update() on that
    LOG_EVENT entry; attach / detach from outside between API calls.  The generator tracks the
    list (with the semantics of dispatch_fixed), so that no detach names an observer that is
    not attached (list.remove would raise ValueError; outside the model);
  * the real Scheduler is driven with recording observers that perform the table; function 0
    (registered for the four kinds) is the ground truth for the notification sequence;
  * judged twice: (1) the same scenario is printed as a Gallina term and
    `run_notifs dispatch_fixed` is evaluated inside coqc: per notification the observers
    updated (order) and the list at the end must be the same; every entry delivered must name
    the entity and identifier announced to function 0 and carry the order-finished flag exactly
    on the finished notification of productionTask; (2) a monitor over the implementation's
    record alone (no model): nobody is updated after a detach of it has returned, nobody who
    stayed attached is left out, order of attachment is kept, net-updated notices reach the
    attached observers only and carry the scheduler's id."""
import ast
import fcntl
import os
import random
import subprocess
import traceback

import common
import coqeval
import gen_run
import impl_run
import run_cases
from impl_run import LOG_RE, NotificationType, Observer

SIZES = {"quick": 150, "thorough": 3000}
POOL = 7                     # observers are numbered 1..POOL
RUNAWAY = 400                # updates within ONE notification after which the observers stop reacting
HEADER = ("From Coq Require Import List.\nFrom PFDL Require Import ObsDispatch.\nImport ListNotations.\n"
          "Set Printing Depth 100000.\nSet Printing Width 200.\n")
# generator profiles of the programs (notifications are what matters: calls, loops, branches)
PROGRAM_PROFILES = [
    dict(imm=0.0, budget=5, w={"service": 5, "call": 3, "parallel": 2, "count": 2, "while": 1, "cond": 2}),
    dict(imm=0.0, budget=4, max_block=2, w={"service": 5, "call": 2, "parallel": 1, "count": 1, "while": 0, "cond": 1}),
    dict(imm=0.0, budget=6, w={"service": 4, "call": 4, "parallel": 3, "count": 3, "while": 1, "cond": 1}),
]


# --------------------------------------------------------------------------------------
# the three loops in Python (generator, diagnosis); the judge is the Coq model
# --------------------------------------------------------------------------------------
class AbsentDetach(Exception):
    pass


def apply_action(a, cur, strict=False):
    if a[0] == "A":
        cur.append(a[1])
    elif a[1] in cur:
        cur.remove(a[1])
    elif strict:
        raise AbsentDetach(a)


def py_fixed(react, l, strict=False):
    cur, upd = list(l), []
    for o in list(l):
        if o in cur:
            upd.append(o)
            for a in react(o):
                apply_action(a, cur, strict)
    return upd, cur


def py_snapshot(react, l):
    cur, upd = list(l), []
    for o in list(l):
        upd.append(o)
        for a in react(o):
            apply_action(a, cur)
    return upd, cur


def py_live(react, l, fuel=200):
    cur, upd, i = list(l), [], 0
    while i < len(cur) and fuel > 0:
        o = cur[i]
        upd.append(o)
        for a in react(o):
            apply_action(a, cur)
        i += 1
        fuel -= 1
    return upd, cur


def steps_of(ext, counts):
    """the scenario as the model sees it: ext[j] = attach / detach calls made from outside
    before API call j (ext[len(counts)]: after the last one); counts[j] = notifications of call j"""
    steps = []
    for j, n in enumerate(counts):
        steps += [("ext", a) for a in ext[j]] + [("notify",)] * n
    steps += [("ext", a) for a in ext[len(counts)]]
    return steps


def first_absent_detach(ext, counts, table):
    """strict run of dispatch_fixed; location of the first detach of an absent observer"""
    cur, k = [], 0
    for j in range(len(counts) + 1):
        for i, a in enumerate(ext[j]):
            try:
                apply_action(a, cur, True)
            except AbsentDetach:
                return ("ext", j, i)
        for _ in range(counts[j] if j < len(counts) else 0):
            snap = list(cur)
            for o in snap:
                if o in cur:
                    for i, a in enumerate(table.get((o, k), ())):
                        try:
                            apply_action(a, cur, True)
                        except AbsentDetach:
                            return ("tab", (o, k), i)
            k += 1
    return None


# --------------------------------------------------------------------------------------
# generation
# --------------------------------------------------------------------------------------
def gen_reaction(rng, o, cur, ever, kinds):
    """attach / detach calls observer o makes inside one update(); cur = the list at that moment"""
    acts = []
    for _ in range(rng.choice([1, 1, 1, 2, 2, 3])):
        pos = cur.index(o) if o in cur else len(cur)
        earlier = [x for x in cur[:pos] if x != o]
        later = [x for x in cur[pos + 1:] if x != o]
        fresh = [x for x in range(1, POOL + 1) if x not in ever]
        old = [x for x in ever if x not in cur]
        opts = []
        if o in cur:
            opts += [("detach_self", 4), ("detach_reattach_self", 2)]
        if earlier:
            opts += [("detach_earlier", 4)]
        if later:
            opts += [("detach_later", 4)]
        if fresh:
            opts += [("attach_new", 3)]
        if old:
            opts += [("attach_detached", 3)]
        if cur:
            opts += [("attach_again", 1)]
        if earlier or later:
            opts += [("detach_reattach_other", 2)]
        if not opts:
            break
        kind = rng.choices([k for k, _ in opts], [w for _, w in opts])[0]
        if kind == "detach_self":
            new = [("D", o)]
        elif kind == "detach_reattach_self":
            new = [("D", o), ("A", o)]
        elif kind == "detach_earlier":
            new = [("D", rng.choice(earlier))]
        elif kind == "detach_later":
            new = [("D", rng.choice(later))]
        elif kind == "attach_new":
            new = [("A", rng.choice(fresh))]
        elif kind == "attach_detached":
            new = [("A", rng.choice(old))]
        elif kind == "attach_again":
            new = [("A", rng.choice(cur))]
        else:
            x = rng.choice(earlier + later)
            new = [("D", x), ("A", x)]
        for a in new:
            apply_action(a, cur)
            if a[0] == "A" and a[1] not in ever:
                ever.append(a[1])
        acts += new
        kinds.append(kind)
    return acts


def gen_scenario(rng, counts):
    """-> ext (per API call + trailing), table {(observer, notification): actions}, kinds"""
    kinds = []
    m = rng.randint(2, 5)
    first = list(range(1, m + 1))
    if rng.random() < 0.3:
        rng.shuffle(first)
    cur, ever = [], []
    ext = [[] for _ in range(len(counts) + 1)]
    table = {}
    p_react = rng.choice([0.15, 0.3, 0.5])
    k = 0
    for j in range(len(counts) + 1):
        if j == 0:
            ext[0] = [("A", x) for x in first]
            cur, ever = list(first), list(first)
        elif rng.random() < 0.3:
            for _ in range(rng.choice([1, 1, 2])):
                absent = [x for x in range(1, POOL + 1) if x not in cur]
                if cur and (not absent or rng.random() < 0.5):
                    a = ("D", rng.choice(cur))
                    kinds.append("outside_detach")
                elif absent:
                    a = ("A", rng.choice(absent))
                    kinds.append("outside_attach")
                else:
                    continue
                apply_action(a, cur)
                if a[0] == "A" and a[1] not in ever:
                    ever.append(a[1])
                ext[j].append(a)
        for _ in range(counts[j] if j < len(counts) else 0):
            for o in list(cur):
                if o not in cur:
                    continue
                if (o, k) in table:          # attached twice: updated twice, reacts the same way
                    for a in table[(o, k)]:
                        apply_action(a, cur)
                elif rng.random() < p_react:
                    table[(o, k)] = gen_reaction(rng, o, cur, ever, kinds)
            k += 1
    # an observer that is attached twice repeats its reaction: drop what would detach an absent one
    while True:
        bad = first_absent_detach(ext, counts, table)
        if bad is None:
            break
        if bad[0] == "ext":
            del ext[bad[1]][bad[2]]
        else:
            del table[bad[1]][bad[2]]
        kinds.append("dropped_by_repair")
    return ext, {key: v for key, v in table.items() if v}, kinds


# --------------------------------------------------------------------------------------
# the implementation
# --------------------------------------------------------------------------------------
class ScriptedObserver(Observer):
    def __init__(self, tag, run):
        self.tag = tag
        self.run = run

    def update(self, notification_type, data):
        run = self.run
        if notification_type == NotificationType.LOG_EVENT:
            k = run.k
            m = LOG_RE.match(data[0]) if isinstance(data[0], str) else None
            if m:
                ent, name, uuid, what = m.groups()
                entry = (("T" if ent == "Task" else "S") + ("S" if what == "started" else "F"), name,
                         run.cid("t" if ent == "Task" else "s", uuid), data[2])
            else:
                entry = ("raw", repr(data))
            run.events.append(("upd", self.tag, k, entry))
            # a loop over the live list need not terminate (an observer that detaches and
            # re-attaches itself is met again and again): stop reacting, so that the run ends
            run.updates_now += 1
            if run.updates_now > RUNAWAY:
                if run.updates_now == RUNAWAY + 1:
                    run.events.append(("runaway", self.tag, k))
                return
            for a in run.table.get((self.tag, k), ()):
                run.do_action(a, self.tag)
        elif notification_type == NotificationType.PETRI_NET:
            run.events.append(("net", self.tag, data))
        else:
            run.events.append(("other", self.tag, str(notification_type)))


class ObsRun(impl_run.ImplRun):
    """ImplRun whose function 0 numbers the notifications; observers are ScriptedObservers"""

    def __init__(self, text, vals, table):
        self.k = -1
        self.updates_now = 0
        self.events = []
        self.table = table
        self.obs = {}
        super().__init__(text, vals, [], test_ids=True)
        self.obs = {i: ScriptedObserver(i, self) for i in range(1, POOL + 1)}

    def _mark(self, lid):
        if lid == 0:
            e = self.entries[-1]
            self.k += 1
            self.updates_now = 0
            self.events.append(("notif", self.k, e[2], e[3], e[5]))

    def on_ts(self, lid, t):
        super().on_ts(lid, t)
        self._mark(lid)

    def on_tf(self, lid, t):
        super().on_tf(lid, t)
        self._mark(lid)

    def on_ss(self, lid, a):
        super().on_ss(lid, a)
        self._mark(lid)

    def on_sf(self, lid, a):
        super().on_sf(lid, a)
        self._mark(lid)

    def do_action(self, a, by):
        ob = self.obs[a[1]]
        self.events.append(("call", by, a))
        try:
            if a[0] == "A":
                self.s.attach(ob)
            else:
                self.s.detach(ob)
        except ValueError:
            self.events.append(("raised", by, a))
            return
        self.events.append(("ret", by, a))

    def observer_ids(self):
        return [getattr(ob, "tag", -1) for ob in self.s.observers]


def run_impl(text, vals, script, ext, table):
    out = {"valid": None, "exc": None, "events": [], "final": None, "counts": [], "sid": None}
    try:
        run = ObsRun(text, vals, table)
        out["valid"] = run.valid
        if not run.valid:
            return out
        out["sid"] = run.s.scheduler_uuid
        for j, op in enumerate(script):
            for a in ext[j] if j < len(ext) else ():
                run.do_action(a, 0)
            k0 = run.k
            run.events.append(("api", j, tuple(op)))
            rec = run.call(tuple(op))
            run.events.append(("api_ret", j, rec["ret"]))
            out["counts"].append(run.k - k0)
        for a in ext[len(script)] if len(ext) > len(script) else ():
            run.do_action(a, 0)
        out["events"] = run.events
        out["final"] = run.observer_ids()
        out["running"] = bool(run.s.running)
    except Exception as e:  # noqa: BLE001
        out["exc"] = "%s: %s" % (type(e).__name__, traceback.format_exc(limit=8)[-1500:])
    return out


def per_notification(events):
    """[(notif event, [upd events])] in order; updates before the first notification: key None"""
    groups, stray = [], []
    for e in events:
        if e[0] == "notif":
            groups.append((e, []))
        elif e[0] == "upd":
            (groups[-1][1] if groups else stray).append(e)
    return groups, stray


def is_subseq(u, l):
    it = iter(l)
    return all(any(x == y for y in it) for x in u)


def monitor(rec, n_script):
    """the property on the implementation's record alone.  The list is tracked from the attach /
    detach calls that RETURNED (append / remove first).  Returns None or a reason."""
    cur = []
    start = None          # list when the current notification started
    detached_now = set()  # observers a detach of which returned during the current notification
    updated = []
    k = None
    call_start, call_detached, call_net, nk, truth = [], set(), [], None, None

    def close():
        if start is None:
            return None
        if not is_subseq(updated, start):
            return "notification %d: updated %r is not the starting list %r with observers left out" % (k, updated, start)
        for o in sorted(set(start)):
            if o not in detached_now and updated.count(o) != start.count(o):
                return ("notification %d: observer %d was attached when it started (%r) and was not detached during it, "
                        "but was updated %d time(s): %r" % (k, o, start, updated.count(o), updated))
        return None

    for e in rec["events"]:
        if e[0] == "notif":
            why = close()
            if why:
                return why
            k, start, detached_now, updated = e[1], list(cur), set(), []
            truth = e
        elif e[0] == "upd":
            if start is None:
                return "observer %d received a log entry before any notification" % e[1]
            if e[1] not in cur:
                return ("notification %d: observer %d was updated although it is not attached at that moment "
                        "(list %r; its detach had returned)" % (k, e[1], cur))
            if e[1] not in start:
                return "notification %d: observer %d, attached during the notification, was updated in it" % (k, e[1])
            updated.append(e[1])
            want = (truth[2], truth[3], truth[4], truth[2] == "TF" and truth[3] == "productionTask")
            if e[3] != want or not isinstance(e[3][-1], bool):
                return "notification %d: observer %d received %r, function 0 was told %r" % (k, e[1], e[3], want)
        elif e[0] == "ret":
            a = e[2]
            if a[0] == "A":
                cur.append(a[1])
            else:
                if a[1] not in cur:
                    return "detach of observer %d returned although it was not attached" % a[1]
                cur.remove(a[1])
                detached_now.add(a[1])
                call_detached.add(a[1])
        elif e[0] == "raised":
            if e[2][1] in cur:
                return "detach of the attached observer %d raised ValueError" % e[2][1]
            return "detach of observer %d raised ValueError: the implementation's list has diverged" % e[2][1]
        elif e[0] == "net":
            if e[2] != rec["sid"]:
                return "net-updated notice carries %r instead of the scheduler id" % (e[2],)
            if e[1] not in cur:
                return "net-updated notice delivered to observer %d, which is not attached" % e[1]
            call_net.append(e[1])
        elif e[0] == "runaway":
            return ("notification %d: more than %d updates within one notification "
                    "(the loop keeps meeting observers that re-attach themselves)" % (e[2], RUNAWAY))
        elif e[0] == "other":
            return "observer %d received an unexpected notification type %s" % (e[1], e[2])
        elif e[0] == "api":
            why = close()
            if why:
                return why
            start = None
            call_start, call_detached, call_net = list(cur), set(), []
            nk = k
        elif e[0] == "api_ret":
            why = close()
            if why:
                return why
            start = None
            op = rec_script_op(rec, e[1])
            accepted = bool(e[2]) and (op[0] == "finish" or (op[0] == "start" and k != nk))
            if accepted:
                for o in set(call_start) - call_detached:
                    if o not in call_net:
                        return "accepted call %r: observer %d (attached throughout) got no net-updated notice" % (op, o)
    why = close()
    if why:
        return why
    flags = [e for e in rec["events"] if e[0] == "upd" and e[3][-1] is True]
    if any(e[2] != k for e in flags):
        return "order-finished flag on a notification that is not the last one"
    if rec["final"] != cur:
        return "scheduler.observers ends as %r, the attach / detach calls give %r" % (rec["final"], cur)
    return None


def rec_script_op(rec, j):
    for e in rec["events"]:
        if e[0] == "api" and e[1] == j:
            return e[2]
    return ("?",)


# --------------------------------------------------------------------------------------
# the model
# --------------------------------------------------------------------------------------
def coq_action(a):
    return "%s %d" % ("Attach" if a[0] == "A" else "Detach", a[1])


def coq_scenario(k, ext, counts, table):
    tab = "; ".join("((%d, %d), [%s])" % (o, n, "; ".join(coq_action(a) for a in acts))
                    for (o, n), acts in sorted(table.items()))
    steps = "; ".join("Notify" if s[0] == "notify" else "Ext (%s)" % coq_action(s[1])
                      for s in steps_of(ext, counts))
    defs = ("Definition t%d : list (nat * nat * list action) := [%s].\nDefinition s%d : list step := [%s].\n"
            % (k, tab, k, steps))
    return defs, "run_notifs dispatch_fixed (react_of_table t%d) 0 s%d []" % (k, k)


def ensure_runtime():
    """ObsDispatch.vo (standard library only) must exist even when the theorem build failed"""
    vo = os.path.join(common.COQ, "ObsDispatch.vo")
    src = os.path.join(common.COQ, "ObsDispatch.v")
    if os.path.exists(vo) and os.path.getmtime(vo) >= os.path.getmtime(src):
        return
    os.makedirs(os.path.join(common.VERIF, "work"), exist_ok=True)
    with open(os.path.join(common.VERIF, "work", ".build.lock"), "w") as lock:
        fcntl.flock(lock, fcntl.LOCK_EX)
        try:
            p = subprocess.run(["make", "ObsDispatch.vo"], cwd=common.COQ, capture_output=True, text=True, timeout=600)
            if p.returncode != 0 or not os.path.exists(vo):
                p = subprocess.run(["coqc", "-Q", ".", "PFDL", "ObsDispatch.v"], cwd=common.COQ,
                                   capture_output=True, text=True, timeout=600)
                if p.returncode != 0:
                    raise RuntimeError("cannot build ObsDispatch.vo:\n" + p.stderr[-2000:])
        finally:
            fcntl.flock(lock, fcntl.LOCK_UN)


def model_eval(scens, workdir, tag="obs"):
    """scens: [(ext, counts, table)] -> [(updated per notification, final list)]"""
    ensure_runtime()
    items = [coq_scenario(k, *s) for k, s in enumerate(scens)]
    raw = coqeval.eval_many(items, workdir, shard=150, jobs=16, header=HEADER, tag=tag)
    out = []
    for r in raw:
        t = coqeval.parse_result(r)
        try:
            us, fin = ast.literal_eval(t.replace(";", ","))
        except (ValueError, SyntaxError):
            raise RuntimeError("unparsable model result: " + t[:300])
        out.append(([list(u) for u in us], list(fin)))
    return out


def table_of(payload_table):
    return {(int(o), int(k)): [tuple(a) for a in acts] for o, k, acts in payload_table}


def compare(rec, model, table):
    """implementation's record against run_notifs dispatch_fixed; None or a reason"""
    groups, stray = per_notification(rec["events"])
    if stray:
        return "log entries before the first notification: %r" % (stray[:3],)
    mus, mfin = model
    if len(groups) != len(mus):
        return "machinery: %d notifications in the run, %d in the model" % (len(groups), len(mus))
    for (truth, upds), mu in zip(groups, mus):
        iu = [e[1] for e in upds]
        if iu != mu:
            return "notification %d (%s %s %s): observers updated %r, model (dispatch_fixed) %r" % (
                truth[1], truth[2], truth[3], truth[4], iu, mu)
        want = (truth[2], truth[3], truth[4], truth[2] == "TF" and truth[3] == "productionTask")
        for e in upds:
            if e[3] != want:
                return "notification %d: observer %d received %r, function 0 was told %r" % (truth[1], e[1], e[3], want)
    if rec["final"] != mfin:
        return "observer list at the end %r, model %r" % (rec["final"], mfin)
    return None


def diagnose(rec, table):
    """which of the other loops explains the first notification that deviates from dispatch_fixed"""
    cur = []
    groups = []
    for e in rec["events"]:
        if e[0] == "ret":
            apply_action(e[2], cur)
        elif e[0] == "notif":
            groups.append((e[1], list(cur), []))
        elif e[0] == "upd" and groups:
            groups[-1][2].append(e[1])
    for k, start, upd in groups:
        react = lambda o, k=k: table.get((o, k), ())  # noqa: E731
        if upd != py_fixed(react, start)[0]:
            names = [n for n, f in (("dispatch_live (iteration over the live list)", py_live),
                                    ("dispatch_snapshot (copy without membership test)", py_snapshot))
                     if f(react, start)[0] == upd]
            return "notification %d, list %r: behaves like %s" % (k, start, " / ".join(names) or "none of the modelled loops")
    return ""


def judge_one(rec, model, table, n_script):
    """both judges -> (why or None, names of the judges that reject)"""
    if rec["exc"]:
        return "exception " + rec["exc"], ["exception"]
    whys, judges = [], []
    why = monitor(rec, n_script)
    if why:
        whys.append("monitor: " + why)
        judges.append("python_monitor")
    if model is not None:
        why = compare(rec, model, table)
        if why:
            whys.append("model: " + why)
            judges.append("model_dispatch_fixed")
    if not whys:
        return None, []
    return "; ".join(whys) + " [" + diagnose(rec, table) + "]", judges


def payload_of(pid, text, vals, script, ext, table, why, judge, rec):
    return {"property": pid, "kind": "obs", "program_text": text, "vals": vals,
            "script": [tuple(op) for op in script], "ext": [[tuple(a) for a in x] for x in ext],
            "table": [(o, k, [tuple(a) for a in acts]) for (o, k), acts in sorted(table.items())],
            "why": why, "failed": judge,
            "impl_record": [e for e in (rec or {}).get("events", []) if e[0] in ("notif", "upd", "ret", "raised", "api", "runaway")][:400],
            "impl_final_list": (rec or {}).get("final")}


def slice_obs(pid, cfg, tier, seed, workdir, rep, stats, findings):
    n = cfg.get("obs_" + tier, SIZES[tier])
    cases = []
    for i in range(n):
        rng = random.Random("%d/%s/obs/%d" % (seed, pid, i))
        prof = gen_run.Profile(**PROGRAM_PROFILES[i % len(PROGRAM_PROFILES)])
        case = gen_run.gen_case(rng, prof)
        case["imm"] = []
        dry = run_cases.drive(case, rng, prof, test_ids=True)
        stats["generated"] += 1
        stats["obs_generated"] += 1
        if dry["exc"] is not None or not dry["valid"] or dry.get("stalled"):
            stats["obs_dry_run_unusable"] += 1
            continue
        script = dry["script"]
        counts = [sum(1 for e in r["log"] if e[0] == "notif" and e[1] == 0) for r in dry["trace"]]
        ext, table, kinds = gen_scenario(rng, counts)
        for kd in kinds:
            stats["obs:" + kd] += 1
        rec = run_impl(dry["text"], case["vals"], script, ext, table)
        if rec["exc"] is None and (not rec["valid"] or rec["counts"] != counts):
            rep.violation(payload_of(pid, dry["text"], case["vals"], script, ext, table,
                                     "the run with observers produced other notifications than the run without "
                                     "(%r / %r)" % (rec["counts"], counts), "observers_change_the_run", rec))
            continue
        cases.append((dry["text"], case["vals"], script, ext, table, counts, rec))
    models = model_eval([(c[3], c[5], c[4]) for c in cases], workdir)
    samples = []
    for (text, vals, script, ext, table, counts, rec), model in zip(cases, models):
        stats["compared"] += 1
        stats["obs_compared"] += 1
        why, judge = judge_one(rec, model, table, len(script))
        if why:
            rep.violation(payload_of(pid, text, vals, script, ext, table, why, judge, rec))
            continue
        stats["agree"] += 1
        stats["obs_agree"] += 1
        stats["obs_notifications"] += sum(counts)
        stats["obs_updates"] += sum(1 for e in rec["events"] if e[0] == "upd")
        stats["obs_reentrant_calls"] += sum(len(v) for v in table.values())
        if any(len(set(u)) != len(u) for u in model[0]):
            stats["obs_with_observer_attached_twice"] += 1
        key = (text, tuple(map(tuple, script)), tuple(sorted((k, tuple(v)) for k, v in table.items())),
               tuple(tuple(x) for x in ext))
        stats.setdefault("_distinct", set()).add(key)
        if len(samples) < 2 and len(table) >= 2:
            samples.append({"kind": "obs", "program": text, "script": script,
                            "outside": [x for x in ext],
                            "reactions": {"%d@%d" % k: v for k, v in sorted(table.items())},
                            "updated_per_notification": model[0], "final_list": model[1]})
    return samples


def replay_obs(pid, cfg, payload, workdir):
    table = table_of(payload["table"])
    ext = [[tuple(a) for a in x] for x in payload["ext"]]
    script = [tuple(op) for op in payload["script"]]
    rec = run_impl(payload["program_text"], payload["vals"], script, ext, table)
    if rec["exc"]:
        return {"fails": True, "why": "exception " + rec["exc"]}
    if not rec["valid"]:
        return {"fails": True, "why": "program rejected by the validator"}
    model = model_eval([(ext, rec["counts"], table)], workdir, tag="obs_replay")[0]
    why, judge = judge_one(rec, model, table, len(script))
    return {"fails": bool(why), "why": why if why else
            "agrees with run_notifs dispatch_fixed (%d notifications) and the monitor accepts" % len(model[0])}


KIND = {"obs": {"slice": slice_obs, "replay": replay_obs,
                "rule": "observers that attach / detach from inside update(): generated valid programs and completion "
                        "orders, 2-5 observers attached before start() and up to 7 in all, a random table "
                        "(observer, notification number) -> attach / detach calls made inside update() (detach itself, "
                        "an earlier or a later observer, attach a new or a previously detached one, attach one again, "
                        "detach + re-attach) and attach / detach from outside between API calls; never a detach of an "
                        "observer that is not attached; the real Scheduler's record (observers updated per LOG_EVENT "
                        "notification, their entries, final list) is compared with ObsDispatch.run_notifs dispatch_fixed "
                        "evaluated in coqc, and judged by a monitor that does not use the model; non-trivial = both "
                        "agree; distinct = distinct (program, script, table, outside calls)"}}
