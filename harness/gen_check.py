"""Generators for the validator component (properties C09 C10 C11 C16 C19).

* WGen: typed random generator of the *well-formed family*: structs with
  number/boolean/string attributes, nested structs, fixed and dynamic arrays; tasks with
  typed inputs and outputs; all statement kinds nested to depth <= 4; call parameters
  mixing variables, attribute paths, array elements (literal and loop-variable index)
  and struct literals; expressions over all 12 operators, '!', parentheses.
  Correct by construction w.r.t. /repo/docs/pfdl; every program is additionally
  certified by the decidable Gallina wf_dec (PFDL.Check.Typing) before it is used.
* render: text printer with layout variants and a line map keyed by the model's context
  references (PFDL.Check.CheckModel.ctx) and by construct spans.
* values_for: a well-typed value for every variable (used to drive accepted programs).

Programs are the tuple/dict AST of harness/pfdl_ast.py; "order" interleaves the
definitions: [("struct", i) | ("task", i)]."""
from fractions import Fraction
import copy

import pfdl_ast
from pfdl_ast import json_text, vtype_text, pelems_text, num_text

NUM = ("plain", "number")
BOOL = ("plain", "boolean")
STR = ("plain", "string")
PRIMS = ("number", "boolean", "string")

STRUCT_NAMES = ["Order", "Part", "Sheet", "Color", "Result", "Spec", "Batch"]
ATTR_POOL = ["count", "flag", "label", "items", "inner", "size", "tag", "parts", "next", "ok",
             "ratio", "name", "dims", "spec", "codes", "marks"]
# string literals of struct literals (JSON strings: no raw control characters) ...
STRINGS = ["a", "b c", "x_1", "green", "", "In", "End", "RAL # 6018", "green #1", "#00ff00", "green#6018",
           "a # b # c", " #", "Task # End"]
# ... and of expressions (the STRING token admits any character)
EXPR_STRINGS = STRINGS + ["a\t#b", "x \t # y"]
NUMS = [Fraction(0), Fraction(1), Fraction(2), Fraction(3), Fraction(5), Fraction(-1), Fraction(-2),
        Fraction(1, 2), Fraction(3, 2), Fraction(10), Fraction(255), Fraction(-7, 4)]
NONZERO = [Fraction(1), Fraction(2), Fraction(-1), Fraction(4), Fraction(1, 2), Fraction(-2)]

# operator precedence of the generated parser (PFDLParser.g4 alternatives, highest first);
# all binary operators associate to the left
PREC = {"*": 9, "/": 8, "-": 7, "+": 6, "<": 5, "<=": 5, ">": 5, ">=": 5, "==": 5, "!=": 5,
        "!": 4, "And": 3, "Or": 2}


def is_struct_type(t):
    return t[0] == "plain" and t[1] not in PRIMS


class Config:
    def __init__(self, **kw):
        self.max_depth = 4
        self.max_block = 3
        self.max_tasks = 4
        self.expr_depth = 3
        self.budget = 14            # bound on generated statements per task
        self.w = {"service": 5, "call": 3, "parallel": 1, "while": 1, "count": 1, "parloop": 1, "cond": 2}
        self.runtime_safe = False   # restrict to what can be driven at run time (C09)
        self.paren_all = 0.5        # probability that an expression is printed fully parenthesised
        for k, v in kw.items():
            if k == "w":
                self.w.update(v)
            else:
                setattr(self, k, v)


class WGen:
    def __init__(self, rng, cfg=None):
        self.rng = rng
        self.cfg = cfg or Config()
        self.structs = []
        self.sdef = {}
        self.nsvc = 0
        self.nvar = 0

    # ------------------------------------------------------------------ structs
    def gen_structs(self):
        r = self.rng
        n = r.randint(2, 5)
        names = r.sample(STRUCT_NAMES, n)
        # struct k may only mention structs with a larger index: definitions are acyclic
        structs = []
        for k in range(n - 1, -1, -1):
            later = names[k + 1:]
            na = r.randint(1, 5)
            attrs = []
            used = set()
            # the first struct is made rich so that long paths exist
            forced = []
            if k == 0:
                forced = [NUM, BOOL]
                if later:
                    forced.append(("plain", later[0]))
                    forced.append(("array", r.choice(later), None))
            while len(attrs) < max(na, len(forced)):
                a = r.choice(ATTR_POOL)
                if a in used:
                    continue
                used.add(a)
                if len(attrs) < len(forced):
                    t = forced[len(attrs)]
                else:
                    t = self.rand_type(later)
                attrs.append((a, t))
            r.shuffle(attrs)
            structs.append({"name": names[k], "attrs": attrs})
        structs.reverse()
        self.structs = structs
        self.sdef = {s["name"]: dict(s["attrs"]) for s in structs}
        return structs

    def rand_type(self, struct_names, arrays=True):
        r = self.rng
        c = r.random()
        if c < 0.45 or (not struct_names and c < 0.7):
            base = r.choice(PRIMS)
        elif struct_names:
            base = r.choice(struct_names)
        else:
            base = r.choice(PRIMS)
        if arrays and r.random() < 0.3:
            ln = None if r.random() < 0.5 else r.randint(1, 3)
            return ("array", base, ln)
        return ("plain", base)

    # ------------------------------------------------------------------ paths
    def paths_from(self, sname, loopvars, max_len=4):
        """all (pelems, type) reachable from a value of struct sname; array attributes of
        struct elements may be followed by an index.  Elements of primitive arrays are
        never generated (crash site D11b, outside the guard of C11_partial)."""
        out = []

        def walk(sn, pre, depth):
            for a, t in self.sdef[sn].items():
                p = pre + [("f", a)]
                out.append((p, t))
                if depth >= max_len:
                    continue
                if t[0] == "plain" and t[1] in self.sdef:
                    walk(t[1], p, depth + 1)
                elif t[0] == "array" and t[1] in self.sdef:
                    idxs = []
                    hi = (t[2] - 1) if isinstance(t[2], int) else 2
                    idxs.append(("il", self.rng.randint(0, hi)))
                    for lv in loopvars:
                        idxs.append(("iv", lv))
                    for ix in idxs:
                        p2 = p + [ix]
                        out.append((p2, ("plain", t[1])))
                        walk(t[1], p2, depth + 1)
        walk(sname, [], 1)
        return out

    def typed_paths(self, env, loopvars, want, no_index=False):
        """parameters/operands of type `want` built from the variables in env"""
        res = []
        for v, t in env.items():
            if is_struct_type(t) and t[1] in self.sdef:
                for p, pt in self.paths_from(t[1], loopvars):
                    if pt == want and not (no_index and any(e[0] != "f" for e in p)):
                        res.append((v, p))
        return res

    # ------------------------------------------------------------------ literals
    def json_for(self, t, depth=0):
        r = self.rng
        if t[0] == "array":
            n = t[2] if isinstance(t[2], int) else r.randint(0, 3)
            return ("arr", [self.json_for(("plain", t[1]), depth + 1) for _ in range(n)])
        b = t[1]
        if b == "number":
            return ("num", r.choice(NUMS))
        if b == "boolean":
            return ("bool", r.random() < 0.5)
        if b == "string":
            return ("str", r.choice(STRINGS))
        attrs = list(self.sdef[b].items())
        r.shuffle(attrs)
        return ("obj", [(a, self.json_for(at, depth + 1)) for a, at in attrs])

    def literal(self, sname):
        return ("lit", sname, self.json_for(("plain", sname)))

    # ------------------------------------------------------------------ arguments
    def arg_for(self, ty, env, loopvars):
        r = self.rng
        opts = [("var", v) for v, t in env.items() if t == ty]
        for v, p in self.typed_paths(env, loopvars, ty):
            opts.append(("path", v, p))
        want_lit = is_struct_type(ty) and ty[1] in self.sdef
        if want_lit and (not opts or r.random() < 0.35):
            return self.literal(ty[1])
        if not opts:
            return None
        idx = [o for o in opts if o[0] == "path" and any(e[0] == "iv" for e in o[2])]
        if idx and r.random() < 0.4:
            return r.choice(idx)
        return r.choice(opts)

    def any_arg(self, env, loopvars):
        r = self.rng
        c = r.random()
        vs = list(env.items())
        if c < 0.3 and vs:
            return ("var", r.choice(vs)[0])
        if c < 0.7:
            cands = []
            for v, t in vs:
                if is_struct_type(t) and t[1] in self.sdef:
                    cands += [(v, p) for p, _ in self.paths_from(t[1], loopvars)
                              ]
            if cands:
                v, p = r.choice(cands)
                return ("path", v, p)
        return self.literal(r.choice(self.structs)["name"])

    # ------------------------------------------------------------------ expressions
    def num_expr(self, env, depth):
        r = self.rng
        if depth <= 0 or r.random() < 0.35:
            cands = self.typed_paths(env, [], NUM, no_index=True)
            if cands and r.random() < 0.65:
                v, p = r.choice(cands)
                return ("path", v, p)
            return ("num", r.choice(NUMS))
        c = r.random()
        if c < 0.15:
            return ("paren", self.num_expr(env, depth - 1))
        op = r.choice(["+", "-", "*", "/"])
        left = self.num_expr(env, depth - 1)
        right = ("num", r.choice(NONZERO)) if op == "/" else self.num_expr(env, depth - 1)
        return ("bin", op, left, right)

    def str_operand(self, env):
        r = self.rng
        cands = self.typed_paths(env, [], STR, no_index=True)
        if cands and r.random() < 0.5:
            v, p = r.choice(cands)
            return ("path", v, p)
        return ("str", r.choice(EXPR_STRINGS))

    def bool_expr(self, env, depth):
        r = self.rng
        if depth <= 0 or r.random() < 0.2:
            cands = self.typed_paths(env, [], BOOL, no_index=True)
            c = r.random()
            if cands and c < 0.5:
                v, p = r.choice(cands)
                return ("path", v, p)
            if c < 0.65:
                return ("bool", r.random() < 0.5)
            return ("bin", r.choice(["<", "<=", ">", ">=", "==", "!="]),
                    self.num_expr(env, 0), self.num_expr(env, 0))
        c = r.random()
        if c < 0.35:
            return ("bin", r.choice(["<", "<=", ">", ">=", "==", "!="]),
                    self.num_expr(env, depth - 1), self.num_expr(env, depth - 1))
        if c < 0.42 and not self.cfg.runtime_safe:
            return ("bin", r.choice(["<", "<=", ">", ">="]), self.str_operand(env), self.str_operand(env))
        if c < 0.5:
            return ("bin", r.choice(["==", "!="]), self.bool_expr(env, depth - 1), self.bool_expr(env, depth - 1))
        if c < 0.62:
            return ("not", self.bool_expr(env, depth - 1))
        if c < 0.72:
            return ("paren", self.bool_expr(env, depth - 1))
        return ("bin", r.choice(["And", "Or"]), self.bool_expr(env, depth - 1), self.bool_expr(env, depth - 1))

    def guard(self, env):
        """while guard: false under the final valuation (all numbers 0, booleans false)"""
        for _ in range(20):
            e = fix_parens(self.bool_expr(env, self.cfg.expr_depth))
            try:
                v = eval_final(e)
            except ZeroDivisionError:
                continue
            if v is False:
                return e
            if v is True:
                return ("not", ("paren", e))
        return ("bool", False)

    def limit(self, env):
        r = self.rng
        cands = self.typed_paths(env, [], NUM, no_index=True)
        if cands and r.random() < 0.5:
            v, p = r.choice(cands)
            return ("path", v, p)
        return ("int", r.choice([0, 1, 2, 3, 1, 2]))

    # ------------------------------------------------------------------ program
    def fresh(self, prefix="v"):
        self.nvar += 1
        return "%s%d" % (prefix, self.nvar)

    def gen_program(self):
        r = self.rng
        cfg = self.cfg
        self.gen_structs()
        snames = [s["name"] for s in self.structs]
        ntasks = r.randint(0, cfg.max_tasks)
        sigs = []
        for i in range(ntasks):
            ins = []
            for j in range(r.choice([0, 1, 1, 2, 3])):
                ins.append(("p%d" % j, self.rand_type(snames)))
            nouts = r.choice([0, 0, 1, 1, 2])
            outs = [self.rand_type(snames) for _ in range(nouts)]
            sigs.append({"name": "t%d" % (i + 1), "ins": ins, "out_types": outs})
        order_sigs = [{"name": "productionTask", "ins": [], "out_types": []}] + sigs
        tasks = []
        for idx, sg in enumerate(order_sigs):
            # variable names restart in every task: the same spelling denotes values of different
            # types in different tasks (variables are local to a task)
            self.nvar = 0
            env = {n: t for n, t in sg["ins"]}
            self.cur = {"callable": order_sigs[idx + 1:], "budget": cfg.budget}
            body = []
            # make sure some struct variable exists early
            if not any(is_struct_type(t) for t in env.values()) or r.random() < 0.5:
                v = self.fresh("d")
                ty = ("plain", self.structs[0]["name"])
                body.append(("service", self.svc_name(), [], [(v, ty)]))
                env[v] = ty
            body += self.block(1, env, [], scoped=False)
            outs = []
            for ot in sg["out_types"]:
                have = [v for v, t in env.items() if t == ot]
                if have and r.random() < 0.5:
                    outs.append(r.choice(have))
                else:
                    v = self.fresh("o")
                    body.append(("service", self.svc_name(), self.svc_ins(env, []), [(v, ot)]))
                    env[v] = ot
                    outs.append(v)
            tasks.append({"name": sg["name"], "ins": list(sg["ins"]), "body": body, "outs": outs})
        prog = {"structs": self.structs, "tasks": tasks}
        order = [("struct", i) for i in range(len(self.structs))] + [("task", i) for i in range(len(tasks))]
        prog["order"] = order
        return prog

    def svc_name(self):
        self.nsvc += 1
        return "S%d" % self.nsvc

    def svc_ins(self, env, loopvars):
        r = self.rng
        if r.random() < 0.45:
            return []
        return [self.any_arg(env, loopvars) for _ in range(r.randint(1, 3))]

    def block(self, depth, env, loopvars, scoped=True, n=None):
        """statements generated left to right; env grows with the declarations (declared
        before use); with scoped=True the declarations do not leave the block"""
        r = self.rng
        k = n if n is not None else r.randint(1, self.cfg.max_block)
        e = dict(env) if scoped else env
        out = []
        for _ in range(k):
            out.append(self.stmt(depth, e, loopvars))
        return out

    def pick_kind(self, depth):
        w = dict(self.cfg.w)
        if depth >= self.cfg.max_depth or self.cur["budget"] <= 0:
            for k in ("parallel", "while", "count", "cond", "parloop"):
                w[k] = 0
        if not self.cur["callable"]:
            w["call"] = w["parallel"] = w["parloop"] = 0
        tot = sum(w.values())
        x = self.rng.random() * tot
        for k, v in w.items():
            x -= v
            if x < 0:
                return k
        return "service"

    def mk_call(self, env, loopvars, declare):
        """(name, ins, outs) or None; declare: dict to receive the out declarations"""
        r = self.rng
        sg = r.choice(self.cur["callable"])
        ins = []
        for n, t in sg["ins"]:
            a = self.arg_for(t, env, loopvars)
            if a is None:
                return None
            ins.append(a)
        outs = []
        for ot in sg["out_types"]:
            same = [v for v, t in env.items() if t == ot]
            if same and r.random() < 0.3:
                v = r.choice(same)        # re-declaration with the same type
                if v in [o[0] for o in outs]:
                    v = self.fresh("r")
            else:
                v = self.fresh("r")
            outs.append((v, ot))
            declare[v] = ot
        return (sg["name"], ins, outs)

    def stmt(self, depth, env, loopvars):
        r = self.rng
        kind = self.pick_kind(depth)
        self.cur["budget"] -= 1
        c = None
        decl = {}
        if kind in ("call", "parallel", "parloop"):
            c = self.mk_call(env, loopvars, decl)
            if c is None:
                kind = "service"
        if kind == "service":
            outs = []
            ins = self.svc_ins(env, loopvars)
            for _ in range(r.choice([0, 0, 1, 1, 2])):
                ty = self.rand_type([s["name"] for s in self.structs])
                same = [v for v, t in env.items() if t == ty]
                if same and r.random() < 0.25 and r.choice(same) not in [o[0] for o in outs]:
                    v = r.choice(same)
                    if v in [o[0] for o in outs]:
                        v = self.fresh()
                else:
                    v = self.fresh()
                outs.append((v, ty))
            for v, ty in outs:
                env[v] = ty
            return ("service", self.svc_name(), ins, outs)
        if kind == "call":
            env.update(decl)
            return ("call", c[0], c[1], c[2])
        if kind == "parallel":
            calls = [c]
            alld = dict(decl)
            for _ in range(r.randint(0, 2)):
                d2 = {}
                c2 = self.mk_call(env, loopvars, d2)
                if c2 is not None and not (set(d2) & set(alld)):
                    calls.append(c2)
                    alld.update(d2)
            env.update(alld)
            return ("parallel", calls)
        if kind == "parloop":
            lv = "i%d" % depth
            d2 = {}
            c2 = self.mk_call(env, loopvars + [lv], d2)
            if c2 is not None:
                c, decl = c2, d2
            return ("count", True, lv, self.limit(env), [("call", c[0], c[1], c[2])])
        if kind == "while":
            return ("while", self.guard(env), self.block(depth + 1, env, loopvars))
        if kind == "count":
            lv = "i%d" % depth
            return ("count", False, lv, self.limit(env), self.block(depth + 1, env, loopvars + [lv]))
        if kind == "cond":
            e = fix_parens(self.bool_expr(env, self.cfg.expr_depth))
            passed = self.block(depth + 1, env, loopvars)
            failed = self.block(depth + 1, env, loopvars) if r.random() < 0.5 else []
            return ("cond", e, passed, failed)
        raise ValueError(kind)


# ----------------------------------------------------------------------------------
# expressions: make the printed text parse back to the generated tree
# ----------------------------------------------------------------------------------
def prec_of(e):
    if e[0] == "bin":
        return PREC[e[1]]
    if e[0] == "not":
        return PREC["!"]
    return 100


def fix_parens(e):
    """insert ("paren", .) nodes exactly where the generated parser (precedence table PREC,
    left associative) would otherwise group differently"""
    k = e[0]
    if k == "bin":
        p = PREC[e[1]]
        l = fix_parens(e[2])
        r = fix_parens(e[3])
        # a prefix '!' extends as far to the right as possible: on the left of a binary
        # operator it has to be parenthesised whatever the operator
        if prec_of(l) < p or l[0] == "not":
            l = ("paren", l)
        if prec_of(r) <= p:
            r = ("paren", r)
        return ("bin", e[1], l, r)
    if k == "not":
        x = fix_parens(e[1])
        if prec_of(x) < PREC["!"]:
            x = ("paren", x)
        return ("not", x)
    if k == "paren":
        return ("paren", fix_parens(e[1]))
    return e


def eval_final(e):
    """value under the final valuation: numbers 0, booleans False, strings ''"""
    k = e[0]
    if k == "num":
        return e[1]
    if k == "bool":
        return e[1]
    if k == "str":
        return '"' + e[1] + '"'
    if k == "path":
        return None   # typed by the caller: see below
    if k == "not":
        return not truthy(eval_final(e[1]))
    if k == "paren":
        return eval_final(e[1])
    a, b = eval_final(e[2]), eval_final(e[3])
    op = e[1]
    if op in ("And", "Or"):
        a, b = truthy(a), truthy(b)
        return (a and b) if op == "And" else (a or b)
    if a is None or b is None:
        # a path: number 0 / boolean False / string '' — decide by the other side
        def dflt(other):
            if isinstance(other, bool):
                return False
            if isinstance(other, str):
                return ""
            return Fraction(0)
        if a is None and b is None:
            a = b = Fraction(0)
        elif a is None:
            a = dflt(b)
        else:
            b = dflt(a)
    if op == "/" and b == 0:
        raise ZeroDivisionError
    return {"<": lambda: a < b, "<=": lambda: a <= b, ">": lambda: a > b, ">=": lambda: a >= b,
            "==": lambda: a == b, "!=": lambda: a != b, "+": lambda: a + b, "-": lambda: a - b,
            "*": lambda: a * b, "/": lambda: a / b}[op]()


def truthy(x):
    return bool(x) if x is not None else False


# ----------------------------------------------------------------------------------
# text printer with the line map of the model's context references
# ----------------------------------------------------------------------------------
class Layout:
    def __init__(self, indent=4, top=0, gap=1, crlf=False, final_newline=True, eol_comments=0.0,
                 json_style="next", lit_same_line=False, rng=None):
        self.indent = indent
        self.top = top                    # comment/blank lines before the first definition
        self.gap = gap                    # blank lines between definitions
        self.crlf = crlf
        self.final_newline = final_newline
        self.eol_comments = eol_comments
        self.json_style = json_style      # "next": one line below the name; "multi": pretty-printed
        self.lit_same_line = lit_same_line  # "Name {" on one line
        self.rng = rng


def rand_layout(rng):
    return Layout(indent=rng.choice([2, 4, 4, 8, 3]), top=rng.choice([0, 0, 1, 2, 5]), gap=rng.choice([0, 1, 1, 3]),
                  crlf=rng.random() < 0.15, final_newline=rng.random() < 0.8,
                  eol_comments=rng.choice([0.0, 0.0, 0.3]), json_style=rng.choice(["next", "multi", "multi"]),
                  lit_same_line=rng.random() < 0.3, rng=rng)


def json_lines(j, ind=0, step=2):
    """pretty-printed JSON as a list of lines"""
    pad = " " * ind
    if j[0] == "obj":
        if not j[1]:
            return [pad + "{}"]
        out = [pad + "{"]
        for i, (k, v) in enumerate(j[1]):
            sub = json_lines(v, ind + step, step)
            sub[0] = " " * (ind + step) + '"' + k + '": ' + sub[0].lstrip()
            if i < len(j[1]) - 1:
                sub[-1] += ","
            out += sub
        out.append(pad + "}")
        return out
    if j[0] == "arr" and j[1] and any(x[0] in ("obj", "arr") for x in j[1]):
        out = [pad + "["]
        for i, v in enumerate(j[1]):
            sub = json_lines(v, ind + step, step)
            if i < len(j[1]) - 1:
                sub[-1] += ","
            out += sub
        out.append(pad + "]")
        return out
    return [pad + json_text(j)]


def expr_text(e):
    return pfdl_ast.expr_text(e)


def render(prog, layout=None, linemap=None):
    """Program -> text.  linemap receives
       ("CStruct", i) ("CStructAttr", i, j) ("CTask", i) ("CTaskIn", i) ("CTaskInParam", i, j)
       ("CTaskOut", i) ("CStmt", i, path) ("CStmtIn", i, path) ("CStmtOutParam", i, path, j)
       ("CLit", i, path, k) ("CLitJson", i, path, k)            -> line
       ("span_struct", i) ("span_task", i) ("span_stmt", i, path) -> (first, last)
       "nlines" -> number of lines of the text"""
    L = layout or Layout()
    lm = linemap if linemap is not None else {}
    lines = []          # (indent in columns or None for raw, text)

    def emit(d, t):
        lines.append((d, t))

    def here():
        return len(lines) + 1

    def params(d, ins, outs, ti, path):
        if ins:
            lm[("CStmtIn", ti, path)] = here()
            emit(d, "In")
            for k, p in enumerate(ins):
                if p[0] == "var":
                    emit(d + 1, p[1])
                elif p[0] == "path":
                    emit(d + 1, p[1] + pelems_text(p[2]))
                else:
                    lm[("CLit", ti, path, k)] = here()
                    if L.json_style == "multi":
                        jl = json_lines(p[2])
                    else:
                        jl = [json_text(p[2])]
                    if L.lit_same_line:
                        lm[("CLitJson", ti, path, k)] = here()
                        emit(d + 1, p[1] + " " + jl[0])
                        rest = jl[1:]
                    else:
                        emit(d + 1, p[1])
                        lm[("CLitJson", ti, path, k)] = here()
                        rest = jl
                    for x in rest:
                        emit(d + 2, x)
        if outs:
            emit(d, "Out")
            for j, (n, t) in enumerate(outs):
                lm[("CStmtOutParam", ti, path, j)] = here()
                emit(d + 1, n + ": " + vtype_text(t))

    def stmts(d, ss, ti, prefix):
        for i, s in enumerate(ss):
            stmt(d, s, ti, prefix + (i,))

    def stmt(d, s, ti, path):
        start = here()
        lm[("CStmt", ti, path)] = start
        k = s[0]
        if k in ("service", "call"):
            emit(d, s[1])
            params(d + 1, s[2], s[3], ti, path)
        elif k == "parallel":
            emit(d, "Parallel")
            for j, c in enumerate(s[1]):
                st2 = here()
                lm[("CStmt", ti, path + (j,))] = st2
                emit(d + 1, c[0])
                params(d + 2, c[1], c[2], ti, path + (j,))
                lm[("span_stmt", ti, path + (j,))] = (st2, len(lines))
        elif k == "while":
            emit(d, "Loop While " + expr_text(s[1]))
            stmts(d + 1, s[2], ti, path)
        elif k == "count":
            lim = str(s[3][1]) if s[3][0] == "int" else s[3][1] + pelems_text(s[3][2])
            emit(d, ("Parallel " if s[1] else "") + "Loop " + s[2] + " To " + lim)
            stmts(d + 1, s[4], ti, path)
        elif k == "cond":
            emit(d, "Condition")
            emit(d + 1, expr_text(s[1]))
            emit(d, "Passed")
            stmts(d + 1, s[2], ti, path + (0,))
            if s[3]:
                emit(d, "Failed")
                stmts(d + 1, s[3], ti, path + (1,))
        else:
            raise ValueError(s)
        lm[("span_stmt", ti, path)] = (start, len(lines))

    for _ in range(L.top):
        emit(None, "# header" if (L.rng is None or L.rng.random() < 0.6) else "")
    order = prog.get("order") or ([("struct", i) for i in range(len(prog["structs"]))]
                                  + [("task", i) for i in range(len(prog["tasks"]))])
    for item in order:
        if item[0] == "struct":
            i = item[1]
            sd = prog["structs"][i]
            start = here()
            lm[("CStruct", i)] = start
            emit(0, "Struct " + sd["name"])
            for j, (n, t) in enumerate(sd["attrs"]):
                lm[("CStructAttr", i, j)] = here()
                emit(1, n + ": " + vtype_text(t))
            emit(0, "End")
            lm[("span_struct", i)] = (start, len(lines))
        else:
            i = item[1]
            t = prog["tasks"][i]
            start = here()
            lm[("CTask", i)] = start
            emit(0, "Task " + t["name"])
            if t["ins"]:
                lm[("CTaskIn", i)] = here()
                emit(1, "In")
                for j, (n, ty) in enumerate(t["ins"]):
                    lm[("CTaskInParam", i, j)] = here()
                    emit(2, n + ": " + vtype_text(ty))
            stmts(1, t["body"], i, ())
            if t["outs"]:
                lm[("CTaskOut", i)] = here()
                emit(1, "Out")
                for n in t["outs"]:
                    emit(2, n)
            emit(0, "End")
            lm[("span_task", i)] = (start, len(lines))
        for _ in range(L.gap):
            emit(None, "")
    # trailing blank lines are dropped
    while lines and lines[-1] == (None, ""):
        lines.pop()
    nl = "\r\n" if L.crlf else "\n"
    out = []
    rng = L.rng
    for d, t in lines:
        txt = t if d is None else " " * (L.indent * d) + t
        if L.eol_comments and rng is not None and t and d is not None and not t.lstrip().startswith(("{", "}", "[", "]", '"')) \
                and "{" not in t and rng.random() < L.eol_comments:
            txt += "  # c%d" % rng.randint(0, 99)
        out.append(txt)
    text = nl.join(out)
    if L.final_newline:
        text += nl
    lm["nlines"] = len(out)
    return text


# ----------------------------------------------------------------------------------
# well-typed run-time values
# ----------------------------------------------------------------------------------
def value_for(t, sdef, rng, final=False, depth=0):
    """harness value (see impl_run.to_py_value) of type t"""
    if t[0] == "array":
        n = max(t[2] if isinstance(t[2], int) else 0, 4)
        return [value_for(("plain", t[1]), sdef, rng, final, depth + 1) for _ in range(n)]
    b = t[1]
    if b == "number":
        return Fraction(0) if final else Fraction(rng.choice([0, 1, 2, 3, 1, 2]))
    if b == "boolean":
        return False if final else rng.random() < 0.5
    if b == "string":
        return ("str", "" if final else rng.choice(["a", "x"]))
    return {a: value_for(at, sdef, rng, final, depth + 1) for a, at in sdef[b].items()}


def var_types(prog):
    """task name -> {variable: type} (flow-insensitive, last declaration wins)"""
    out = {}

    def walk(ss, env):
        for s in ss:
            k = s[0]
            if k in ("service", "call"):
                for n, t in s[3]:
                    env[n] = t
            elif k == "parallel":
                for c in s[1]:
                    for n, t in c[2]:
                        env[n] = t
            elif k == "while":
                walk(s[2], env)
            elif k == "count":
                walk(s[4], env)
            elif k == "cond":
                walk(s[2], env)
                walk(s[3], env)
    for t in prog["tasks"]:
        env = {n: ty for n, ty in t["ins"]}
        walk(t["body"], env)
        out.setdefault(t["name"], env)
    return out


def clone(prog):
    return copy.deepcopy(prog)
