"""Execute `run` cases against the implementation (script generated on the fly from
the pending services), and judge them against the Coq model."""
import os
import zlib
import random
import re
import shutil
import tempfile
import traceback

import pfdl_ast
from pfdl_ast import Interner, render
import gen_run
import coqeval


def scratch_dir():
    d = tempfile.mkdtemp(prefix="pfdl_verif_")
    return d


def gen_run_final():
    import gen_run
    return gen_run.FINAL_VALUATION


def drive(case, rng, profile, test_ids=True, mutate=False, max_calls=80, script=None,
          layout=None):
    """Run the implementation.  Returns dict(script, trace, exc, text, valid, stdout)."""
    import impl_run
    text = render(case["prog"], layout)
    out = {"text": text, "script": [], "trace": [], "exc": None, "valid": None, "stdout": ""}
    try:
        run = impl_run.ImplRun(text, case["vals"], case["imm"], test_ids=test_ids, mutate=mutate,
                               react=case.get("react"), react_all=bool(case.get("react_all")))
    except RecursionError:
        out["exc"] = ("construct", "RecursionError")
        return out
    except Exception as e:  # noqa: BLE001
        out["exc"] = ("construct", type(e).__name__, traceback.format_exc(limit=6))
        return out
    out["valid"] = run.valid
    out["stdout"] = run.stdout
    if not run.valid:
        return out
    # the duplicate probe (impl_run.on_sf) relies on "a refused event changes nothing"; in the
    # parallel-loop shapes of the known findings D7 the implementation announces an identifier
    # twice, so a second report of it is legitimately accepted: no probe there
    try:
        import shapes
        if run.dup_in_sf and shapes.parloop_findings(case["prog"]):
            run.dup_in_sf = False
    except Exception:  # noqa: BLE001
        run.dup_in_sf = False
    try:
        # the generated net, before anything runs (names as strings; interned when judged)
        out["net_sig"] = impl_run.net_signature(run, lambda x: x)
    except Exception as e:  # noqa: BLE001
        out["net_sig"] = None
        out["net_sig_error"] = type(e).__name__
    pending = []      # canonical service ids announced and not yet completed (harness view)
    done = []

    def note(rec):
        for e in rec["log"]:
            if e[0] == "notif" and e[1] == 0 and e[2] == "SS":
                pending.append(e[5])
            if e[0] == "notif" and e[1] == 0 and e[2] == "SF" and e[5] in pending:
                pending.remove(e[5])
                done.append(e[5])

    # a bystander: in a quarter of the cases (decided by the program text, so that a case
    # replays) a second scheduler for another order is created right after this one and driven
    # in between this order's API calls.  Orders are independent (C18), so this must not be
    # visible in this order's trace; state shared between Scheduler objects would be.
    bystander = None
    if zlib.crc32(text.encode()) % 4 == 2:
        try:
            import kind_config
            if zlib.crc32(text.encode()) % 8 == 6:
                # another order of the SAME program text (same loops, same identifiers in test-id mode)
                bystander = impl_run.ImplRun(text, [gen_run_final()], [], test_ids=test_ids)
            else:
                bystander = impl_run.ImplRun(render(kind_config.OTHER_PROGRAM), [gen_run_final()], [], test_ids=test_ids)
        except Exception:  # noqa: BLE001
            bystander = None
    out["bystander"] = bystander is not None

    def drive_bystander():
        if bystander is None or not bystander.valid:
            return
        try:
            if not bystander.ncalls:
                bystander.call(("start",))
            elif bystander.pending:
                bystander.call(("finish", bystander.pending[0]))
        except Exception:  # noqa: BLE001
            pass          # the bystander's own behaviour is judged by the C18 check

    def do(op):
        out["script"].append(op)
        try:
            rec = run.call(op)
        except RecursionError:
            out["exc"] = ("call", len(out["script"]) - 1, "RecursionError")
            return False
        except Exception as e:  # noqa: BLE001
            out["exc"] = ("call", len(out["script"]) - 1, type(e).__name__, traceback.format_exc(limit=40))
            return False
        out["trace"].append(rec)
        note(rec)
        drive_bystander()      # the other order moves on after every call of this one
        return True

    if script is not None:
        for op in script:
            if not do(op):
                break
        out["run"] = run
        return out

    junk_p = profile.junk
    reg_p = getattr(profile, "listeners", 0.0)
    obs_p = getattr(profile, "observers", 0.0)
    attached = []

    def admin():
        """registration / observer calls at an arbitrary point of the run"""
        if reg_p and rng.random() < reg_p:
            do(("register", rng.choice(["TS", "TF", "SS", "SF"]), rng.randint(0, 2)))
        if obs_p and rng.random() < obs_p:
            if attached and rng.random() < 0.4:
                o = rng.choice(attached)
                attached.remove(o)
                do(("detach", o))
            else:
                o = rng.randint(0, 2)
                attached.append(o)
                do(("attach", o))

    for _ in range(3):
        admin()
    if junk_p and rng.random() < junk_p:
        do(("finish", 0))                       # premature: nothing announced yet
    if junk_p and rng.random() < junk_p:
        do(("junk", rng.choice(["start_event", "set_place_real", "empty"])))   # internal types from outside
    if not do(("start",)):
        return out
    n = 0
    again = zlib.crc32(text.encode()) % 4      # 1: start() again in the middle; 1, 3: again after the end
    while pending and n < max_calls and out["exc"] is None:
        n += 1
        if n == 3 and again == 1:
            if not do(("start",)):              # a started order is not started again
                break
        admin()
        if junk_p and rng.random() < junk_p:
            c = rng.random()
            if c < 0.3 and done:
                op = ("finish", rng.choice(done))          # duplicate / late
            elif c < 0.5:
                op = ("finish", 700 + rng.randint(0, 9))   # unknown id
            elif c < 0.6:
                op = ("start",)                            # start again
            else:
                op = ("junk", rng.choice(impl_run.JUNK_KINDS))
            if not do(op):
                break
            continue
        sid = rng.choice(pending)
        if not do(("finish", sid)):
            break
    if out["exc"] is None and junk_p:
        # late events after the end
        if done:
            do(("finish", rng.choice(done)))
        if rng.random() < 0.5:
            do(("start",))
    if out["exc"] is None and not pending and again in (1, 3):
        do(("start",))                          # ... nor is a finished one run a second time
    out["run"] = run
    out["stalled"] = bool(pending) and n >= max_calls
    return out


VERDICT_RE = r"(\d+), (None|Some \d+), (None|Some \d+), (true|false), (true|false)"


def coq_sig(I, sig):
    """implementation's net signature (impl_run.net_signature) as a Gallina term"""
    n, s, f, tr = sig

    def nl(l):
        return pfdl_ast.coq_list([str(I(x)) if isinstance(x, str) else str(x) for x in l])
    return "(%d, %d, %d, %s)" % (n, s, f, pfdl_ast.coq_list(
        ["(%s, %s, %s)" % (nl(a), nl(b), pfdl_ast.coq_list([nl(c) for c in cs])) for a, b, cs in tr]))


def judge_cases(cases_with_runs, workdir, jobs=8, proj="P_full", mon="mon_true"):
    """cases_with_runs: list of (case, drive-result).  Returns one dict per case:
    the verdict of the reference semantics (PFDL.Monitors.judge_with) with the verdict of
    the net model (PFDL.NetRun.judge_net_with) under key "net"."""
    items = []
    for k, (case, dr) in enumerate(cases_with_runs):
        I = Interner()
        c = coqeval.coq_runcase(I, case, dr["script"])
        tr = pfdl_ast.coq_list([coqeval.coq_callrec(I, r) for r in dr["trace"]])
        defs = "Definition c%d : runcase := %s.\nDefinition i%d : list callrec := %s.\n" % (k, c, k, tr)
        sig = dr.get("net_sig")
        if sig is not None and case.get("options", {}).get("test_ids", True):
            sg = "judge_net_sig c%d %s" % (k, coq_sig(I, sig))
        else:
            sg = "9"
        items.append((defs, "let v := judge_with %s %s c%d i%d in let w := judge_net_with %s %s c%d i%d in "
                            "((v_model v, v_disagree v, v_full_disagree v, v_mon_impl v, v_mon_model v), "
                            "(v_model w, v_disagree w, v_full_disagree w, v_mon_impl w, v_mon_model w), %s)"
                      % (proj, mon, k, k, proj, mon, k, k, sg)))
    raw = coqeval.eval_many(items, workdir, jobs=jobs, header=coqeval.HEADER_MON)
    out = []
    opt = lambda x: None if x == "None" else int(x.split()[1])  # noqa: E731
    for r in raw:
        t = coqeval.parse_result(r)
        m = re.match(r"^\(" + VERDICT_RE + r", \(" + VERDICT_RE + r"\), (\d+)\)$", t)
        if not m:
            raise RuntimeError("unparsable verdict: " + t)
        g = m.groups()

        def mk(h):
            return {"model": int(h[0]), "disagree": opt(h[1]), "full_disagree": opt(h[2]),
                    "mon_impl": h[3] == "true", "mon_model": h[4] == "true"}
        v = mk(g[0:5])
        v["net"] = mk(g[5:10])
        v["net_sig"] = int(g[10])      # 0 equal, 1 different, 2-4 no model net, 9 not compared
        out.append(v)
    return out


def model_trace(case, script, workdir):
    I = Interner()
    c = coqeval.coq_runcase(I, case, script)
    raw = coqeval.eval_many([("Definition c : runcase := %s.\n" % c, "run_ref c")], workdir, tag="dbg")
    return raw[0], I


if __name__ == "__main__":
    import sys
    seed = int(sys.argv[1]) if len(sys.argv) > 1 else 1
    n = int(sys.argv[2]) if len(sys.argv) > 2 else 20
    kw = eval(sys.argv[3]) if len(sys.argv) > 3 else {}
    test_ids = kw.pop("test_ids", True)
    mutate = kw.pop("mutate", False)
    prof = gen_run.Profile(**kw)
    wd = scratch_dir()
    os.chdir(wd)
    todo = []
    for i in range(n):
        rng = random.Random(seed * 100003 + i)
        case = gen_run.gen_case(rng, prof)
        dr = drive(case, rng, prof, test_ids=test_ids, mutate=mutate)
        if not dr["valid"]:
            print("INVALID", i, dr["stdout"][:300], dr["exc"])
            print(dr["text"])
            continue
        todo.append((i, case, dr))
    verdicts = judge_cases([(c, d) for _, c, d in todo], wd, proj=("P_C15" if mutate else "P_full"))
    bad = 0
    for (i, case, dr), v in zip(todo, verdicts):
        ok = v["model"] == 0 and v["disagree"] is None and dr["exc"] is None
        if not ok:
            bad += 1
            print(i, v, "exc=", dr["exc"] and dr["exc"][:3], "calls=", len(dr["script"]))
        if not ok and bad == 1:
            print(dr["text"])
            print("script", dr["script"])
            for r in dr["trace"]:
                print("   ", {k: v2 for k, v2 in r.items() if k != "log"})
                for e in r["log"]:
                    print("       ", e)
            if dr["exc"]:
                print(dr["exc"][-1])
            mt, I = model_trace(case, dr["script"], wd)
            print("MODEL", mt[:6000])
            print("names", list(enumerate(I.rev)))
    print("cases", len(todo), "bad", bad)
    shutil.rmtree(wd, ignore_errors=True)
