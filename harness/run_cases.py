"""Execute `run` cases against the implementation (script generated on the fly from
the pending services), and judge them against the Coq model."""
import os
import random
import shutil
import tempfile
import traceback

import pfdl_ast
from pfdl_ast import Interner, render
import gen_run
import coqeval


def scratch_dir():
    d = tempfile.mkdtemp(prefix="pfdl_verif_")
    return d


def drive(case, rng, profile, test_ids=True, mutate=False, max_calls=80, script=None,
          layout=None):
    """Run the implementation.  Returns dict(script, trace, exc, text, valid, stdout)."""
    import impl_run
    text = render(case["prog"], layout)
    out = {"text": text, "script": [], "trace": [], "exc": None, "valid": None, "stdout": ""}
    try:
        run = impl_run.ImplRun(text, case["vals"], case["imm"], test_ids=test_ids, mutate=mutate)
    except RecursionError:
        out["exc"] = ("construct", "RecursionError")
        return out
    except Exception as e:  # noqa: BLE001
        out["exc"] = ("construct", type(e).__name__, traceback.format_exc(limit=6))
        return out
    out["valid"] = run.valid
    out["stdout"] = run.stdout
    if not run.valid:
        return out
    pending = []      # canonical service ids announced and not yet completed (harness view)
    done = []

    def note(rec):
        for e in rec["log"]:
            if e[0] == "notif" and e[1] == "SS":
                pending.append(e[4])
            if e[0] == "notif" and e[1] == "SF" and e[4] in pending:
                pending.remove(e[4])
                done.append(e[4])

    def do(op):
        out["script"].append(op)
        try:
            rec = run.call(op)
        except RecursionError:
            out["exc"] = ("call", len(out["script"]) - 1, "RecursionError")
            return False
        except Exception as e:  # noqa: BLE001
            out["exc"] = ("call", len(out["script"]) - 1, type(e).__name__, traceback.format_exc(limit=8))
            return False
        out["trace"].append(rec)
        note(rec)
        return True

    if script is not None:
        for op in script:
            if not do(op):
                break
        out["run"] = run
        return out

    junk_p = profile.junk
    if junk_p and rng.random() < junk_p:
        do(("finish", 0))                       # premature: nothing announced yet
    if not do(("start",)):
        return out
    n = 0
    while pending and n < max_calls and out["exc"] is None:
        n += 1
        if junk_p and rng.random() < junk_p:
            c = rng.random()
            if c < 0.3 and done:
                op = ("finish", rng.choice(done))          # duplicate / late
            elif c < 0.5:
                op = ("finish", 700 + rng.randint(0, 9))   # unknown id
            elif c < 0.6:
                op = ("start",)                            # start again
            else:
                op = ("junk", rng.choice(impl_run.JUNK_KINDS))
            if not do(op):
                break
            continue
        sid = rng.choice(pending)
        if not do(("finish", sid)):
            break
    if out["exc"] is None and junk_p:
        # late events after the end
        if done:
            do(("finish", rng.choice(done)))
        if rng.random() < 0.5:
            do(("start",))
    out["run"] = run
    out["stalled"] = bool(pending) and n >= max_calls
    return out


def judge_cases(cases_with_runs, workdir, jobs=8):
    """cases_with_runs: list of (case, drive-result).  Returns list of verdict strings."""
    items = []
    for k, (case, dr) in enumerate(cases_with_runs):
        I = Interner()
        c = coqeval.coq_runcase(I, case, dr["script"])
        tr = pfdl_ast.coq_list([coqeval.coq_callrec(I, r) for r in dr["trace"]])
        defs = "Definition c%d : runcase := %s.\nDefinition i%d : list callrec := %s.\n" % (k, c, k, tr)
        items.append((defs, "judge c%d i%d" % (k, k)))
    raw = coqeval.eval_many(items, workdir, jobs=jobs)
    return [coqeval.parse_result(r) for r in raw]


def model_trace(case, script, workdir):
    I = Interner()
    c = coqeval.coq_runcase(I, case, script)
    raw = coqeval.eval_many([("Definition c : runcase := %s.\n" % c, "run_ref c")], workdir, tag="dbg")
    return raw[0], I


if __name__ == "__main__":
    import sys
    seed = int(sys.argv[1]) if len(sys.argv) > 1 else 1
    n = int(sys.argv[2]) if len(sys.argv) > 2 else 20
    prof = gen_run.Profile()
    wd = scratch_dir()
    os.chdir(wd)
    todo = []
    for i in range(n):
        rng = random.Random(seed * 100003 + i)
        case = gen_run.gen_case(rng, prof)
        dr = drive(case, rng, prof)
        if not dr["valid"]:
            print("INVALID", i, dr["stdout"][:300], dr["exc"])
            print(dr["text"])
            continue
        todo.append((i, case, dr))
    verdicts = judge_cases([(c, d) for _, c, d in todo], wd)
    for (i, case, dr), v in zip(todo, verdicts):
        print(i, v, "exc=", dr["exc"] and dr["exc"][:3], "calls=", len(dr["script"]))
        if not v.startswith("(0"):
            print(dr["text"])
            print("script", dr["script"])
            for r in dr["trace"]:
                print("   ", {k: v2 for k, v2 in r.items() if k != "log"})
                for e in r["log"]:
                    print("       ", e)
            mt, I = model_trace(case, dr["script"], wd)
            print("MODEL", mt[:3000])
            print("names", I.rev)
            break
    shutil.rmtree(wd, ignore_errors=True)
