"""C16 at the level of the program TEXT — plug-in kind `c16text`.

Model: coq/TextPipeline.v::validate_text = CharLexer.lex -> Denter.denter_init -> the parser of
the text pipeline -> CheckModel.validate, evaluated on the CHARACTERS of each text with
vm_compute inside coqc (theorems: coq/Properties/C16text.v — a verdict for every text).
Implementation: utils/parsing_utils.py::parse_string on the same text.

Compared per text (both must hold):
  valid     : the boolean parse_string returns          = text_valid
  printed   : it printed at least one message           = the model's message list is not empty
  process   : its second result is None (syntax error)  = the model's only message is MSyntax
An exception escaping parse_string is a violation by itself (the model never raises:
C16_text_always_a_verdict).  NOT compared: the number and the wording of the messages (ANTLR's
error recovery lets the implementation print several syntax messages where the model stops at
the first error).

Inputs (one random.Random per case): generated well-formed programs in random layouts, programs
with one seeded semantic fault, programs with a list inside a list in a struct literal, and the
fuzz stream of kind_check.fuzz_texts over them (character / token / line mutations,
truncations, random token sequences, random bytes).

Outside what the model describes — such texts are counted (`c16text_skipped:*`) and not compared:
  - a struct literal whose strings contain a backslash or a control character (json.loads
    decodes escapes / rejects the literal; CharLexer interns the raw text between the quotes);
  - a repeated key inside one struct literal (CheckModel counts lists inside lists over all
    occurrences of a key, json.loads keeps the last);
  - more than 100 nested brackets / '!' in a row (`deep_nesting`): the interpreter's recursion limit,
    which the model does not have, decides there.  Such texts are NOT compared with the model (it
    accepts them: Properties/C16text.v::C16_text_example_deep_nesting) but are still run on the
    implementation, which must return a verdict without raising, valid exactly when it printed
    nothing.  Finding D29-deep-nesting-raises (fixed in 6d2e0d4, witness
    corpus/C16-text-deep-nesting.json): from about 246 levels on parse_string raised
    RecursionError, e.g. on "Task productionTask\\n    Loop While " + "!" * 300 +
    "true\\n        Move\\nEnd\\n"; since the repair it prints "The program is nested too deeply"
    and answers invalid.  Every run generates '!'-chains, parentheses, nested JSON objects and
    nested JSON lists of 250 / 400 / 1000 levels;
  - INTEGER lexemes of more than 5 digits (unary nat in the model's token), JSON numbers longer
    than 40 characters or with an exponent of more than 3 digits (evaluation cost only).
Names travel as an interning table (UTF-8 text in hexadecimal -> number), 'productionTask' = 0,
printed with the case (CharLexer.intern_of_table)."""
import os
import random
import re
import sys

HERE = os.path.dirname(os.path.abspath(__file__))
if HERE not in sys.path:
    sys.path.insert(0, HERE)

import common  # noqa: E402
import coqeval  # noqa: E402

SIZES = {"quick": 150, "thorough": 3000}
HEADER = ("From PFDL Require Import TextPipeline.\nFrom PFDL.Front Require Import CharLexer.\n"
          "From Coq Require Import String List.\nImport ListNotations.\nOpen Scope string_scope.\n"
          "Open Scope nat_scope.\nSet Printing Depth 1000000.\nSet Printing Width 200.\n")
MAX_INT_DIGITS = 5
MAX_TEXT = 40000
MAX_NESTING = 100         # beyond: the interpreter's recursion limit decides (D29), implementation-only judgement          # characters; longer texts are cut out of the sample (evaluation cost)


def hexs(s):
    return s.encode("utf-8", "surrogatepass").hex()


# ----------------------------------------------------------------------------------------
# the implementation
# ----------------------------------------------------------------------------------------
def run_impl(text):
    """parse_string on text -> dict(valid, printed, process, exc)"""
    import check_core
    r = check_core.run_impl(text, ext=False, want_process=True)
    return {"valid": r["valid"], "printed": r["out"] != "", "process": r["process"] is not None,
            "exc": r["exc"], "out": r["out"][:600]}


def _impl_one(text):
    return run_impl(text)


# ----------------------------------------------------------------------------------------
# what lies outside the model (decided on the real lexer's tokens)
# ----------------------------------------------------------------------------------------
def nesting_depth(text):
    """brackets open at the same time, plus the longest run of '!' (the generated parser, the
    visitor and json.loads recurse once or several times per level)"""
    depth = best = 0
    for c in text:
        if c in "([{":
            depth += 1
            best = max(best, depth)
        elif c in ")]}" and depth > 0:
            depth -= 1
    run = max((len(m.group(0)) for m in re.finditer(r"(?:!\s*)+", text)), default=0)
    return best + run


def outside_model(text):
    """None, or the reason why the text is not compared"""
    import front_chars
    if len(text) > MAX_TEXT:
        return "long"
    if nesting_depth(text) > MAX_NESTING:
        return "deep_nesting"
    try:
        text.encode("utf-8")
    except UnicodeEncodeError:
        return "surrogate"
    try:
        toks, err, _ = front_chars.raw_lex(text)
    except Exception:  # noqa: BLE001
        return "lexer_raises"
    if err is not None:
        toks = [t for t in toks if t[2] < err]
    depth = 0
    keys = []           # stack of key lists, one per open object
    prev = None
    for i, (n, tx, _, _) in enumerate(toks):
        if n == "INTEGER" and len(tx) > MAX_INT_DIGITS:
            return "big_integer"
        if n == "NUMBER":
            m = re.search(r"[eE][+-]?(\d+)$", tx)
            if len(tx) > 40 or (m and len(m.group(1)) > 3):
                return "big_number"
        if n == "JSON_STRING":
            inner = tx[1:-1]
            if "\\" in inner or any(ord(c) < 32 or ord(c) == 127 for c in inner):
                return "json_escape"
            nxt = toks[i + 1][0] if i + 1 < len(toks) else None
            if nxt == "JSON_COLON" and keys:
                if inner in keys[-1]:
                    return "json_duplicate_key"
                keys[-1].append(inner)
        if n in ("JSON_OPEN", "JSON_OPEN_2"):
            keys.append([])
        elif n == "JSON_CLOSE" and keys:
            keys.pop()
        prev = n
    del depth, prev
    return None


def intern_table(text):
    """every identifier-like substring and every string content of the text -> number;
    'productionTask' is name 0 (Syntax.production_task)"""
    import front_chars
    names = []
    seen = set()

    def add(s):
        if s not in seen:
            seen.add(s)
            names.append(s)
    add("productionTask")
    for m in re.finditer(r"[A-Za-z][A-Za-z0-9_]*", text):
        add(m.group(0))
    try:
        toks, err, _ = front_chars.raw_lex(text)
        for n, tx, _, _ in toks:
            if n in ("STRING", "JSON_STRING") and len(tx) >= 2:
                add(tx[1:-1])
    except Exception:  # noqa: BLE001
        pass
    for m in re.finditer(r'"((?:\\"|[^"])*)"', text):
        add(m.group(1))
    return [(hexs(s), i) for i, s in enumerate(names)]


def coq_case(k, text):
    tab = "[" + "; ".join('("%s", %d)' % (h, i) for h, i in intern_table(text)) + "]"
    h = hexs(text)
    # long string literals overflow coqc's stack: the text travels in pieces
    pieces = " ++ ".join('unhex "%s"' % h[i:i + 2000] for i in range(0, len(h), 2000)) or 'unhex ""'
    defs = ('Definition i%d : list Ascii.ascii := %s.\n'
            'Definition n%d : list (string * nat) := %s.\n' % (k, pieces, k, tab))
    return defs, "text_view (intern_of_table n%d) i%d" % (k, k)


def ensure_runtime():
    vo = os.path.join(common.COQ, "TextPipeline.vo")
    src = os.path.join(common.COQ, "TextPipeline.v")
    if os.path.exists(vo) and os.path.getmtime(vo) >= os.path.getmtime(src):
        return
    import fcntl
    import subprocess
    os.makedirs(os.path.join(common.VERIF, "work"), exist_ok=True)
    with open(os.path.join(common.VERIF, "work", ".build.lock"), "w") as lock:
        fcntl.flock(lock, fcntl.LOCK_EX)
        try:
            p = subprocess.run(["make", "TextPipeline.vo"], cwd=common.COQ, capture_output=True, text=True, timeout=1200)
            if p.returncode != 0 or not os.path.exists(vo):
                p = subprocess.run(["coqc", "-Q", ".", "PFDL", "TextPipeline.v"], cwd=common.COQ,
                                   capture_output=True, text=True, timeout=600)
                if p.returncode != 0:
                    raise RuntimeError("cannot build TextPipeline.vo:\n" + p.stderr[-2000:])
        finally:
            fcntl.flock(lock, fcntl.LOCK_UN)


def model_eval(texts, workdir, tag="c16text"):
    """-> [(status, syntax messages, other messages)]"""
    ensure_runtime()
    items = [coq_case(k, t) for k, t in enumerate(texts)]
    raw = coqeval.eval_many(items, workdir, shard=10, jobs=16, header=HEADER, tag=tag)
    out = []
    for r in raw:
        t = coqeval.parse_result(r)
        m = re.fullmatch(r"\(\s*(\d+)\s*,\s*(\d+)\s*,\s*(\d+)\s*\)", t.strip())
        if not m:
            raise RuntimeError("unparsable model result: " + t[:300])
        out.append(tuple(int(x) for x in m.groups()))
    return out


STATUS = {0: "ok", 1: "exception", 2: "out of fuel", 3: "unsupported"}


def judge(impl, model):
    """None or the reason of the disagreement"""
    st, nsyn, nchk = model
    if impl["exc"] is not None:
        return "parse_string raised %s (model: %s, %d syntax / %d other messages)" % (impl["exc"], STATUS[st], nsyn, nchk)
    if st != 0:
        return "the model gives no verdict (%s) although C16_text_always_a_verdict is proved" % STATUS[st]
    if impl["valid"] not in (True, False):
        return "parse_string returned %r as verdict" % (impl["valid"],)
    m_valid = nsyn + nchk == 0
    if impl["valid"] != m_valid:
        return "verdict: implementation %s, model %s (%d syntax / %d other messages); output %r" % (
            impl["valid"], m_valid, nsyn, nchk, impl["out"][:300])
    if impl["printed"] != (nsyn + nchk > 0):
        return "implementation printed %r, model has %d messages" % (impl["out"][:200], nsyn + nchk)
    if impl["process"] != (nsyn == 0):
        return "implementation returned %s Process, model: %d syntax messages" % (
            "a" if impl["process"] else "no", nsyn)
    return None


AFTERMATH_PROGRAM = ("Struct Sn\n    a: number\nEnd\n\nTask productionTask\n    Sv\n        Out\n            d: Sn\n"
                     "    Condition\n        d.a > 1\n    Passed\n        Sw\nEnd\n")


def judge_impl_only(impl):
    """texts beyond the model (deep nesting): a verdict without raising, valid <-> nothing printed;
    and the validation of the NEXT program in the same process is not disturbed by it"""
    after = run_impl(AFTERMATH_PROGRAM)
    if after["exc"] is not None or after["valid"] is not True or after["printed"]:
        return ("after this text a plain valid program is no longer validated correctly in the same process: "
                "valid=%s exc=%s output %r" % (after["valid"], after["exc"], after["out"][:200]))
    if impl["exc"] is not None:
        return "parse_string raised %s on a deeply nested text instead of returning a verdict" % impl["exc"]
    if impl["valid"] not in (True, False):
        return "parse_string returned %r as verdict" % (impl["valid"],)
    if impl["valid"] != (not impl["printed"]):
        return "verdict %s but output %r" % (impl["valid"], impl["out"][:200])
    if impl["valid"] and not impl["process"]:
        return "verdict valid without a Process"
    return None


def deep_texts():
    """[(class, text)]: nesting far beyond what the interpreter's recursion limit allows"""
    out = []
    for n in (250, 400, 1000, 3000):
        out.append(("deep_not", "Task productionTask\n    Loop While " + "!" * n + "true\n        Move\nEnd\n"))
        out.append(("deep_paren", "Task productionTask\n    Loop While " + "(" * n + "true" + ")" * n
                    + "\n        Move\nEnd\n"))
        out.append(("deep_object", "Struct Sn\n    a: number\nEnd\nTask productionTask\n    Sv\n        In\n"
                    "            Sn\n            " + '{"a": ' * n + "1" + "}" * n + "\nEnd\n"))
        out.append(("deep_list", "Struct Sn\n    a: number[]\nEnd\nTask productionTask\n    Sv\n        In\n"
                    "            Sn\n            {\"a\": " + "[" * n + "]" * n + "}\nEnd\n"))
    # numbers beyond what the model's number type is given (and beyond json.loads' integer limit of
    # 4300 digits): a verdict without raising
    for k, lit in (("huge_int", "7" * 5000), ("huge_neg_int", "-" + "3" * 4400), ("huge_float", "1." + "5" * 5000)):
        out.append((k, "Struct Sn\n    a: number\nEnd\nTask productionTask\n    Sv\n        In\n"
                       "            Sn\n            {\"a\": " + lit + "}\nEnd\n"))
    out.append(("huge_loop_limit", "Task productionTask\n    Loop i To " + "9" * 5000 + "\n        Move\nEnd\n"))
    out.append(("huge_array_length", "Struct Sn\n    a: number[" + "9" * 5000 + "]\nEnd\nTask productionTask\n    Move\nEnd\n"))
    out.append(("huge_guard_int", "Task productionTask\n    Loop While " + "9" * 5000 + " < 1\n        Move\nEnd\n"))
    return out


def impl_only(kind, why):
    """texts judged on the implementation alone (no comparison of the verdict with the model)"""
    return why == "deep_nesting" or kind.startswith("huge_")


# ----------------------------------------------------------------------------------------
# input distribution
# ----------------------------------------------------------------------------------------
def gen_texts(pid, seed, n):
    """[(class, text)]"""
    import kind_check
    wf = [kind_check.wf_case("%d/%s/c16text/wf/%d" % (seed, pid, i))["text"] for i in range(max(12, n // 8))]
    nested = [kind_check.nested_array_case("%d/%s/c16text/nested/%d" % (seed, pid, i))["text"]
              for i in range(max(5, n // 30))]
    plan = kind_check.fault_plan(pid, "quick", seed + 17, 1)
    random.Random("%d/%s/c16text/faults" % (seed, pid)).shuffle(plan)
    faulty = [kind_check.fault_case(s, f, pk, d)["text"] for s, f, pk, d in plan[: max(12, n // 8)]]
    out = ([("wf", t) for t in wf[: max(8, n // 15)]] + [("nested", t) for t in nested]
           + [("fault", t) for t in faulty])
    # hand-written shapes the two special cases of TextPipeline.v are about, and degenerate texts
    out += [("lone_string_guard", 'Task productionTask\n    Loop While "s"\n        Sv\nEnd\n'),
            ("lone_string_guard", 'Task productionTask\n    Condition\n        "s"\n    Passed\n        Sv\nEnd\n'),
            ("empty", ""), ("blanks", "   "), ("only_comment", "# c\n"),
            ("nesting", "Task productionTask\n    Loop While " + "(" * 40 + "true" + ")" * 40 + "\n        Sv\nEnd\n"),
            ("nesting", "Task productionTask\n    Loop While " + "!" * 60 + "true\n        Sv\nEnd\n"),
            ("nesting", "Struct Sn\n    a: number[]\nEnd\nTask productionTask\n    Sv\n        In\n            Sn\n"
                        "            {\"a\": " + "[" * 30 + "]" * 30 + "}\nEnd\n")]
    rng = random.Random("%d/%s/c16text/fuzz" % (seed, pid))
    bases = wf + nested + faulty[: len(faulty) // 2]
    out += kind_check.fuzz_texts(rng, bases, max(0, n - len(out)))
    return out + deep_texts()


def payload_of(pid, kind, text, impl, model, why):
    return {"property": pid, "kind": "c16text", "class": kind, "text": text, "why": why,
            "impl": impl, "model": {"status": STATUS.get(model[0]), "syntax_messages": model[1],
                                    "other_messages": model[2]} if model else None}


def slice_c16text(pid, cfg, tier, seed, workdir, rep, stats, findings):
    from concurrent.futures import ProcessPoolExecutor
    import kind_check
    n = cfg.get("c16text_" + tier, SIZES[tier])
    items = gen_texts(pid, seed, n)
    stats["generated"] += len(items)
    stats["c16text_generated"] += len(items)
    keep = []
    for kind, text in items:
        why = outside_model(text)
        if impl_only(kind, why):
            # beyond the model: the implementation alone, no comparison of the verdict
            impl = run_impl(text)
            stats["c16text_impl_only"] += 1
            stats["c16text_impl_only:" + kind] += 1
            w = judge_impl_only(impl)
            if w:
                rep.violation(payload_of(pid, kind, text, impl, None, w))
            else:
                stats["c16text_impl_only_verdict:" + str(impl["valid"])] += 1
        elif why:
            stats["c16text_skipped:" + why] += 1
        else:
            keep.append((kind, text))
    if len(keep) < 600:
        impls = [run_impl(t) for _, t in keep]
    else:
        with ProcessPoolExecutor(max_workers=14, initializer=kind_check._init_worker, initargs=(workdir,)) as ex:
            impls = list(ex.map(_impl_one, [t for _, t in keep], chunksize=8))
    models = model_eval([t for _, t in keep], workdir)
    samples = []
    for (kind, text), impl, model in zip(keep, impls, models):
        stats["compared"] += 1
        stats["c16text_compared"] += 1
        stats["c16text_class:" + kind] += 1
        why = judge(impl, model)
        if why:
            rep.violation(payload_of(pid, kind, text, impl, model, why))
            continue
        stats["agree"] += 1
        stats["c16text_agree"] += 1
        outcome = "valid" if model[1] + model[2] == 0 else ("syntax_error" if model[1] else "semantic_messages")
        stats["c16text_outcome:" + outcome] += 1
        stats.setdefault("_distinct", set()).add(("c16text", text))
        if len(samples) < 2 and outcome != "syntax_error" and kind not in ("wf",):
            samples.append({"kind": "c16text", "class": kind, "text": text[:400], "outcome": outcome,
                            "model": list(model)})
    return samples


def replay_c16text(pid, cfg, payload, workdir):
    text = payload["text"]
    why = outside_model(text)
    if impl_only(str(payload.get("class", "")), why):
        impl = run_impl(text)
        w = judge_impl_only(impl)
        return {"fails": bool(w), "why": w if w else
                "deeply nested text (beyond the model): parse_string returns valid=%s, output %r" % (
                    impl["valid"], impl["out"][:80])}
    if why:
        return {"fails": False, "why": "outside the model (%s): not compared" % why}
    impl = run_impl(text)
    model = model_eval([text], workdir, tag="c16text_replay")[0]
    why = judge(impl, model)
    return {"fails": bool(why), "why": why if why else
            "parse_string and validate_text agree: valid=%s, %d syntax / %d other messages" % (
                impl["valid"], model[1], model[2])}


KIND = {"c16text": {"slice": slice_c16text, "replay": replay_c16text,
                    "rule": "program TEXTS: generated programs, seeded semantic faults, lists inside lists, and "
                            "character / token / line mutations, truncations, random token sequences and random "
                            "bytes, plus deeply nested texts judged on the implementation alone; TextPipeline.validate_text is evaluated on the characters inside coqc and its "
                            "verdict, 'printed something' and 'syntax error (no Process)' are compared with the real "
                            "parse_string; non-trivial = agreement; distinct = distinct texts"}}
