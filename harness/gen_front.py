"""Typed random generator of the well-formed family for the front-end check (C12):
struct definitions with primitive, struct-typed, fixed and open array attributes; tasks with
inputs and outputs; services and task calls with mixed variable / attribute-path /
struct-literal inputs and with outputs; Parallel, while loops, counting and parallel loops,
conditions with and without a Failed branch; expressions over all operators, fully
parenthesised or as operator chains whose intended tree is computed by the
implementation-independent precedence parser gen_expr.parse_standard."""
from fractions import Fraction

import gen_expr
from gen_run import DYADIC, DIVISORS, STRUCTS

NUM = ("plain", "number")
BOOL = ("plain", "boolean")
STR = ("plain", "string")

STRINGS = ["a", "b c", "x_1", "", "a # b", "{k}", "Task End", "ä€", "it's", "say \"hi\"", "1.5", "[0]"]
EXPR_STRINGS = ["a", "b c", "x_1", "a # b", "{", "End"]

ATTR_TYPES = [NUM, BOOL, STR, ("plain", "Inner"), ("plain", "Item"), ("array", "number", None),
              ("array", "string", 2), ("array", "Item", 3), ("array", "Inner", None),
              ("array", "boolean", 1), ("array", "Item", None)]


class FrontGen:
    def __init__(self, rng, max_tasks=3, max_depth=3, max_block=3, expr_mode="mixed"):
        self.rng = rng
        self.max_tasks = max_tasks
        self.max_depth = max_depth
        self.max_block = max_block
        self.expr_mode = expr_mode      # "paren" | "chain" | "mixed"
        self.nsvc = 0
        self.budget = 14
        self.chains = []                # token lists of the unparenthesised expressions
        self.lit_pool = {}
        self.twins = {}
        self.structs = {}

    # ---- structs ---------------------------------------------------------------------
    def gen_structs(self):
        r = self.rng
        out = [dict(s) for s in STRUCTS]
        for i in range(r.randint(0, 2)):
            attrs = []
            for j in range(r.randint(1, 4)):
                attrs.append(("a%d" % j, r.choice(ATTR_TYPES)))
            out.append({"name": "Extra%d" % i, "attrs": attrs})
        # struct definitions with identical attribute lists under different names: literals of
        # both can then have the same body text
        if r.random() < 0.6:
            for base in r.sample(out, r.randint(1, 2)):
                out.append({"name": base["name"] + "Twin", "attrs": list(base["attrs"])})
        self.structs = {s["name"]: s for s in out}
        self.twins = {}
        for s in out:
            if s["name"].endswith("Twin"):
                self.twins[s["name"]] = s["name"][:-4]
                self.twins[s["name"][:-4]] = s["name"]
        return out

    def paths_of(self, sname, want):
        """attribute paths (lists of pelems) from a value of struct sname to a primitive `want`"""
        out = []
        for n, t in self.structs[sname]["attrs"]:
            if t == ("plain", want):
                out.append([("f", n)])
            elif t[0] == "plain" and t[1] in self.structs and t[1] != sname:
                for p in self.paths_of(t[1], want):
                    if len(p) < 3:
                        out.append([("f", n)] + p)
            elif t[0] == "array" and t[1] in self.structs and t[1] != sname:
                # an index in the MIDDLE of a path (v.arr[1].field, v.arr[1].inner.field)
                k = t[2] if isinstance(t[2], int) else 3
                for p in self.paths_of(t[1], want):
                    if len(p) < 3:
                        out.append([("f", n), ("il", self.rng.randint(0, max(0, k - 1)))] + p)
        return out

    # ---- literals --------------------------------------------------------------------
    def lit_value(self, t, depth=0):
        r = self.rng
        if t[0] == "array":
            n = t[2] if isinstance(t[2], int) else r.randint(0, 3)
            return ("arr", [self.lit_value(("plain", t[1]), depth + 1) for _ in range(n)])
        p = t[1]
        if p == "number":
            return ("num", r.choice(DYADIC + [Fraction(10), Fraction(-7, 4), Fraction(125, 1000)]))
        if p == "boolean":
            return ("bool", r.random() < 0.5)
        if p == "string":
            return ("str", r.choice(STRINGS))
        return ("obj", [(n, self.lit_value(ty, depth + 1)) for n, ty in self.structs[p]["attrs"]])

    def literal(self, sname):
        """a literal of struct sname; bodies are reused: the same body appears again for the
        same type at another call site, and for a struct with the same attribute list"""
        r = self.rng
        sig = repr(self.structs[sname]["attrs"])
        pool = self.lit_pool.setdefault(sig, [])
        if pool and r.random() < 0.5:
            body = r.choice(pool)
        else:
            body = self.lit_value(("plain", sname))
            pool.append(body)
        return ("lit", sname, body)

    # ---- expressions -----------------------------------------------------------------
    def num_atom(self, vars_):
        r = self.rng
        cands = [(v, p) for v, t in vars_.items() if t[0] == "plain" and t[1] in self.structs
                 for p in self.paths_of(t[1], "number")]
        if cands and r.random() < 0.6:
            v, p = r.choice(cands)
            return ("path", v, list(p))
        return ("num", r.choice(DYADIC + [Fraction(8), Fraction(6), Fraction(25, 4)]))

    def bool_atom(self, vars_):
        r = self.rng
        cands = [(v, p) for v, t in vars_.items() if t[0] == "plain" and t[1] in self.structs
                 for p in self.paths_of(t[1], "boolean")]
        if cands and r.random() < 0.6:
            v, p = r.choice(cands)
            return ("path", v, list(p))
        return ("bool", r.random() < 0.5)

    def str_cmp(self, vars_):
        r = self.rng
        cands = [(v, p) for v, t in vars_.items() if t[0] == "plain" and t[1] in self.structs
                 for p in self.paths_of(t[1], "string")]
        lit = ("str", r.choice(EXPR_STRINGS))
        if cands:
            v, p = r.choice(cands)
            a, b = ("path", v, list(p)), lit
        else:
            a, b = lit, ("str", r.choice(EXPR_STRINGS))
        if r.random() < 0.5:
            a, b = b, a
        return [a, r.choice(["<", "<=", ">", ">="]), b]

    def num_chain(self, vars_, n_ops, allow_paren=True):
        r = self.rng
        toks = []

        def operand(divisor):
            if allow_paren and r.random() < 0.2:
                return ["("] + self.num_chain(vars_, r.randint(1, 2), False) + [")"]
            if divisor:
                return [("num", r.choice(DIVISORS))]
            return [self.num_atom(vars_)]

        toks += operand(False)
        for _ in range(n_ops):
            op = r.choice(["+", "-", "*", "/"])
            toks.append(op)
            toks += operand(op == "/")
        return toks

    def bool_chain(self, vars_, depth):
        r = self.rng

        def comparison():
            c = r.random()
            if c < 0.5:
                return (self.num_chain(vars_, r.randint(0, 3)) + [r.choice(["<", "<=", ">", ">=", "==", "!="])]
                        + self.num_chain(vars_, r.randint(0, 2)))
            if c < 0.58:
                return self.str_cmp(vars_)
            if c < 0.72:
                return [self.bool_atom(vars_)]
            if c < 0.87:
                inner = ["("] + self.bool_chain(vars_, 0) + [")"] if r.random() < 0.6 else [self.bool_atom(vars_)]
                return ["!"] + inner
            return ["("] + self.bool_chain(vars_, max(0, depth - 1)) + [")"]

        toks = comparison()
        for _ in range(r.randint(0, depth + 1)):
            toks.append(r.choice(["And", "Or"]))
            toks += comparison()
        return toks

    def paren_tree(self, vars_, depth, want="bool"):
        """every compound operand is parenthesised: the tree does not depend on precedence"""
        r = self.rng

        def wrap(e):
            return ("paren", e) if e[0] in ("bin", "not") else e

        if want == "num":
            if depth <= 0 or r.random() < 0.35:
                return self.num_atom(vars_)
            op = r.choice(["+", "-", "*", "/"])
            left = wrap(self.paren_tree(vars_, depth - 1, "num"))
            right = ("num", r.choice(DIVISORS)) if op == "/" else wrap(self.paren_tree(vars_, depth - 1, "num"))
            return ("bin", op, left, right)
        if depth <= 0 or r.random() < 0.2:
            return self.bool_atom(vars_)
        c = r.random()
        if c < 0.45:
            return ("bin", r.choice(["<", "<=", ">", ">=", "==", "!="]),
                    wrap(self.paren_tree(vars_, depth - 1, "num")), wrap(self.paren_tree(vars_, depth - 1, "num")))
        if c < 0.5:
            a, op, b = self.str_cmp(vars_)
            return ("bin", op, a, b)
        if c < 0.65:
            return ("not", wrap(self.paren_tree(vars_, depth - 1)))
        if c < 0.75:
            return ("paren", self.paren_tree(vars_, depth - 1))
        return ("bin", r.choice(["And", "Or"]), wrap(self.paren_tree(vars_, depth - 1)),
                wrap(self.paren_tree(vars_, depth - 1)))

    def expr(self, vars_):
        r = self.rng
        mode = self.expr_mode
        if mode == "mixed":
            mode = "chain" if r.random() < 0.5 else "paren"
        if mode == "chain":
            toks = self.bool_chain(vars_, r.randint(0, 2))
            self.chains.append(toks)
            return gen_expr.parse_standard(toks)
        return self.paren_tree(vars_, r.randint(1, 3))

    def limit(self, vars_):
        r = self.rng
        cands = [(v, p) for v, t in vars_.items() if t[0] == "plain" and t[1] in self.structs
                 for p in self.paths_of(t[1], "number")]
        if cands and r.random() < 0.5:
            v, p = r.choice(cands)
            return ("path", v, list(p))
        return ("int", r.choice([0, 1, 2, 3, 10, 25]))

    # ---- parameters ------------------------------------------------------------------
    def arg_for(self, ty, vars_, loopvars):
        """an argument of declared type ty (a vtype)"""
        r = self.rng
        opts = []
        for v, t in vars_.items():
            if t == ty:
                opts.append(("var", v))
            if t[0] == "plain" and t[1] in self.structs:
                for n, at in self.structs[t[1]]["attrs"]:
                    if at == ty:
                        opts.append(("path", v, [("f", n)]))
                    if at[0] == "array" and ty == ("plain", at[1]) and at[1] in self.structs:
                        k = at[2] if isinstance(at[2], int) else 3
                        opts.append(("path", v, [("f", n), ("il", r.randint(0, max(0, k - 1)))]))
                        for lv in loopvars:
                            opts.append(("path", v, [("f", n), ("iv", lv)]))
                    if at[0] == "array" and at[1] in self.structs and at[1] != t[1]:
                        # index followed by further attributes (and a second index)
                        k = at[2] if isinstance(at[2], int) else 3
                        for n2, at2 in self.structs[at[1]]["attrs"]:
                            ix = [("il", r.randint(0, max(0, k - 1)))] + [("iv", lv) for lv in loopvars]
                            if at2 == ty:
                                for e in ix:
                                    opts.append(("path", v, [("f", n), e, ("f", n2)]))
                            if at2[0] == "array" and ty == ("plain", at2[1]):
                                for e in ix:
                                    opts.append(("path", v, [("f", n), e, ("f", n2), ("il", r.randint(0, 2))]))
                    if at[0] == "plain" and at[1] in self.structs and at[1] != t[1]:
                        for n2, at2 in self.structs[at[1]]["attrs"]:
                            if at2 == ty:
                                opts.append(("path", v, [("f", n), ("f", n2)]))
        if ty[0] == "plain" and ty[1] in self.structs:
            opts.append(self.literal(ty[1]))
            opts.append(self.literal(ty[1]))
        if not opts:
            return None
        return r.choice(opts)

    def service_ins(self, vars_, loopvars):
        r = self.rng
        if r.random() < 0.45:
            return []
        out = []
        names = list(self.structs)
        for _ in range(r.randint(1, 4)):
            ty = r.choice([("plain", r.choice(names)), ("plain", r.choice(names)), NUM, STR, BOOL])
            a = self.arg_for(ty, vars_, loopvars)
            if a is not None:
                out.append(a)
                if a[0] == "lit" and a[1] in self.twins and r.random() < 0.5:
                    out.append(("lit", self.twins[a[1]], a[2]))
        return out

    def fresh_outs(self, vars_, force_d):
        r = self.rng
        outs = []
        if force_d:
            outs.append(("d", ("plain", "Data")))
        if r.random() < (0.15 if force_d else 0.3):
            for _ in range(r.randint(1, 2)):
                self.nvar += 1
                c = r.random()
                if c < 0.6:
                    t = ("plain", r.choice(list(self.structs)))
                elif c < 0.8:
                    t = ("array", r.choice(["Item", "Inner", "number", "string"]), r.choice([None, 2, 3]))
                else:
                    t = r.choice([NUM, STR, BOOL])
                outs.append(("v%d" % self.nvar, t))
        for n, t in outs:
            vars_[n] = t
        return outs

    # ---- program ---------------------------------------------------------------------
    def gen_program(self):
        r = self.rng
        structs = self.gen_structs()
        self.nvar = 0
        ntasks = r.randint(0, self.max_tasks)
        sigs = []
        for i in range(ntasks):
            ins = []
            if r.random() < 0.6:
                for j in range(r.randint(1, 3)):
                    c = r.random()
                    if c < 0.7:
                        t = ("plain", r.choice(["Data", "Inner", "Item", "Item"] + list(self.structs)))
                    elif c < 0.85:
                        t = NUM
                    else:
                        t = ("array", r.choice(["Item", "number"]), r.choice([None, 3]))
                    ins.append(("p%d" % j, t))
            has_out = r.random() < 0.4
            sigs.append({"name": "t%d" % (i + 1), "ins": ins, "outs": [("d", ("plain", "Data"))] if has_out else []})
        order = [{"name": "productionTask", "ins": [], "outs": []}] + sigs
        tasks = []
        for idx, sg in enumerate(order):
            vars_ = {n: t for n, t in sg["ins"]}
            self.cur = {"vars": vars_, "callable": order[idx + 1:], "have_d": False, "need_d": bool(sg["outs"])}
            if sg["outs"]:
                # the task's output variable is produced by its first statement
                self.nsvc += 1
                first = ("service", "S%d" % self.nsvc, [], self.fresh_outs(vars_, True))
                self.cur["have_d"] = True
                body = [first] + self.block(1, [], n=r.randint(0, self.max_block - 1))
            else:
                body = self.block(1, [])
            tasks.append({"name": sg["name"], "ins": list(sg["ins"]), "body": body,
                          "outs": [n for n, _ in sg["outs"]]})
        items = [("struct", i) for i in range(len(structs))] + [("task", i) for i in range(len(tasks))]
        if r.random() < 0.5:
            r.shuffle(items)
        return {"structs": structs, "tasks": tasks, "order": items}

    def block(self, depth, loopvars, n=None):
        k = n if n is not None else self.rng.randint(1, self.max_block)
        return [self.stmt(depth, loopvars) for _ in range(k)]

    def pick_kind(self, depth):
        w = {"service": 5, "call": 3, "parallel": 1, "while": 1, "count": 1, "parloop": 1, "cond": 2}
        if depth >= self.max_depth or self.budget <= 0:
            for k in ("parallel", "while", "count", "cond", "parloop"):
                w[k] = 0
        if not self.cur["callable"]:
            w["call"] = w["parallel"] = w["parloop"] = 0
        if self.budget <= 0:
            w["call"] = 0
        x = self.rng.random() * sum(w.values())
        for k, v in w.items():
            x -= v
            if x < 0:
                return k
        return "service"

    def mk_call(self, loopvars):
        r = self.rng
        sg = r.choice(self.cur["callable"])
        ins = []
        for n, t in sg["ins"]:
            a = self.arg_for(t, self.cur["vars"], loopvars)
            if a is None:
                return None
            ins.append(a)
        outs = []
        if sg["outs"]:
            for n, t in sg["outs"]:
                self.nvar += 1
                outs.append(("r%d" % self.nvar, t))
                self.cur["vars"]["r%d" % self.nvar] = t
        return (sg["name"], ins, outs)

    def stmt(self, depth, loopvars):
        r = self.rng
        kind = self.pick_kind(depth)
        vars_ = self.cur["vars"]
        c = None
        if kind in ("call", "parallel", "parloop"):
            c = self.mk_call(loopvars + (["i%d" % depth] if kind == "parloop" else []))
            if c is None:
                kind = "service"
        if kind == "service":
            self.budget -= 1
            self.nsvc += 1
            ins = self.service_ins(vars_, loopvars)
            force_d = not self.cur["have_d"]
            outs = self.fresh_outs(vars_, force_d)
            self.cur["have_d"] = True
            return ("service", "S%d" % self.nsvc, ins, outs)
        if kind == "call":
            self.budget -= 1
            return ("call", c[0], c[1], c[2])
        if kind == "parallel":
            calls = [c]
            for _ in range(r.randint(0, 2)):
                c2 = self.mk_call(loopvars)
                if c2 is not None:
                    calls.append(c2)
            self.budget -= len(calls)
            return ("parallel", calls)
        if kind == "parloop":
            self.budget -= 2
            lv = "i%d" % depth
            return ("count", True, lv, self.limit(vars_), [("call", c[0], c[1], c[2])])
        if kind == "while":
            return ("while", self.expr(vars_), self.block(depth + 1, loopvars))
        if kind == "count":
            lv = "i%d" % depth
            return ("count", False, lv, self.limit(vars_), self.block(depth + 1, loopvars + [lv]))
        if kind == "cond":
            e = self.expr(vars_)
            passed = self.block(depth + 1, loopvars)
            failed = self.block(depth + 1, loopvars) if r.random() < 0.5 else []
            return ("cond", e, passed, failed)
        raise ValueError(kind)


def gen_program(rng, **kw):
    g = FrontGen(rng, **kw)
    prog = g.gen_program()
    return prog, g.chains


# ---- shape of the known finding D14 as it shows in the tree (C12) -------------------------
def prec_split(toks):
    """inside one parenthesis level a '/' chain continued by '*', or a '+' chain continued by
    '-': the generated parser ranks '*' above '/' and '-' above '+' (separate levels), so the
    tree it builds groups 'a / b * c' as a / (b * c) and 'a + b - c' as a + (b - c)"""
    st = [{"/": False, "+": False}]
    for t in toks:
        if t == "(":
            st.append({"/": False, "+": False})
        elif t == ")":
            st.pop()
        elif isinstance(t, str):
            cur = st[-1]
            if t == "/":
                cur["/"] = True
            elif t == "*":
                if cur["/"]:
                    return True
            elif t == "+":
                cur["+"] = True
                cur["/"] = False
            elif t == "-":
                if cur["+"]:
                    return True
                cur["/"] = False
            elif t != "!":
                cur["/"] = False
                cur["+"] = False
    return False


def stats(prog):
    """input distribution counters"""
    c = {"structs": len(prog["structs"]), "tasks": len(prog["tasks"]), "stmts": 0, "depth": 0, "literals": 0,
         "params": 0, "exprs": 0, "service": 0, "call": 0, "parallel": 0, "while": 0, "count": 0, "parloop": 0,
         "cond": 0, "call_outs": 0, "array_types": 0, "mixed_param_lists": 0,
         "literal_bodies_repeated_same_type": 0, "literal_bodies_shared_by_types": 0,
         "programs_with_shared_literal_body": 0}

    lits = []

    def params(ins, outs):
        lits.extend((p[1], repr(p[2])) for p in ins if p[0] == "lit")
        c["params"] += len(ins)
        c["literals"] += sum(1 for p in ins if p[0] == "lit")
        kinds = {p[0] == "lit" for p in ins}
        if len(kinds) == 2:
            c["mixed_param_lists"] += 1
        c["call_outs"] += len(outs)
        c["array_types"] += sum(1 for _, t in outs if t[0] == "array")

    def walk(ss, d):
        c["depth"] = max(c["depth"], d)
        for s in ss:
            c["stmts"] += 1
            k = s[0]
            if k in ("service", "call"):
                c[k] += 1
                params(s[2], s[3])
            elif k == "parallel":
                c[k] += 1
                for cl in s[1]:
                    params(cl[1], cl[2])
            elif k == "while":
                c[k] += 1
                c["exprs"] += 1
                walk(s[2], d + 1)
            elif k == "count":
                c["parloop" if s[1] else "count"] += 1
                walk(s[4], d + 1)
            elif k == "cond":
                c[k] += 1
                c["exprs"] += 1
                walk(s[2], d + 1)
                walk(s[3], d + 1)

    for s in prog["structs"]:
        c["array_types"] += sum(1 for _, t in s["attrs"] if t[0] == "array")
    for t in prog["tasks"]:
        c["array_types"] += sum(1 for _, ty in t["ins"] if ty[0] == "array")
        walk(t["body"], 1)
    bodies = {}
    for n, b in lits:
        bodies.setdefault(b, []).append(n)
    c["literal_bodies_repeated_same_type"] = sum(1 for ns in bodies.values() if len(ns) > len(set(ns)))
    c["literal_bodies_shared_by_types"] = sum(1 for ns in bodies.values() if len(set(ns)) > 1)
    c["programs_with_shared_literal_body"] = 1 if any(len(ns) > 1 for ns in bodies.values()) else 0
    return c
