"""Per-property configuration of the checks: which Coq theorems decide the property,
which correspondence slice ties the model to the code, which projection of the trace the
slice compares and which executable monitor is applied to the implementation's trace."""

# generator profiles for `run` cases: keyword arguments of gen_run.Profile plus the
# driver options test_ids / mutate
RUN_PROFILES = {
    "default": dict(),
    "imm": dict(imm=0.5),
    "sync": dict(imm=0.9, w={"cond": 4, "count": 2}),            # orders that finish inside start()
    "blocks": dict(max_block=4, w={"service": 4, "call": 3, "cond": 2, "count": 2, "while": 1, "parallel": 2}),
    "parallel": dict(w={"parallel": 5, "call": 3, "service": 4}, max_tasks=3, imm=0.2),
    "cond": dict(w={"cond": 6, "service": 4, "call": 2, "parallel": 1, "count": 1, "while": 1}, imm=0.2),
    "loops": dict(w={"count": 4, "while": 3, "service": 4, "cond": 2, "call": 2, "parallel": 1}, imm=0.3),
    "parloop": dict(w={"parloop": 4, "parallel": 2, "service": 4, "call": 2, "cond": 1}, imm=0.2, params=0.7),
    "parloop_all": dict(w={"parloop": 4, "parallel": 2, "service": 4, "call": 2, "cond": 1, "count": 2},
                        imm=0.0, params=0.5, parloop_shapes="all"),
    # parallel loops at the end of called tasks, inside loops / conditions / parallel branches
    "parloop_mix": dict(w={"parloop": 4, "call": 4, "count": 3, "while": 1, "cond": 2, "parallel": 2, "service": 3},
                        imm=0.1, params=0.3, parloop_shapes="all", max_block=2, max_tasks=4),
    "junk": dict(junk=0.4, imm=0.1),
    # Parallel blocks executed repeatedly, with late / duplicate completions of earlier iterations
    "parallel_junk": dict(junk=0.4, imm=0.1, w={"count": 4, "while": 1, "parallel": 5, "call": 3, "service": 3}),
    # identifiers across junk events and repeated start() calls in the middle of a run
    "ids_junk": dict(junk=0.45, imm=0.2, w={"count": 5, "while": 1, "parallel": 1, "call": 2, "service": 4}),
    "uuid": dict(test_ids=False, imm=0.2, w={"count": 3, "parallel": 2, "parloop": 1}),
    "uuid_loops_calls": dict(test_ids=False, imm=0.2, max_depth=4, max_tasks=4,
                             w={"count": 4, "while": 1, "call": 5, "service": 3, "parallel": 1, "cond": 1}),
    "uuid_cond_loops": dict(test_ids=False, imm=0.3, max_depth=4,
                            w={"count": 4, "while": 2, "cond": 5, "service": 4, "call": 2, "parallel": 1}),
    "params": dict(params=1.0, w={"count": 4, "parloop": 2, "call": 3, "service": 4}, imm=0.1),
    # several loop-indexed parameters per call, several parallel loops per task
    "params_indexed": dict(params=1.0, item_bias=0.8, imm=0.1, max_block=4,
                           w={"parloop": 5, "count": 3, "call": 3, "service": 3, "cond": 0, "while": 0, "parallel": 1}),
    # parallel-loop instances that finish completely inside the start of the next one
    "params_imm": dict(params=1.0, item_bias=0.8, imm=0.6, max_block=3,
                       w={"parloop": 6, "count": 2, "call": 3, "service": 3, "cond": 0, "while": 0, "parallel": 1}),
    # ... every service completes at once: instance 0 is over before instance 1 is announced
    "params_imm_all": dict(params=1.0, item_bias=0.9, imm=1.0, max_block=2, max_tasks=3,
                           w={"parloop": 7, "count": 1, "call": 3, "service": 3, "cond": 0, "while": 0, "parallel": 1}),
    # several registered functions: every one of them sees the same substituted list
    "params_listeners": dict(params=1.0, item_bias=0.8, imm=0.1, listeners=0.5, max_block=3,
                             w={"parloop": 5, "count": 3, "call": 3, "service": 3, "cond": 0, "while": 0, "parallel": 1}),
    "hostile_append": dict(params=1.0, mutate="append", w={"count": 4, "parloop": 2, "call": 3}),
    "hostile_clear": dict(params=1.0, mutate="clear", w={"count": 4, "parloop": 2, "call": 3}),
    "hostile_replace": dict(params=1.0, mutate="replace", w={"count": 4, "parloop": 2, "call": 3}),
    # completions of OTHER pending services sent from inside notifications
    "react": dict(react=0.3, imm=0.1, w={"parallel": 3, "call": 3}),
    "react_loops": dict(react=0.25, imm=0.2, w={"parallel": 2, "count": 2, "while": 1, "cond": 2}),
    "react_parloop": dict(react=0.25, imm=0.0, w={"parloop": 3, "parallel": 2, "call": 2}, params=0.5),
    "react_junk": dict(react=0.25, junk=0.3, w={"parallel": 3}),
    "react_all": dict(react=0.3, react_all=True, imm=0.1, w={"parallel": 3, "call": 3}),
    "listeners_imm": dict(listeners=0.4, observers=0.2, imm=0.4, w={"count": 3, "while": 1, "parallel": 2}),
    "observers": dict(observers=0.35, imm=0.0),
    "observers_loops": dict(observers=0.35, imm=0.0, w={"count": 3, "while": 2, "cond": 2}),
    "listeners": dict(listeners=0.4, imm=0.0),
    # UUID mode: the log entries must name the identifier the callbacks see, also for calls in loops
    "observers_uuid_loops": dict(observers=0.35, imm=0.0, test_ids=False, max_tasks=4,
                                 w={"count": 4, "while": 1, "call": 5, "service": 3, "cond": 1}),
    # which exit of the production task fires last: tasks ending in parallel loops, called last
    "observers_parloop": dict(observers=0.35, imm=0.1, parloop_shapes="all", max_block=2, max_tasks=4,
                              w={"parloop": 4, "call": 5, "service": 3, "cond": 1, "parallel": 1}),
}

PROPS = {
    "C01": dict(kind="run", proj="P_C01", mon="mon_C01", property_files=("Refinement", "RefinementTransfer"),
                profiles=["default", "imm", "sync", "loops", "parallel", "parloop", "react", "react_loops"],
                quick=240, thorough=6000, finding_profiles=["react_all", "parloop_all"]),
    "C02": dict(kind="run", proj="P_seq", mon="mon_C02seq", property_files=("C02net", "C02seq", "Refinement", "RefinementTransfer"),
                profiles=["blocks", "default", "imm", "loops", "react_loops"], quick=240, thorough=6000,
                finding_profiles=["parloop_all", "parloop_mix"]),
    "C03": dict(kind="run", proj="P_set", mon="mon_C03", property_files=("C02seq", "C03fork", "Refinement", "RefinementTransfer"),
                profiles=["parallel", "parloop", "react", "parallel_junk"], quick=240, thorough=6000,
                finding_profiles=["parloop_all"]),
    "C04": dict(kind="run", proj="P_C04", mon="mon_C04", property_files=("C04ctx", "C02seq", "C04decide", "Refinement", "RefinementTransfer"),
                profiles=["cond", "default", "react_loops"], quick=240, thorough=6000,
                finding_profiles=["parloop_all"]),
    "C05": dict(kind="run", proj="P_seq", mon="mon_C05", property_files=("C02seq", "C05iter", "Refinement", "RefinementTransfer"),
                profiles=["loops", "react_loops"], quick=240, thorough=6000,
                finding_profiles=["parloop_all", "parloop_mix"]),
    "C06": dict(kind="run", proj="P_set", mon="mon_C06", property_files=("C02seq", "C06inst"),
                profiles=["parloop", "react_parloop"], quick=240, thorough=6000, finding_profiles=["parloop_all", "parloop_mix"]),
    "C07": dict(kind="run", proj="P_ids", mon="mon_C07", property_files=("Refinement", "RefinementTransfer"),
                profiles=["default", "imm", "parallel", "loops", "parloop", "react", "react_loops", "uuid_loops_calls"],
                quick=240, thorough=6000, finding_profiles=["react_all", "parloop_all"]),
    "C08": dict(kind="run", proj="P_C08", mon="mon_C08", property_files=("RefinementTransfer",),
                profiles=["junk", "react_junk", "react"], quick=240, thorough=6000,
                finding_profiles=["parloop_all"]),
    "C14": dict(kind="run", proj="P_ids", mon="mon_C14", property_files=("C14net", "RefinementTransfer"),
                profiles=["uuid", "uuid_cond_loops", "uuid_loops_calls", "loops", "parloop", "parallel", "react_loops", "ids_junk"], quick=240, thorough=6000,
                finding_profiles=["parloop_all"]),
    "C15": dict(kind="run", proj="P_C15", mon="mon_C15", property_files=("C15net", "C15params", "C04decide"),
                profiles=["params", "params_indexed", "params_imm", "params_imm_all", "params_listeners", "hostile_append", "hostile_clear", "hostile_replace"],
                quick=240, thorough=6000, finding_profiles=["parloop_all"]),
    "C17": dict(kind="run", proj="P_C17", mon="mon_C17", property_files=("C20net", "C17obs", "RefinementTransfer"), extra_kinds=("obs",), py_monitor="petri_net_notices",
                profiles=["observers", "observers_loops", "observers_uuid_loops"], quick=200, thorough=5000, finding_profiles=["observers_parloop"]),
    "C20": dict(kind="run", proj="P_C20", mon="mon_C20", property_files=("C20net", "C20reg", "RefinementTransfer"), extra_kinds=("reg",),
                profiles=["listeners"], quick=200, thorough=5000, finding_profiles=["listeners_imm"]),
    # C13: expressions in isolation (kind expr) + guards evaluated repeatedly in running orders
    # (Conditions and loops re-evaluated against current values), compared on oracle queries
    "C13": dict(kind="expr", property_files=("C13prec",), quick=600, thorough=20000, proj="P_C04", mon="mon_true",
                run_profiles=["cond", "loops"], run_quick=120, run_thorough=3000),
}

# which regenerated-table obligations (coq/Gen/Obligations<X>.v) tie the code each property is
# anchored in; a property's check builds its own theorem file and these, nothing else
OBLIGATIONS = {
    "C01": ["Wiring", "Eval", "Gate", "Finished", "Events"], "C02": ["Wiring", "Eval"],
    "C03": ["Wiring", "Eval"], "C04": ["Wiring", "Eval", "Decide"], "C05": ["Wiring", "Eval", "Decide"],
    "C06": ["Wiring", "Eval", "ParLoop"], "C07": ["Wiring", "Eval", "Started", "Finished"],
    "C08": ["Gate", "Events", "Register"], "C13": ["Ops", "Front", "Decide"], "C14": ["Started", "Wiring", "Eval"],
    "C15": ["Subst", "Started", "ParLoop", "Eval", "Wiring"], "C17": ["Finished", "Started", "Notify", "Wiring"], "C20": ["Finished", "Started", "Register"],
    "C18": ["Gate", "Wiring"], "C12": ["Front", "CharLexer"],
}
RUNTIME = {"run": ["NetRun.vo", "Monitors.vo"], "config": ["NetRun.vo", "Monitors.vo"],
           "expr": ["Expr.vo", "NetRun.vo", "Monitors.vo"]}


def build_targets(pid):
    """(runtime targets, theorem + obligation targets) for common.build; (None, None) = everything"""
    cfg = PROPS.get(pid, {})
    if "targets" in cfg:
        return cfg.get("runtime"), cfg["targets"]
    if pid not in OBLIGATIONS or cfg.get("kind") not in RUNTIME:
        return None, None
    return (RUNTIME[cfg["kind"]],
            ["Properties/%s.vo" % pid] + ["Properties/%s.vo" % f for f in cfg.get("property_files", ())]
            + ["Gen/Obligations%s.vo" % o for o in OBLIGATIONS[pid]])


# plug-in property tables: every harness/props_<name>.py exposes PROPS (and optionally RUN_PROFILES)
import os as _os
for _f in sorted(_os.listdir(_os.path.dirname(_os.path.abspath(__file__)))):
    if _f.startswith("props_") and _f.endswith(".py"):
        _m = __import__(_f[:-3])
        PROPS.update(getattr(_m, "PROPS", {}))
        RUN_PROFILES.update(getattr(_m, "RUN_PROFILES", {}))
