"""Fault catalogue (DESIGN.md Appendix B): injectors for every class x position kind.

inject(prog, rng, fault_id, pos_kind) takes a well-formed program (gen_check.WGen) and
returns a dict
    prog   the mutated program (one static error, everything else untouched)
    fault  the catalogue id, e.g. "F05b"
    pos    the position kind
    span   key of gen_check.render's line map naming the smallest statement/definition that
           contains the offending construct, or "file" for errors about the file as a whole
or None when the combination does not apply.

Every mutant is built on top of three support structs and one support task that are
appended to the program (the program stays well-formed; certified by wf_dec in the slice):

    Struct Fq   count: number  flag: boolean  label: string  inner: Fin  items: Fin[]
                nums: number[2]  fixed: Fin[2]
    Struct Fin  n: number  ok: boolean  pair: number[2]
    Task fcallee  In a: Fq, b: number   Sfc In a Out r: Fin   Out r
"""
from fractions import Fraction
import gen_check

FQ = ("plain", "Fq")
FIN = ("plain", "Fin")
NUM = ("plain", "number")

SUPPORT_STRUCTS = [
    {"name": "Fq", "attrs": [("count", NUM), ("flag", ("plain", "boolean")), ("label", ("plain", "string")),
                             ("inner", FIN), ("items", ("array", "Fin", None)),
                             ("nums", ("array", "number", 2)), ("fixed", ("array", "Fin", 2))]},
    {"name": "Fin", "attrs": [("n", NUM), ("ok", ("plain", "boolean")), ("pair", ("array", "number", 2))]},
]
SUPPORT_TASK = {"name": "fcallee", "ins": [("a", FQ), ("b", NUM)],
                "body": [("service", "Sfc", [("var", "a")], [("r", FIN)])], "outs": ["r"]}


def n(x):
    return ("num", Fraction(x))


def fin_json(**over):
    d = {"n": n(1), "ok": ("bool", True), "pair": ("arr", [n(1), n(2)])}
    d.update(over)
    return ("obj", [(k, v) for k, v in d.items() if v is not None])


def fq_json(**over):
    d = {"count": n(2), "flag": ("bool", False), "label": ("str", "a"), "inner": fin_json(),
         "items": ("arr", [fin_json(), fin_json()]), "nums": ("arr", [n(1), n(2)]),
         "fixed": ("arr", [fin_json(), fin_json()])}
    d.update(over)
    return ("obj", [(k, v) for k, v in d.items() if v is not None])


def P(v, *fs):
    out = []
    for f in fs:
        if isinstance(f, int):
            out.append(("il", f))
        elif f.startswith("@"):
            out.append(("iv", f[1:]))
        else:
            out.append(("f", f))
    return ("path", v, out)


def cmp_(op, l, r):
    return ("bin", op, l, r)


GOOD_CALL = ("fcallee", [("var", "q"), P("q", "count")], [("x1", FIN)])


def svc(ins=None, outs=None, name="Sf"):
    return ("service", name, ins or [], outs or [])


def cond(e):
    return ("cond", e, [svc(name="Sp")], [])


# ---- statement-level faults: name -> (statements placed after "Sq Out q: Fq", index of the faulty
# one among them, sub-index inside it (call of a Parallel / body of a parallel loop) or None)
def stmt_faults():
    F = {}
    F["F01a"] = ([("call", "nosuch", [], [])], 0, None)
    F["F01b"] = ([("parallel", [GOOD_CALL, ("nosuch", [], [])])], 0, 1)
    F["F01c"] = ([("count", True, "k", ("int", 2), [("call", "nosuch", [], [])])], 0, 0)
    F["F02a"] = ([svc([("lit", "Nosuch", ("obj", [("a", n(1))]))])], 0, None)
    F["F03c"] = ([svc(outs=[("x", ("plain", "Nosuch"))])], 0, None)
    F["F03d"] = ([svc(outs=[("x", ("array", "Nosuch", None))])], 0, None)
    F["F04a"] = ([svc([("var", "zz")])], 0, None)
    F["F04b"] = ([svc([P("zz", "count")])], 0, None)
    F["F04c"] = ([cond(cmp_("<", P("zz", "count"), n(3)))], 0, None)
    F["F04d"] = ([cond(P("zz", "flag"))], 0, None)
    F["F04e"] = ([("count", False, "k", ("path", "zz", [("f", "count")]), [svc()])], 0, None)
    F["F04f"] = ([("call", "fcallee", [("var", "zz"), P("q", "count")], [("x1", FIN)])], 0, None)
    F["F04g"] = ([("while", cmp_("And", ("bool", False), P("zz", "flag")), [svc()])], 0, None)
    F["F05a"] = ([svc([P("q", "nosuch")])], 0, None)
    F["F05b"] = ([cond(cmp_("<", P("q", "nosuch"), n(3)))], 0, None)
    F["F05c"] = ([cond(P("q", "nosuch"))], 0, None)
    F["F05d"] = ([("count", False, "k", ("path", "q", [("f", "nosuch")]), [svc()])], 0, None)
    F["F05e"] = ([svc([P("q", "inner", 0)])], 0, None)
    F["F05f"] = ([svc([P("q", "count", "x")])], 0, None)
    F["F05g"] = ([svc([P("q", "inner", "nosuch")])], 0, None)
    F["F05h"] = ([svc([P("q", "items", "n")])], 0, None)
    F["F05i"] = ([cond(cmp_("+", P("q", "inner", "nosuch"), n(1)))], 0, None)
    F["F06a"] = ([svc([("lit", "Fin", fin_json(ok=None))])], 0, None)
    F["F06b"] = ([svc([("lit", "Fq", fq_json(inner=fin_json(ok=None)))])], 0, None)
    F["F06c"] = ([svc([("lit", "Fq", fq_json(items=("arr", [fin_json(), fin_json(n=None)])))])], 0, None)
    F["F07a"] = ([svc([("lit", "Fin", fin_json(zz=n(1)))])], 0, None)
    F["F07b"] = ([svc([("lit", "Fq", fq_json(inner=fin_json(zz=n(1))))])], 0, None)
    F["F07c"] = ([svc([("lit", "Fq", fq_json(items=("arr", [fin_json(zz=n(1))])))])], 0, None)
    F["F08a"] = ([svc([("lit", "Fin", fin_json(n=("str", "x")))])], 0, None)
    F["F08b"] = ([svc([("lit", "Fq", fq_json(inner=fin_json(n=("str", "x"))))])], 0, None)
    F["F08c"] = ([svc([("lit", "Fq", fq_json(items=("arr", [fin_json(ok=n(0))])))])], 0, None)
    F["F08d"] = ([svc([("lit", "Fq", fq_json(items=("arr", [n(3)])))])], 0, None)
    F["F08e"] = ([svc([("lit", "Fq", fq_json(count=fin_json()))])], 0, None)
    F["F08f"] = ([svc([("lit", "Fq", fq_json(count=("arr", [n(1)])))])], 0, None)
    F["F08g"] = ([svc([("lit", "Fq", fq_json(items=n(3)))])], 0, None)
    F["F08h"] = ([svc([("lit", "Fq", fq_json(inner=n(3)))])], 0, None)
    F["F08i"] = ([svc([("lit", "Fin", fin_json(n=("bool", True)))])], 0, None)
    F["F08j"] = ([svc([("lit", "Fq", fq_json(nums=("arr", [n(1), ("str", "x")])))])], 0, None)
    # an ill-typed element at every position of an array of primitives, not only the last
    F["F08k"] = ([svc([("lit", "Fq", fq_json(nums=("arr", [("str", "255"), n(2)])))])], 0, None)
    F["F08l"] = ([svc([("lit", "Fq", fq_json(nums=("arr", [("bool", True), n(2)])))])], 0, None)
    F["F08m"] = ([svc([("lit", "Fq", fq_json(inner=fin_json(pair=("arr", [("str", "x"), n(2)]))))])], 0, None)
    F["F08n"] = ([svc([("lit", "Fq", fq_json(items=("arr", [fin_json(), fin_json(pair=("arr", [("bool", False), n(1)]))])))])],
                 0, None)
    F["F08o"] = ([svc([("lit", "Fq", fq_json(nums=("arr", [fin_json(), n(2)])))])], 0, None)
    # an array that directly contains arrays: the inner lists are not values of the element type
    F["F08p"] = ([svc([("lit", "Fq", fq_json(nums=("arr", [("arr", [n(1), n(2)]), ("arr", [n(3), n(4)])])))])], 0, None)
    F["F08q"] = ([svc([("lit", "Fq", fq_json(nums=("arr", [n(1), n(2), ("arr", [n(3)])])))])], 0, None)
    F["F08r"] = ([svc([("lit", "Fq", fq_json(inner=fin_json(pair=("arr", [n(1), ("arr", [n(2)]), n(3)]))))])], 0, None)
    F["F09a"] = ([svc([("lit", "Fq", fq_json(nums=("arr", [n(1), n(2), n(3)])))])], 0, None)
    F["F09b"] = ([svc([("lit", "Fq", fq_json(fixed=("arr", [fin_json()])))])], 0, None)
    F["F09c"] = ([svc([("lit", "Fq", fq_json(inner=fin_json(pair=("arr", [n(1)]))))])], 0, None)
    F["F09d"] = ([svc([("lit", "Fq", fq_json(items=("arr", [fin_json(pair=("arr", [n(1), n(2), n(3)]))])))])], 0, None)
    # wrong length = 0: the empty literal for a fixed-length array
    F["F09e"] = ([svc([("lit", "Fq", fq_json(nums=("arr", [])))])], 0, None)
    F["F09f"] = ([svc([("lit", "Fq", fq_json(fixed=("arr", [])))])], 0, None)
    F["F09g"] = ([svc([("lit", "Fq", fq_json(inner=fin_json(pair=("arr", []))))])], 0, None)
    F["F09h"] = ([svc([("lit", "Fq", fq_json(items=("arr", [fin_json(), fin_json(pair=("arr", []))])))])], 0, None)
    F["F09i"] = ([("call", "fcallee", [("lit", "Fq", fq_json(fixed=("arr", []))), P("q", "count")], [("x1", FIN)])], 0, None)
    F["F13b"] = ([svc(outs=[("x", FIN), ("x", FIN)])], 0, None)
    F["F13c"] = ([("call", "fcallee", [("var", "q"), P("q", "count")], [("x1", FIN), ("x1", FIN)])], 0, None)
    F["F16a"] = ([("call", "fcallee", [("var", "q")], [("x1", FIN)])], 0, None)
    F["F16b"] = ([("call", "fcallee", [("var", "q"), P("q", "count"), P("q", "count")], [("x1", FIN)])], 0, None)
    F["F16c"] = ([("call", "fcallee", [("var", "q"), P("q", "count")], [])], 0, None)
    F["F16d"] = ([("call", "fcallee", [("var", "q"), P("q", "count")], [("x1", FIN), ("x2", FIN)])], 0, None)
    F["F16e"] = ([("parallel", [GOOD_CALL, ("fcallee", [("var", "q")], [("x2", FIN)])])], 0, 1)
    F["F16f"] = ([("count", True, "k", ("int", 2), [("call", "fcallee", [("var", "q")], [("x1", FIN)])])], 0, 0)
    F["F17a"] = ([svc(outs=[("w", FIN)], name="Sw"),
                  ("call", "fcallee", [("var", "w"), P("q", "count")], [("x1", FIN)])], 1, None)
    F["F17b"] = ([("call", "fcallee", [P("q", "inner"), P("q", "count")], [("x1", FIN)])], 0, None)
    F["F17c"] = ([("call", "fcallee", [P("q", "items", 0), P("q", "count")], [("x1", FIN)])], 0, None)
    F["F17d"] = ([("call", "fcallee", [("lit", "Fin", fin_json()), P("q", "count")], [("x1", FIN)])], 0, None)
    F["F17e"] = ([("call", "fcallee", [("var", "q"), P("q", "label")], [("x1", FIN)])], 0, None)
    F["F17f"] = ([("call", "fcallee", [("var", "q"), P("q", "count")], [("x1", FQ)])], 0, None)
    F["F17g"] = ([("count", False, "k", ("int", 2),
                   [("call", "fcallee", [P("q", "items", "@k"), P("q", "count")], [("x1", FIN)])])], 0, None)
    F["F17h"] = ([("call", "fcallee", [("var", "q"), P("q", "nums")], [("x1", FIN)])], 0, None)
    F["F18a"] = ([cond(cmp_("<", P("q", "count"), ("str", "a")))], 0, None)
    F["F18b"] = ([cond(cmp_("<", cmp_("+", P("q", "flag"), n(1)), n(3)))], 0, None)
    F["F18c"] = ([cond(cmp_("<", P("q", "inner"), n(3)))], 0, None)
    F["F18d"] = ([cond(cmp_("And", P("q", "count"), P("q", "flag")))], 0, None)
    F["F18e"] = ([cond(("not", P("q", "count")))], 0, None)
    F["F18f"] = ([("count", False, "k", ("path", "q", [("f", "label")]), [svc()])], 0, None)
    F["F18g"] = ([cond(("str", "abc"))], 0, None)
    F["F18h"] = ([("while", cmp_("And", ("bool", False), n(3)), [svc()])], 0, None)
    F["F18i"] = ([cond(P("q", "label"))], 0, None)
    F["F18j"] = ([cond(cmp_("<", cmp_("+", ("bool", True), n(1)), n(3)))], 0, None)
    F["F18k"] = ([cond(cmp_("*", P("q", "label"), n(2)))], 0, None)
    F["F18l"] = ([cond(P("q", "inner"))], 0, None)
    F["F18m"] = ([cond(cmp_("Or", P("q", "flag"), P("q", "items")))], 0, None)
    # an array-typed attribute WITHOUT index where a scalar is expected
    F["F18n"] = ([cond(cmp_("<", P("q", "nums"), n(3)))], 0, None)
    F["F18o"] = ([cond(cmp_("<", cmp_("+", P("q", "nums"), n(1)), n(3)))], 0, None)
    F["F18p"] = ([cond(P("q", "nums"))], 0, None)
    F["F18q"] = ([("count", False, "k", ("path", "q", [("f", "nums")]), [svc()])], 0, None)
    F["F18r"] = ([("while", cmp_("And", ("bool", False), P("q", "inner", "pair")), [svc()])], 0, None)
    F["F18s"] = ([("count", True, "k", ("path", "q", [("f", "inner"), ("f", "pair")]), [("call",) + GOOD_CALL])], 0, None)
    # an INDEXED array path where the validator (and the scheduler) cannot type it: these follow
    # the documented rules (wf_dec holds, finding D25) but have to be reported, because the
    # scheduler cannot evaluate them
    F["F18t"] = ([cond(cmp_("<", P("q", "items", 0, "n"), n(3)))], 0, None)
    F["F18u"] = ([("while", cmp_("And", ("bool", False), P("q", "items", 1, "ok")), [svc()])], 0, None)
    F["F18v"] = ([("count", False, "k", ("path", "q", [("f", "items"), ("il", 0), ("f", "n")]), [svc()])], 0, None)
    F["F18w"] = ([("count", True, "k", ("path", "q", [("f", "fixed"), ("il", 1), ("f", "n")]), [("call",) + GOOD_CALL])], 0, None)
    F["F18x"] = ([("count", False, "k", ("int", 2), [cond(cmp_(">=", P("q", "items", "@k", "n"), n(1)))])], 0, 0)
    F["F18y"] = ([cond(P("q", "fixed", 0, "ok"))], 0, None)
    F["F18z"] = ([("while", cmp_("<", cmp_("+", P("q", "items", 0, "n"), n(1)), n(0)), [svc()])], 0, None)
    # operands of different types under == / !=, a comparison used as a number (accepted: D12b)
    F["F18aa"] = ([cond(cmp_("==", P("q", "count"), ("str", "a")))], 0, None)
    F["F18ab"] = ([cond(cmp_("!=", P("q", "count"), P("q", "flag")))], 0, None)
    F["F18ac"] = ([cond(cmp_("<", cmp_("+", ("paren", cmp_("<", P("q", "count"), n(2))), n(1)), n(3)))], 0, None)
    # two string operands under And / Or (attribute / attribute, attribute / literal, literal / attribute)
    F["F18ad"] = ([cond(cmp_("And", P("q", "label"), P("q", "label")))], 0, None)
    F["F18ae"] = ([("while", cmp_("Or", P("q", "label"), ("str", "a")), [svc()])], 0, None)
    F["F18af"] = ([cond(cmp_("And", ("str", "a"), P("q", "label")))], 0, None)
    F["F18ag"] = ([("while", cmp_("Or", P("q", "inner", "n"), cmp_("And", P("q", "label"), P("q", "label"))), [svc()])], 0, None)
    # ill-typed / unresolvable operand of == / != whose other side is a string literal
    F["F18ah"] = ([cond(cmp_("==", P("q", "inner"), ("str", "done")))], 0, None)
    F["F18ai"] = ([cond(cmp_("!=", ("str", "done"), P("q", "items")))], 0, None)
    F["F18aj"] = ([("while", cmp_("==", ("paren", cmp_("+", P("q", "label"), n(1))), ("str", "done")), [svc()])], 0, None)
    F["F05j"] = ([cond(cmp_("!=", ("paren", cmp_("+", P("q", "nosuch"), n(1))), ("str", "done")))], 0, None)
    F["F04j"] = ([cond(cmp_("==", ("str", "done"), ("paren", cmp_("<", P("zz", "count"), n(1)))))], 0, None)
    # an undeclared variable named like the counting variable of an earlier loop of the same task
    F["F04h"] = ([("count", False, "k", ("int", 2), [svc()]), svc([("var", "k")])], 1, None)
    F["F04i"] = ([("cond", ("bool", True), [("count", False, "k", ("int", 1), [svc()])], []),
                  ("call", "fcallee", [("var", "q"), ("var", "k")], [("x1", FIN)])], 1, None)
    F["F04k"] = ([("count", True, "k", ("int", 2), [("call",) + GOOD_CALL]),
                  ("parallel", [GOOD_CALL, ("fcallee", [("var", "q"), ("var", "k")], [("x2", FIN)])])], 1, 1)
    # a faulty literal whose JSON text is token-identical to an earlier valid literal of another struct
    F["F08s"] = ([svc([("lit", "Fin", fin_json())], name="Stw"), svc([("lit", "Ftw", fin_json())])], 1, None)
    F["F08t"] = ([svc([("lit", "Ftw", fin_json(n=("str", "x")))], name="Stw"),
                  ("call", "fcallee", [("var", "q"), P("q", "count")], [("x1", FIN)]),
                  svc([("var", "x1"), ("lit", "Fin", fin_json(n=("str", "x")))])], 2, None)
    F["F02b"] = ([svc([("lit", "Fin", fin_json())], name="Stw"), svc([("lit", "Nosuch", fin_json())])], 1, None)
    F["F20a"] = ([("count", True, "k", ("int", 2), [svc()])], 0, None)
    F["F20b"] = ([("count", True, "k", ("int", 2), [("call",) + GOOD_CALL, ("call",) + GOOD_CALL])], 0, None)
    F["F20c"] = ([("count", True, "k", ("int", 2), [("count", False, "m", ("int", 1), [svc()])])], 0, None)
    F["F20d"] = ([("count", True, "k", ("int", 2), [("parallel", [GOOD_CALL])])], 0, None)
    # exactly one task call TOGETHER WITH other statements
    F["F20e"] = ([("count", True, "k", ("int", 2), [("call",) + GOOD_CALL, svc()])], 0, None)
    F["F20f"] = ([("count", True, "k", ("int", 2), [svc(), ("call",) + GOOD_CALL])], 0, None)
    F["F20g"] = ([("count", True, "k", ("int", 2), [("call",) + GOOD_CALL, ("count", False, "m", ("int", 1), [svc()])])], 0, None)
    F["F20h"] = ([("count", True, "k", ("int", 2), [("call",) + GOOD_CALL, svc([("var", "zz")])])], 0, None)
    # compensating count mismatches: inputs off by +k, outputs by -k (fcallee: 2 inputs, 1 output)
    F["F16g"] = ([("call", "fcallee", [("var", "q"), P("q", "count"), P("q", "count")], [])], 0, None)
    F["F16h"] = ([("call", "fcallee", [("var", "q")], [("x1", FIN), ("x2", FIN)])], 0, None)
    F["F16i"] = ([("parallel", [GOOD_CALL, ("fcallee", [("var", "q")], [("x2", FIN), ("x3", FIN)])])], 0, 1)
    F["F16j"] = ([("count", True, "k", ("int", 2), [("call", "fcallee", [("var", "q"), P("q", "count"), P("q", "count")], [])])], 0, 0)
    F["F16k"] = ([("call", "fcallee", [], [("x1", FIN), ("x2", FIN), ("x3", FIN)])], 0, None)
    return F


STMT_FAULTS = stmt_faults()
# further structs some entries need (appended after the support structs)
FTW = {"name": "Ftw", "attrs": [("n", ("plain", "string")), ("ok", ("plain", "boolean")), ("pair", ("array", "number", 2))]}
EXTRA_STRUCTS = {"F08s": [FTW], "F08t": [FTW]}
# catalogue entries whose mutants satisfy the documented rules (wf_dec) and still have to be rejected
WF_BUT_REJECTED = {"F18t", "F18u", "F18v", "F18w", "F18x", "F18y", "F18z"}

DEF_FAULTS = ["F03a", "F03b", "F03e", "F03f", "F10a", "F11a", "F12a", "F13a", "F14a", "F15a", "F15b", "F15c", "F15d", "F15e",
              "F19a", "F19b", "F19c", "F19d", "F19e", "F19f", "F19g"]
ALL_FAULTS = sorted(STMT_FAULTS) + DEF_FAULTS

POS_KINDS = ["prod_first", "prod_mid", "prod_last", "called_first", "called_last", "new_called",
             "parallel_task", "parloop_task"]
WRAPS = ["while", "count", "passed", "failed"]


def with_support(prog):
    p = gen_check.clone(prog)
    ns = len(p["structs"])
    nt = len(p["tasks"])
    p["structs"] += [dict(s) for s in SUPPORT_STRUCTS]
    p["tasks"].append(gen_check.clone(SUPPORT_TASK))
    order = list(p.get("order") or ([("struct", i) for i in range(ns)] + [("task", i) for i in range(nt)]))
    order += [("struct", ns), ("struct", ns + 1), ("task", nt)]
    p["order"] = order
    return p


def wrap(stmts, wrappers, rng):
    """wrap the statement list in the given wrappers (outermost first); returns (statement list,
    path extension from the block the result is inserted into to the block holding `stmts`)"""
    if not wrappers:
        return stmts, ()
    inner, ext = wrap(stmts, wrappers[1:], rng)
    w = wrappers[0]
    if w == "while":
        return [("while", ("bool", False), inner)], (0,) + ext
    if w == "count":
        return [("count", False, "w%d" % len(wrappers), ("int", rng.choice([0, 1, 2])), inner)], (0,) + ext
    if w == "passed":
        return [("cond", ("bool", True), inner, [])], (0, 0) + ext
    return [("cond", ("bool", False), [svc(name="Sk")], inner)], (0, 1) + ext


def add_task(p, name, body, ins=None, outs=None):
    p["tasks"].append({"name": name, "ins": ins or [], "body": body, "outs": outs or []})
    p["order"].append(("task", len(p["tasks"]) - 1))
    return len(p["tasks"]) - 1


def inject(prog, rng, fault, pos_kind, depth=None):
    p = with_support(prog)
    if fault in STMT_FAULTS:
        return inject_stmt(p, rng, fault, pos_kind, depth)
    return inject_def(p, rng, fault)


def inject_stmt(p, rng, fault, pos_kind, depth=None):
    after, fidx, sub = STMT_FAULTS[fault]
    after = gen_check.clone(after)
    for sd in EXTRA_STRUCTS.get(fault, []):
        p["structs"].append(gen_check.clone(sd))
        p["order"].append(("struct", len(p["structs"]) - 1))
    seq = [svc(outs=[("q", FQ)], name="Sq")] + after
    d = rng.randint(0, 3) if depth is None else depth
    wrappers = [rng.choice(WRAPS) for _ in range(d)]
    stmts, ext = wrap(seq, wrappers, rng)
    tasks = p["tasks"]
    prod = next(i for i, t in enumerate(tasks) if t["name"] == "productionTask")
    if pos_kind.startswith("prod"):
        ti = prod
    elif pos_kind.startswith("called"):
        called = [i for i, t in enumerate(tasks) if t["name"] not in ("productionTask", "fcallee")]
        if not called:
            return None
        ti = rng.choice(called)
    elif pos_kind == "new_called":
        ti = add_task(p, "tnew", [])
        tasks[prod]["body"].append(("call", "tnew", [], []))
    elif pos_kind == "parallel_task":
        ti = add_task(p, "tnew", [])
        add_task(p, "tother", [svc(name="So")])
        tasks[prod]["body"].append(("parallel", [("tnew", [], []), ("tother", [], [])]))
    elif pos_kind == "parloop_task":
        ti = add_task(p, "tnew", [])
        tasks[prod]["body"].append(("count", True, "z", ("int", 2), [("call", "tnew", [], [])]))
    else:
        raise ValueError(pos_kind)
    body = tasks[ti]["body"]
    if pos_kind.endswith("first"):
        at = 0
    elif pos_kind.endswith("mid"):
        at = len(body) // 2
    else:
        at = len(body)
    # the outputs of a called task must stay declared: insert before a trailing declaration is fine
    body[at:at] = stmts
    if wrappers:
        path = (at,) + ext[1:] + (1 + fidx,)
    else:
        path = (at + 1 + fidx,)
    if sub is not None:
        path = path + (sub,)
    return {"prog": p, "fault": fault, "pos": pos_kind + "/" + "-".join(wrappers), "span": ("span_stmt", ti, path),
            "depth": d}


def inject_def(p, rng, fault):
    tasks = p["tasks"]
    structs = p["structs"]
    prod = next(i for i, t in enumerate(tasks) if t["name"] == "productionTask")
    info = {"prog": p, "fault": fault, "pos": "definition", "depth": 0}
    if fault in ("F03a", "F03e"):   # struct attribute of unknown type / array of unknown element type
        ty = ("plain", "Nosuch") if fault == "F03a" else ("array", "Nosuch", 2)
        structs.append({"name": "Fnew", "attrs": [("a", NUM), ("zz", ty), ("b", NUM)]})
        p["order"].insert(rng.randrange(len(p["order"]) + 1), ("struct", len(structs) - 1))
        info["span"] = ("span_struct", len(structs) - 1)
    elif fault == "F03f":         # array length given by a name (not in the documented syntax)
        structs.append({"name": "Fnew", "attrs": [("a", NUM), ("zz", ("array", "number", "n")), ("b", NUM)]})
        p["order"].insert(rng.randrange(len(p["order"]) + 1), ("struct", len(structs) - 1))
        info["span"] = ("span_struct", len(structs) - 1)
    elif fault == "F03b":         # task input of unknown type
        ti = add_task(p, "tnew", [svc(name="Sn")], ins=[("a", ("plain", "Nosuch"))])
        info["span"] = ("span_task", ti)
    elif fault == "F10a":         # struct defined twice
        i = rng.randrange(len(structs))
        structs.append(gen_check.clone(structs[i]))
        pos = rng.randrange(len(p["order"]) + 1)
        # the copy comes later in the file than the original
        first = p["order"].index(("struct", i))
        pos = max(pos, first + 1)
        p["order"].insert(pos, ("struct", len(structs) - 1))
        info["span"] = ("span_struct", len(structs) - 1)
    elif fault == "F11a":         # task defined twice
        i = rng.randrange(len(tasks))
        tasks.append(gen_check.clone(tasks[i]))
        first = p["order"].index(("task", i))
        pos = max(rng.randrange(len(p["order"]) + 1), first + 1)
        p["order"].insert(pos, ("task", len(tasks) - 1))
        info["span"] = ("span_task", len(tasks) - 1)
    elif fault == "F12a":         # attribute defined twice
        i = rng.randrange(len(structs))
        a = rng.choice(structs[i]["attrs"])
        structs[i] = dict(structs[i], attrs=list(structs[i]["attrs"]) + [a])
        info["span"] = ("span_struct", i)
    elif fault == "F13a":         # task input defined twice
        ti = add_task(p, "tnew", [svc(name="Sn")], ins=[("a", FQ), ("a", FQ)])
        info["span"] = ("span_task", ti)
    elif fault == "F14a":         # no productionTask
        tasks[prod] = dict(tasks[prod], name="productionTask2")
        info["span"] = "file"
    elif fault == "F15a":         # undeclared task output
        ti = add_task(p, "tnew", [svc(name="Sn")], outs=["zz"])
        info["span"] = ("span_task", ti)
    elif fault in ("F15d", "F15e"):   # undeclared task output, and the task is called with as many outputs
        outs = ["zz"] if fault == "F15d" else ["zz", "s1"]
        ti = add_task(p, "tnew", [svc(outs=[("s1", FIN)], name="Sn")], outs=outs)
        call = ("call", "tnew", [], [("y%d" % i, FIN) for i in range(len(outs))])
        tasks[prod]["body"].append(call if fault == "F15d" else ("count", False, "w", ("int", 1), [("cond", ("bool", True), [call], [])]))
        info["span"] = ("span_task", ti)
    elif fault in ("F15b", "F15c"):   # task output named like the counting variable of a loop of the task
        loop = ("count", False, "k", ("int", 2), [svc(name="Sn")])
        if fault == "F15c":
            loop = ("cond", ("bool", False), [svc(name="Sm")], [("while", ("bool", False), [loop])])
        ti = add_task(p, "tnew", [svc(name="So"), loop], outs=["k"])
        info["span"] = ("span_task", ti)
    elif fault == "F19a":         # self recursion
        ti = add_task(p, "tnew", [svc(name="Sn"), ("call", "tnew", [], [])])
        tasks[prod]["body"].append(("call", "tnew", [], []))
        info["span"] = ("span_stmt", ti, (1,))
    elif fault == "F19b":         # mutual recursion
        ti = add_task(p, "tnew", [svc(name="Sn"), ("call", "tnew2", [], [])])
        add_task(p, "tnew2", [("call", "tnew", [], [])])
        tasks[prod]["body"].append(("call", "tnew", [], []))
        info["span"] = ("span_stmt", ti, (1,))
    elif fault == "F19c":         # recursion through a Parallel block
        ti = add_task(p, "tnew", [svc(name="Sn"), ("parallel", [("tnew", [], []), ("tother", [], [])])])
        add_task(p, "tother", [svc(name="So")])
        tasks[prod]["body"].append(("call", "tnew", [], []))
        info["span"] = ("span_stmt", ti, (1, 0))
    elif fault == "F19d":         # recursion through a parallel loop
        ti = add_task(p, "tnew", [svc(name="Sn"), ("count", True, "z", ("int", 2), [("call", "tnew", [], [])])])
        tasks[prod]["body"].append(("call", "tnew", [], []))
        info["span"] = ("span_stmt", ti, (1, 0))
    elif fault in ("F19e", "F19f", "F19g"):
        # recursion whose cycle edges sit in Failed branches (the "retry" pattern)
        def failed_call(name, deep):
            inner = [("call", name, [], [])]
            if deep:
                inner = [("count", False, "r", ("int", 1), [("while", ("bool", False), inner)])]
            return ("cond", ("bool", False), [svc(name="Sok")], inner)
        deep = rng.random() < 0.5
        if fault == "F19e":      # a -> b in Failed, b -> a in Failed
            ti = add_task(p, "tnew", [svc(name="Sn"), failed_call("tnew2", deep)])
            add_task(p, "tnew2", [svc(name="Sm"), failed_call("tnew", not deep)])
            path = (1, 1, 0) + ((0, 0) if deep else ())
        elif fault == "F19f":    # cycle of length 3, every edge in a Failed branch
            ti = add_task(p, "tnew", [svc(name="Sn"), failed_call("tnew2", deep)])
            add_task(p, "tnew2", [failed_call("tnew3", False)])
            add_task(p, "tnew3", [svc(name="Sm"), failed_call("tnew", True)])
            path = (1, 1, 0) + ((0, 0) if deep else ())
        else:                    # one edge in Failed, the way back in Passed
            ti = add_task(p, "tnew", [svc(name="Sn"), failed_call("tnew2", deep)])
            add_task(p, "tnew2", [("cond", ("bool", True), [("call", "tnew", [], [])], [])])
            path = (1, 1, 0) + ((0, 0) if deep else ())
        tasks[prod]["body"].append(("call", "tnew", [], []))
        info["span"] = ("span_stmt", ti, path)
    else:
        raise ValueError(fault)
    return info
