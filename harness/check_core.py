"""Core of the `check` case kind: run the implementation's validator on a text, run the
Gallina model CheckModel.validate on the AST inside coqc, map both to
(verdict, exception class, multiset of (message kind, line)) and compare."""
import ast as pyast
import collections
import contextlib
import io
import os
import re
import sys

REPO = os.environ.get("PFDL_REPO", "/repo")
if REPO not in sys.path:
    sys.path.insert(0, REPO)

import coqeval  # noqa: E402
import pfdl_ast  # noqa: E402
import gen_check  # noqa: E402

KINDS = ["KDupStruct", "KDupTask", "KDupAttr", "KDupTaskIn", "KDupCallOut", "KArrayLen", "KUnknownType",
         "KNoStartTask", "KUnknownTaskOut", "KOutTypeMismatch", "KInTypeMismatch", "KInLen", "KOutLen",
         "KUnknownVarInput", "KNoAttribute", "KNotAStruct", "KUnknownVariable", "KUnknownStruct",
         "KUnknownAttrInLit", "KWrongTypeStruct", "KWrongTypePrim", "KWrongTypeArray", "KArrayElem",
         "KArrayLength", "KMissingAttr", "KParLoop", "KNotBoolean", "KCmpTypes", "KArith", "KUnknownTask"]

# message text -> message kind (one entry per print_error call site); order matters
MSG_TABLE = [
    ("KDupStruct", r"^A Struct with the name '.*' is already defined$"),
    ("KDupTask", r"^A Task with the name '.*' is already defined$"),
    ("KDupAttr", r"^An attribute with the name '.*'is already defined in the Struct"),
    ("KDupTaskIn", r"^There is already a input paramter with the name '.*'\.$"),
    ("KDupCallOut", r"^There is already a output parameter with the name '.*'\.$"),
    ("KArrayLen", r"^Array length has to be specified by an integer$"),
    ("KUnknownType", r"^Unknown data type '.*' for task input variable '.*'$"),
    ("KNoStartTask", r"^The file contains no '.*' \(Starting Point\)$"),
    ("KUnknownTaskOut", r"^An unknown variable '.*' is used in the Task Output of Task '.*'$"),
    ("KOutTypeMismatch", r"^Type of TaskCall output parameter at position \d+ does not match with type"),
    ("KInTypeMismatch", r"^Type of TaskCall parameter '.*' does not match with type '.*' of Input Parameter"),
    ("KInLen", r"^Inputparameter length of Task Call and called Task dont match$"),
    ("KOutLen", r"^Outputparameter length of Task Call and called Task dont match$"),
    ("KUnknownVarInput", r"^An unknown variable '.*' is used as input of (Service|TaskCall) '.*'$"),
    ("KNoAttribute", r"^Struct '.*' has no attribute '.*'$"),
    ("KNotAStruct", r"^Attribute '.*' is not a Struct$"),
    ("KUnknownVariable", r"^Unknown variable '.*'\.$"),
    ("KUnknownStruct", r"^Unknown Struct '.*'$"),
    ("KUnknownAttrInLit", r"^Unknown attribute '.*' in instantiated struct '.*'$"),
    ("KWrongTypeStruct", r"^Attribute '.*' has the wrong type in the instantiated Struct '.*', expected Struct '.*'$"),
    ("KWrongTypeArray", r"^Attribute '.*' has the wrong type in the instantiated Struct '.*', expected 'Array'$"),
    ("KWrongTypePrim", r"^Attribute '.*' has the wrong type in the instantiated Struct '.*', expected '.*'$"),
    ("KArrayElem", r"^Array has elements that does not match with the defined type '.*'$"),
    ("KArrayLength", r"^Length of the defined array and the instantiated do not match$"),
    ("KMissingAttr", r"^Attribute '.*' is not defined in the instantiated struct '.*'$"),
    ("KParLoop", r"^Only a single task is allowed in a parallel loop statement!$"),
    ("KNotBoolean", r"^The given attribute can not be resolved to a boolean expression$"),
    ("KCmpTypes", r"^Types of right and left side of the comparison dont match\. "),
    ("KArith", r"^Right and left side have to be numbers when using arithmetic operators$"),
    ("KUnknownTask", r"^Unknown Task '.*'$"),
]
MSG_RE = [(k, re.compile(p, re.S)) for k, p in MSG_TABLE]


def msg_kind(msg):
    for k, rx in MSG_RE:
        if rx.match(msg):
            return k
    return "SYNTAX:" + msg[:60]


LOC_RE = re.compile(r"^File (.*), in line (-?\d+):(-?\d+)$")


def parse_console(out):
    """-> list of (message, line) or None when the output does not have the expected shape"""
    lines = out.split("\n")
    if lines and lines[-1] == "":
        lines.pop()
    res = []
    i = 0
    cur = []
    while i < len(lines):
        m = LOC_RE.match(lines[i])
        if m and cur:
            res.append(("\n".join(cur), int(m.group(2))))
            cur = []
        else:
            cur.append(lines[i])
        i += 1
    if cur:
        return None
    return res


def parse_extension(out):
    lines = out.split("\n")
    if lines and lines[-1] == "":
        lines.pop()
    res = []
    i = 0
    cur = []
    # message (possibly several lines), then three integer lines
    while i < len(lines):
        if (cur and i + 2 < len(lines) + 0 and re.fullmatch(r"-?\d+", lines[i]) and i + 2 <= len(lines) - 1
                and re.fullmatch(r"-?\d+", lines[i + 1]) and re.fullmatch(r"-?\d+", lines[i + 2])):
            res.append(("\n".join(cur), int(lines[i])))
            cur = []
            i += 3
        else:
            cur.append(lines[i])
            i += 1
    if cur:
        return None
    return res


def run_impl(text, ext=False, want_process=False):
    """parse_string on text -> dict(valid, exc, out, msgs, process)"""
    from pfdl_scheduler.utils.parsing_utils import parse_string
    buf = io.StringIO()
    exc = None
    valid = None
    proc = None
    with contextlib.redirect_stdout(buf):
        try:
            valid, proc = parse_string(text, "", ext)
        except RecursionError:
            exc = "RecursionError"
        except Exception as e:  # noqa: BLE001
            exc = type(e).__name__
    out = buf.getvalue()
    msgs = (parse_extension if ext else parse_console)(out)
    return {"valid": valid, "exc": exc, "out": out, "msgs": msgs, "process": proc if want_process else None}


def impl_observation(r):
    """(status, multiset of (kind, line)) — status 'ok' / 'exn:<Class>' / 'unparsable-output'"""
    if r["exc"] is not None:
        return ("exn:" + r["exc"], None)
    if r["msgs"] is None:
        return ("unparsable-output", None)
    return ("ok", collections.Counter((msg_kind(m), ln) for m, ln in r["msgs"]))


# ---- model side -----------------------------------------------------------------------
CTX_NAMES = ["CFile", "CNone", "CStruct", "CStructAttr", "CTask", "CTaskIn", "CTaskInParam", "CTaskOut",
             "CStmt", "CStmtIn", "CStmtOutParam", "CLit", "CLitJson"]
EXN_NAMES = ["KeyError", "TypeError", "AttributeError", "ValueError", "ZeroDivisionError", "RecursionError",
             "IndexError"]

HEADER = ("From PFDL Require Import Base Syntax.\nFrom PFDL.Check Require Import CheckModel CheckRun.\n"
          "Set Printing Depth 1000000.\nSet Printing Width 100000.\n")


def ctx_key(code):
    (c, i, pi, j) = code
    n = CTX_NAMES[c]
    pi = tuple(pi)
    if n in ("CFile", "CNone"):
        return (n,)
    if n in ("CStruct", "CTask", "CTaskIn", "CTaskOut"):
        return (n, i)
    if n in ("CStructAttr", "CTaskInParam"):
        return (n, i, j)
    if n in ("CStmt", "CStmtIn"):
        return (n, i, pi)
    return (n, i, pi, j)


def coq_to_py(s):
    """printed Coq value made of numbers, tuples, lists and booleans -> Python value"""
    s = s.replace(";", ",").replace("true", "True").replace("false", "False")
    return pyast.literal_eval(s)


def model_eval(progs, workdir, extra=None, header=None, jobs=16, tag="chk"):
    """progs: list of AST programs.  Returns list of dict(status, exn, errs=[(kind, ctxkey)], extra=...).
    extra: optional list of Gallina function names of type program -> bool/nat evaluated alongside."""
    items = []
    extra = extra or []
    for k, prog in enumerate(progs):
        I = pfdl_ast.Interner()
        defs = "Definition p%d : program := %s.\n" % (k, pfdl_ast.coq_program(I, prog))
        e = "(run_validate p%d%s)" % (k, "".join(", %s p%d" % (f, k) for f in extra))
        items.append((defs, e))
    raw = coqeval.eval_many(items, workdir, jobs=jobs, shard=60, header=header or HEADER, tag=tag)
    out = []
    for r in raw:
        t = coqeval.parse_result(r)
        v = coq_to_py(t)
        # ((status, exn, errs), x1, x2 ...) is printed flat by Coq: (status, exn, errs, x1, x2 ...)
        status, exn, errs = v[0], v[1], v[2]
        ex = list(v[3:])
        res = {"status": ["ok", "exn", "fuel", "unsupported"][status],
               "exn": EXN_NAMES[exn] if status == 1 else None,
               "errs": [(KINDS[k], ctx_key(_flat_ctx(c))) for (k, c) in errs], "extra": ex}
        out.append(res)
    return out


def _flat_ctx(c):
    # Coq prints (a, b, c, d) for nested pairs ((a, b), c), d) — already flat
    return c


def model_observation(m, linemap):
    """-> (status, Counter of (kind, line)) using the printer's line map"""
    if m["status"] == "exn":
        return ("exn:" + m["exn"], None)
    if m["status"] != "ok":
        return (m["status"], None)
    cnt = collections.Counter()
    for k, ck in m["errs"]:
        if ck == ("CFile",):
            ln = 1
        elif ck == ("CNone",):
            ln = 0
        else:
            ln = linemap.get(ck, -999)
        cnt[(k, ln)] += 1
    return ("ok", cnt)


def compare(impl_obs, model_obs):
    """None when they agree, else a short description"""
    if impl_obs[0] != model_obs[0]:
        return "status: impl %s, model %s" % (impl_obs[0], model_obs[0])
    if impl_obs[0] == "ok" and impl_obs[1] != model_obs[1]:
        a, b = impl_obs[1], model_obs[1]
        return "messages: impl-only %s, model-only %s" % (sorted((a - b).elements()), sorted((b - a).elements()))
    return None


def process_exprs(process):
    """all guard/condition expression trees of a parsed Process, in source order, as harness AST"""
    import gen_expr
    from pfdl_scheduler.model.condition import Condition
    from pfdl_scheduler.model.while_loop import WhileLoop
    from pfdl_scheduler.model.counting_loop import CountingLoop
    out = []

    def walk(ss):
        for s in ss:
            if isinstance(s, WhileLoop):
                out.append(s.expression)
                walk(s.statements)
            elif isinstance(s, CountingLoop):
                walk(s.statements)
            elif isinstance(s, Condition):
                out.append(s.expression)
                walk(s.passed_stmts)
                walk(s.failed_stmts)
    for t in process.tasks.values():
        walk(t.statements)
    res = []
    for e in out:
        try:
            res.append(gen_expr.dict_to_ast(e) if e is not None else None)
        except Exception:  # noqa: BLE001
            res.append("?")
    return res


def ast_exprs(prog):
    out = []

    def walk(ss):
        for s in ss:
            if s[0] == "while":
                out.append(s[1])
                walk(s[2])
            elif s[0] == "count":
                walk(s[4])
            elif s[0] == "cond":
                out.append(s[1])
                walk(s[2])
                walk(s[3])
    seen = set()
    for t in prog["tasks"]:
        if t["name"] in seen:
            continue
        seen.add(t["name"])
        walk(t["body"])
    return out


def norm_expr(e):
    """compare numbers by value, strings by content"""
    if e is None:
        return None
    k = e[0]
    if k == "num":
        return ("num", float(e[1]))
    if k in ("bool", "path"):
        return (k,) + tuple(map(_tup, e[1:]))
    if k == "str":
        return ("str", e[1])
    if k == "not" or k == "paren":
        return (k, norm_expr(e[1]))
    return ("bin", e[1], norm_expr(e[2]), norm_expr(e[3]))


def _tup(x):
    if isinstance(x, list):
        return tuple(_tup(y) for y in x)
    if isinstance(x, tuple):
        return tuple(_tup(y) for y in x)
    return x


def exprs_agree(prog, process):
    """does the implementation's parse of every guard equal the generated tree?  (a top-level
    string literal is stored as None by the visitor)"""
    a = [norm_expr(e) for e in ast_exprs(prog)]
    b = []
    for e in process_exprs(process):
        b.append(norm_expr(e) if e not in (None, "?") else e)
    if len(a) != len(b):
        return False
    for x, y in zip(a, b):
        if y is None:
            if x[0] != "str":
                return False
        elif x != y:
            return False
    return True
