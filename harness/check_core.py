"""Core of the `check` case kind: run the implementation's validator on a text, run the
Gallina model CheckModel.validate on the AST inside coqc, map both to
(verdict, exception class, multiset of (message kind, line)) and compare."""
import ast as pyast
import collections
import contextlib
import io
import os
import re
import sys

REPO = os.environ.get("PFDL_REPO", "/repo")
if REPO not in sys.path:
    sys.path.insert(0, REPO)

import coqeval  # noqa: E402
import pfdl_ast  # noqa: E402
import gen_check  # noqa: E402

KINDS = ["KDupStruct", "KDupTask", "KDupAttr", "KDupTaskIn", "KDupCallOut", "KArrayLen", "KUnknownType",
         "KNoStartTask", "KUnknownTaskOut", "KOutTypeMismatch", "KInTypeMismatch", "KInLen", "KOutLen",
         "KUnknownVarInput", "KNoAttribute", "KNotAStruct", "KUnknownVariable", "KUnknownStruct",
         "KUnknownAttrInLit", "KWrongTypeStruct", "KWrongTypePrim", "KWrongTypeArray", "KArrayElem",
         "KArrayLength", "KMissingAttr", "KParLoop", "KNotBoolean", "KCmpTypes", "KArith", "KUnknownTask",
         "KIndexMismatch", "KLimitNotNumber", "KRecursion", "KNestedArray"]

# message text -> message kind (one entry per print_error call site); order matters
MSG_TABLE = [
    ("KDupStruct", r"^A Struct with the name '.*' is already defined$"),
    ("KDupTask", r"^A Task with the name '.*' is already defined$"),
    ("KDupAttr", r"^An attribute with the name '.*'is already defined in the Struct"),
    ("KDupTaskIn", r"^There is already a input paramter with the name '.*'\.$"),
    ("KDupCallOut", r"^There is already a output parameter with the name '.*'\.$"),
    ("KArrayLen", r"^Array length has to be specified by an integer$"),
    ("KUnknownType", r"^Unknown data type '.*' for task input variable '.*'$"),
    ("KNoStartTask", r"^The file contains no '.*' \(Starting Point\)$"),
    ("KUnknownTaskOut", r"^An unknown variable '.*' is used in the Task Output of Task '.*'$"),
    ("KOutTypeMismatch", r"^Type of TaskCall output parameter at position \d+ does not match with type"),
    ("KInTypeMismatch", r"^Type of TaskCall parameter '.*' does not match with type '.*' of Input Parameter"),
    ("KInLen", r"^Inputparameter length of Task Call and called Task dont match$"),
    ("KOutLen", r"^Outputparameter length of Task Call and called Task dont match$"),
    ("KUnknownVarInput", r"^An unknown variable '.*' is used as input of (Service|TaskCall) '.*'$"),
    ("KNoAttribute", r"^Struct '.*' has no attribute '.*'$"),
    ("KNotAStruct", r"^Attribute '.*' is not a Struct$"),
    ("KUnknownVariable", r"^Unknown variable '.*'\.$"),
    ("KUnknownStruct", r"^Unknown Struct '.*'$"),
    ("KUnknownAttrInLit", r"^Unknown attribute '.*' in instantiated struct '.*'$"),
    ("KWrongTypeStruct", r"^Attribute '.*' has the wrong type in the instantiated Struct '.*', expected Struct '.*'$"),
    ("KWrongTypeArray", r"^Attribute '.*' has the wrong type in the instantiated Struct '.*', expected 'Array'$"),
    ("KWrongTypePrim", r"^Attribute '.*' has the wrong type in the instantiated Struct '.*', expected '.*'$"),
    ("KArrayElem", r"^Array has elements that does not match with the defined type '.*'$"),
    ("KArrayLength", r"^Length of the defined array and the instantiated do not match$"),
    ("KMissingAttr", r"^Attribute '.*' is not defined in the instantiated struct '.*'$"),
    ("KParLoop", r"^Only a single task is allowed in a parallel loop statement!$"),
    ("KNotBoolean", r"^The given attribute can not be resolved to a boolean expression$"),
    ("KCmpTypes", r"^Types of right and left side of the comparison dont match\. "),
    ("KArith", r"^Right and left side have to be numbers when using arithmetic operators$"),
    ("KUnknownTask", r"^Unknown Task '.*'$"),
    ("KIndexMismatch", r"^Attribute '.*' is (not an Array|an Array and needs an index)$"),
    ("KLimitNotNumber", r"^The limit of a counting loop has to be a number$"),
    ("KRecursion", r"^The call of Task '.*' leads back to Task '.*' \(recursion is not supported\)$"),
    ("KNestedArray", r"^The array '.*' contains an array as element, arrays of arrays are not supported$"),
    # printed by the visitor for a literal json.loads rejects; no AST, hence no model kind
    ("KJsonInvalid", r"^The struct instantiation is not valid JSON$"),
]
MSG_RE = [(k, re.compile(p, re.S)) for k, p in MSG_TABLE]


def msg_kind(msg):
    for k, rx in MSG_RE:
        if rx.match(msg):
            return k
    return "SYNTAX:" + msg[:60]


LOC_RE = re.compile(r"^File (.*), in line (-?\d+):(-?\d+)$")


def parse_console(out):
    """-> list of (message, line) or None when the output does not have the expected shape"""
    lines = out.split("\n")
    if lines and lines[-1] == "":
        lines.pop()
    res = []
    i = 0
    cur = []
    while i < len(lines):
        m = LOC_RE.match(lines[i])
        if m and cur:
            res.append(("\n".join(cur), int(m.group(2))))
            cur = []
        else:
            cur.append(lines[i])
        i += 1
    if cur:
        return None
    return res


def parse_extension(out):
    lines = out.split("\n")
    if lines and lines[-1] == "":
        lines.pop()
    res = []
    i = 0
    cur = []
    # message (possibly several lines), then three integer lines
    while i < len(lines):
        if (cur and i + 2 < len(lines) + 0 and re.fullmatch(r"-?\d+", lines[i]) and i + 2 <= len(lines) - 1
                and re.fullmatch(r"-?\d+", lines[i + 1]) and re.fullmatch(r"-?\d+", lines[i + 2])):
            res.append(("\n".join(cur), int(lines[i])))
            cur = []
            i += 3
        else:
            cur.append(lines[i])
            i += 1
    if cur:
        return None
    return res


def run_impl(text, ext=False, want_process=False):
    """parse_string on text -> dict(valid, exc, out, msgs, process)"""
    from pfdl_scheduler.utils.parsing_utils import parse_string
    buf = io.StringIO()
    exc = None
    valid = None
    proc = None
    with contextlib.redirect_stdout(buf):
        try:
            valid, proc = parse_string(text, "", ext)
        except RecursionError:
            exc = "RecursionError"
        except Exception as e:  # noqa: BLE001
            exc = type(e).__name__
    out = buf.getvalue()
    msgs = (parse_extension if ext else parse_console)(out)
    return {"valid": valid, "exc": exc, "out": out, "msgs": msgs, "process": proc if want_process else None}


def impl_observation(r):
    """(status, multiset of (kind, line)) — status 'ok' / 'exn:<Class>' / 'unparsable-output'"""
    if r["exc"] is not None:
        return ("exn:" + r["exc"], None)
    if r["msgs"] is None:
        return ("unparsable-output", None)
    return ("ok", collections.Counter((msg_kind(m), ln) for m, ln in r["msgs"]))


# ---- model side -----------------------------------------------------------------------
CTX_NAMES = ["CFile", "CNone", "CStruct", "CStructAttr", "CTask", "CTaskIn", "CTaskInParam", "CTaskOut",
             "CStmt", "CStmtIn", "CStmtOutParam", "CLit", "CLitJson"]
EXN_NAMES = ["KeyError", "TypeError", "AttributeError", "ValueError", "ZeroDivisionError", "RecursionError",
             "IndexError"]

HEADER = ("From PFDL Require Import Base Syntax.\nFrom PFDL.Check Require Import CheckModel CheckRun.\n"
          "Set Printing Depth 1000000.\nSet Printing Width 100000.\n")


def ctx_key(code):
    (c, i, pi, j) = code
    n = CTX_NAMES[c]
    pi = tuple(pi)
    if n in ("CFile", "CNone"):
        return (n,)
    if n in ("CStruct", "CTask", "CTaskIn", "CTaskOut"):
        return (n, i)
    if n in ("CStructAttr", "CTaskInParam"):
        return (n, i, j)
    if n in ("CStmt", "CStmtIn"):
        return (n, i, pi)
    return (n, i, pi, j)


def coq_to_py(s):
    """printed Coq value made of numbers, tuples, lists and booleans -> Python value"""
    s = s.replace(";", ",").replace("true", "True").replace("false", "False")
    return pyast.literal_eval(s)


def model_eval(progs, workdir, extra=None, header=None, jobs=16, tag="chk"):
    """progs: list of AST programs.  Returns list of dict(status, exn, errs=[(kind, ctxkey)], extra=...).
    extra: optional list of Gallina function names of type program -> bool/nat evaluated alongside."""
    items = []
    extra = extra or []
    for k, prog in enumerate(progs):
        I = pfdl_ast.Interner()
        defs = "Definition p%d : program := %s.\n" % (k, pfdl_ast.coq_program(I, prog))
        e = "(run_validate p%d%s)" % (k, "".join(", %s p%d" % (f, k) for f in extra))
        items.append((defs, e))
    raw = coqeval.eval_many(items, workdir, jobs=jobs, shard=60, header=header or HEADER, tag=tag)
    out = []
    for r in raw:
        t = coqeval.parse_result(r)
        v = coq_to_py(t)
        # ((status, exn, errs), x1, x2 ...) is printed flat by Coq: (status, exn, errs, x1, x2 ...)
        status, exn, errs = v[0], v[1], v[2]
        ex = list(v[3:])
        res = {"status": ["ok", "exn", "fuel", "unsupported"][status],
               "exn": EXN_NAMES[exn] if status == 1 else None,
               "errs": [(KINDS[k], ctx_key(_flat_ctx(c))) for (k, c) in errs], "extra": ex}
        out.append(res)
    return out


def _flat_ctx(c):
    # Coq prints (a, b, c, d) for nested pairs ((a, b), c), d) — already flat
    return c


def model_observation(m, linemap):
    """-> (status, Counter of (kind, line)) using the printer's line map"""
    if m["status"] == "exn":
        return ("exn:" + m["exn"], None)
    if m["status"] != "ok":
        return (m["status"], None)
    cnt = collections.Counter()
    for k, ck in m["errs"]:
        if ck == ("CFile",):
            ln = 1
        elif ck == ("CNone",):
            ln = 0
        else:
            ln = linemap.get(ck, -999)
        cnt[(k, ln)] += 1
    return ("ok", cnt)


def compare(impl_obs, model_obs):
    """None when they agree, else a short description"""
    if impl_obs[0] != model_obs[0]:
        return "status: impl %s, model %s" % (impl_obs[0], model_obs[0])
    if impl_obs[0] == "ok" and impl_obs[1] != model_obs[1]:
        a, b = impl_obs[1], model_obs[1]
        return "messages: impl-only %s, model-only %s" % (sorted((a - b).elements()), sorted((b - a).elements()))
    return None


def process_exprs(process):
    """all guard/condition expression trees of a parsed Process, in source order, as harness AST"""
    import gen_expr
    from pfdl_scheduler.model.condition import Condition
    from pfdl_scheduler.model.while_loop import WhileLoop
    from pfdl_scheduler.model.counting_loop import CountingLoop
    out = []

    def walk(ss):
        for s in ss:
            if isinstance(s, WhileLoop):
                out.append(s.expression)
                walk(s.statements)
            elif isinstance(s, CountingLoop):
                walk(s.statements)
            elif isinstance(s, Condition):
                out.append(s.expression)
                walk(s.passed_stmts)
                walk(s.failed_stmts)
    for t in process.tasks.values():
        walk(t.statements)
    res = []
    for e in out:
        try:
            res.append(gen_expr.dict_to_ast(e) if e is not None else None)
        except Exception:  # noqa: BLE001
            res.append("?")
    return res


def ast_exprs(prog):
    out = []

    def walk(ss):
        for s in ss:
            if s[0] == "while":
                out.append(s[1])
                walk(s[2])
            elif s[0] == "count":
                walk(s[4])
            elif s[0] == "cond":
                out.append(s[1])
                walk(s[2])
                walk(s[3])
    seen = set()
    for t in prog["tasks"]:
        if t["name"] in seen:
            continue
        seen.add(t["name"])
        walk(t["body"])
    return out


def norm_expr(e):
    """compare numbers by value, strings by content"""
    if e is None:
        return None
    k = e[0]
    if k == "num":
        return ("num", float(e[1]))
    if k in ("bool", "path"):
        return (k,) + tuple(map(_tup, e[1:]))
    if k == "str":
        return ("str", e[1])
    if k == "not" or k == "paren":
        return (k, norm_expr(e[1]))
    return ("bin", e[1], norm_expr(e[2]), norm_expr(e[3]))


def _tup(x):
    if isinstance(x, list):
        return tuple(_tup(y) for y in x)
    if isinstance(x, tuple):
        return tuple(_tup(y) for y in x)
    return x


def exprs_agree(prog, process):
    """does the implementation's parse of every guard equal the generated tree?  (a top-level
    string literal is stored as None by the visitor)"""
    a = [norm_expr(e) for e in ast_exprs(prog)]
    b = []
    for e in process_exprs(process):
        b.append(norm_expr(e) if e not in (None, "?") else e)
    if len(a) != len(b):
        return False
    for x, y in zip(a, b):
        if y is None:
            if x[0] != "str":
                return False
        elif x != y:
            return False
    return True


# ---- text -> AST through the implementation's own front end (no semantic check) ---------
def front_process(text):
    """lexer + parser + tree visitor of the implementation, without the semantic checker.
    -> (process or None, syntax_errors: bool, exception class or None)"""
    from antlr4.CommonTokenStream import CommonTokenStream
    from antlr4.InputStream import InputStream
    from pfdl_scheduler.parser.pfdl_tree_visitor import PFDLTreeVisitor
    from pfdl_scheduler.parser.PFDLLexer import PFDLLexer
    from pfdl_scheduler.parser.PFDLParser import PFDLParser
    from pfdl_scheduler.validation.error_handler import ErrorHandler
    from pfdl_scheduler.validation.syntax_error_listener import SyntaxErrorListener
    with contextlib.redirect_stdout(io.StringIO()):
        try:
            lexer = PFDLLexer(InputStream(text))
            lexer.removeErrorListeners()
            ts = CommonTokenStream(lexer)
            parser = PFDLParser(ts)
            parser.removeErrorListeners()
            eh = ErrorHandler("", False)
            parser.addErrorListener(SyntaxErrorListener(ts, eh))
            tree = parser.program()
            if eh.has_error():
                return None, True, None
            process = PFDLTreeVisitor(eh).visit(tree)
            return process, False, None
        except RecursionError:
            return None, False, "RecursionError"
        except Exception as e:  # noqa: BLE001
            return None, False, type(e).__name__


def process_to_prog(process):
    """parsed Process -> harness AST (duplicates are already collapsed by the visitor)"""
    from fractions import Fraction
    import gen_expr
    from impl_run import parse_pelem
    from pfdl_scheduler.model.array import Array
    from pfdl_scheduler.model.struct import Struct
    from pfdl_scheduler.model.service import Service
    from pfdl_scheduler.model.task_call import TaskCall
    from pfdl_scheduler.model.parallel import Parallel
    from pfdl_scheduler.model.while_loop import WhileLoop
    from pfdl_scheduler.model.counting_loop import CountingLoop
    from pfdl_scheduler.model.condition import Condition

    def vt(t):
        if isinstance(t, Array):
            ln = t.length if (isinstance(t.length, int) and t.length >= 0) else None
            return ("array", t.type_of_elements, ln)
        return ("plain", t)

    def js(v):
        if isinstance(v, bool):
            return ("bool", v)
        if isinstance(v, (int, float)):
            try:
                return ("num", Fraction(v))
            except (ValueError, OverflowError):
                return ("num", Fraction(0))
        if isinstance(v, str):
            return ("str", "s")
        if isinstance(v, Array):
            return ("arr", [js(x) for x in v.values])
        if isinstance(v, Struct):
            return ("obj", [(k, js(x)) for k, x in v.attributes.items()])
        return ("str", "s")

    def param(p):
        if isinstance(p, str):
            return ("var", p)
        if isinstance(p, list):
            return ("path", p[0], [parse_pelem(x) for x in p[1:]])
        return ("lit", p.name, js(p))

    def expr(e):
        if e is None:
            return ("str", "s")
        return strip_str(gen_expr.dict_to_ast(e))

    def strip_str(e):
        if e[0] == "str":
            return ("str", "s")
        if e[0] in ("not", "paren"):
            return (e[0], strip_str(e[1]))
        if e[0] == "bin":
            return ("bin", e[1], strip_str(e[2]), strip_str(e[3]))
        return e

    def call(c):
        return (c.name, [param(p) for p in c.input_parameters], [(k, vt(t)) for k, t in c.output_parameters.items()])

    def stmt(s):
        if isinstance(s, Service):
            c = call(s)
            return ("service", c[0], c[1], c[2])
        if isinstance(s, TaskCall):
            c = call(s)
            return ("call", c[0], c[1], c[2])
        if isinstance(s, Parallel):
            return ("parallel", [call(c) for c in s.task_calls])
        if isinstance(s, WhileLoop):
            return ("while", expr(s.expression), [stmt(x) for x in s.statements])
        if isinstance(s, CountingLoop):
            lim = ("int", s.limit) if isinstance(s.limit, int) else ("path", s.limit[0], [parse_pelem(x) for x in s.limit[1:]])
            return ("count", bool(s.parallel), s.counting_variable, lim, [stmt(x) for x in s.statements])
        if isinstance(s, Condition):
            return ("cond", expr(s.expression), [stmt(x) for x in s.passed_stmts], [stmt(x) for x in s.failed_stmts])
        raise ValueError(s)

    structs = [{"name": s.name, "attrs": [(k, vt(t)) for k, t in s.attributes.items()]} for s in process.structs.values()]
    tasks = [{"name": t.name, "ins": [(k, vt(ty)) for k, ty in t.input_parameters.items()],
              "body": [stmt(x) for x in t.statements], "outs": list(t.output_parameters)}
             for t in process.tasks.values()]
    return {"structs": structs, "tasks": tasks}
