"""AST of PFDL programs as plain tuples, a printer to PFDL text (with layout
variants), a printer to Gallina terms (PFDL.Syntax), and name interning.

stmt  : ("service", name, ins, outs) | ("call", name, ins, outs) | ("parallel", [call...])
        | ("while", expr, body) | ("count", par, var, limit, body) | ("cond", expr, passed, failed)
call  : (name, ins, outs)
expr  : ("num", Fraction) | ("bool", b) | ("str", s) | ("path", v, [pelem]) | ("not", e)
        | ("paren", e) | ("bin", op, l, r)
pelem : ("f", name) | ("iv", var) | ("il", k) | ("in",)
param : ("var", v) | ("path", v, [pelem]) | ("lit", sname, json)
json  : ("num", Fraction) | ("bool", b) | ("str", s) | ("obj", [(k, json)]) | ("arr", [json])
vtype : ("plain", prim) | ("array", prim, alen);  prim: "number"|"string"|"boolean"|<StructName>
alen  : None | int | str
limit : ("int", n) | ("path", v, [pelem])
task  : {"name", "ins": [(n, vtype)], "body": [stmt], "outs": [n]}
struct: {"name", "attrs": [(n, vtype)]}
program: {"structs": [...], "tasks": [...]}
"""
from fractions import Fraction

OPS = ["<", "<=", ">", ">=", "==", "!=", "And", "Or", "+", "-", "*", "/"]
OP_COQ = {"<": "OLt", "<=": "OLe", ">": "OGt", ">=": "OGe", "==": "OEq", "!=": "ONe",
          "And": "OAnd", "Or": "OOr", "+": "OAdd", "-": "OSub", "*": "OMul", "/": "ODiv"}


def strname(s):
    """string literals are interned in a name space disjoint from identifiers"""
    return '"' + s


class Interner:
    """Strings -> small naturals; 'productionTask' is always 0, the names the hostile
    execution engine writes are 1 and 2 (PFDL.NetModel.mutated_lc / mutated_uc)."""

    def __init__(self):
        self.tab = {"productionTask": 0, "mutated": 1, "Mutated": 2}
        self.rev = ["productionTask", "mutated", "Mutated"]

    def __call__(self, s):
        if s not in self.tab:
            self.tab[s] = len(self.rev)
            self.rev.append(s)
        return self.tab[s]


# ----------------------------------------------------------------------------
# text printer
# ----------------------------------------------------------------------------

def num_text(q):
    q = Fraction(q)
    if q.denominator == 1:
        return str(q.numerator)
    # dyadic fractions print exactly as decimals
    s = "-" if q < 0 else ""
    q = abs(q)
    ip = q.numerator // q.denominator
    frac = q - ip
    digits = ""
    while frac != 0 and len(digits) < 20:
        frac *= 10
        d = frac.numerator // frac.denominator
        digits += str(d)
        frac -= d
    return f"{s}{ip}.{digits or '0'}"


def pelems_text(p):
    out = ""
    for e in p:
        if e[0] == "f":
            out += "." + e[1]
        elif e[0] == "iv":
            out += "[" + e[1] + "]"
        elif e[0] == "il":
            out += "[" + str(e[1]) + "]"
        else:
            out += "[]"
    return out


def expr_text(e):
    k = e[0]
    if k == "num":
        return num_text(e[1])
    if k == "bool":
        return "true" if e[1] else "false"
    if k == "str":
        return '"' + e[1] + '"'
    if k == "path":
        return e[1] + pelems_text(e[2])
    if k == "not":
        return "!" + expr_text(e[1])
    if k == "paren":
        return "(" + expr_text(e[1]) + ")"
    if k == "bin":
        return expr_text(e[2]) + " " + e[1] + " " + expr_text(e[3])
    raise ValueError(e)


def json_text(j):
    k = j[0]
    if k == "num":
        return num_text(j[1])
    if k == "bool":
        return "true" if j[1] else "false"
    if k == "str":
        return '"' + j[1] + '"'
    if k == "obj":
        return "{" + ", ".join('"' + n + '": ' + json_text(v) for n, v in j[1]) + "}"
    if k == "arr":
        return "[" + ", ".join(json_text(v) for v in j[1]) + "]"
    raise ValueError(j)


def vtype_text(t):
    if t[0] == "plain":
        return t[1]
    ln = "" if t[2] is None else str(t[2])
    return t[1] + "[" + ln + "]"


class Layout:
    """Layout the language treats as insignificant."""

    def __init__(self, indent=4, crlf=False, final_newline=True, comments=False,
                 blank_lines=False, trailing_blanks=False, lit_inline=False, rng=None):
        self.indent = indent
        self.crlf = crlf
        self.final_newline = final_newline
        self.comments = comments
        self.blank_lines = blank_lines
        self.trailing_blanks = trailing_blanks
        self.lit_inline = lit_inline
        self.rng = rng


def render(prog, layout=None, linemap=None):
    """Program -> PFDL text.  linemap (optional dict) receives
    ('struct', name) / ('task', name) / ('stmt', task, path) -> (first_line, last_line)."""
    L = layout or Layout()
    lines = []   # (depth, text)

    def emit(d, t):
        lines.append((d, t))

    def here():
        return len(lines) + 1

    def mark(key, start):
        if linemap is not None:
            linemap[key] = (start, len(lines))

    def params(d, ins, outs):
        if ins:
            emit(d, "In")
            for p in ins:
                if p[0] == "var":
                    emit(d + 1, p[1])
                elif p[0] == "path":
                    emit(d + 1, p[1] + pelems_text(p[2]))
                else:
                    emit(d + 1, p[1])
                    emit(d + 2, json_text(p[2]))
        if outs:
            emit(d, "Out")
            for n, t in outs:
                emit(d + 1, n + ": " + vtype_text(t))

    def stmts(d, ss, tname, prefix):
        for i, s in enumerate(ss):
            stmt(d, s, tname, prefix + [i])

    def stmt(d, s, tname, path):
        start = here()
        k = s[0]
        if k in ("service", "call"):
            emit(d, s[1])
            params(d + 1, s[2], s[3])
        elif k == "parallel":
            emit(d, "Parallel")
            for j, c in enumerate(s[1]):
                st2 = here()
                emit(d + 1, c[0])
                params(d + 2, c[1], c[2])
                mark(("stmt", tname, tuple(path + [j])), st2)
        elif k == "while":
            emit(d, "Loop While " + expr_text(s[1]))
            stmts(d + 1, s[2], tname, path)
        elif k == "count":
            lim = str(s[3][1]) if s[3][0] == "int" else s[3][1] + pelems_text(s[3][2])
            emit(d, ("Parallel " if s[1] else "") + "Loop " + s[2] + " To " + lim)
            stmts(d + 1, s[4], tname, path)
        elif k == "cond":
            emit(d, "Condition")
            emit(d + 1, expr_text(s[1]))
            emit(d, "Passed")
            stmts(d + 1, s[2], tname, path + [0])
            if s[3]:
                emit(d, "Failed")
                stmts(d + 1, s[3], tname, path + [1])
        else:
            raise ValueError(s)
        mark(("stmt", tname, tuple(path)), start)

    for item in prog.get("order") or ([("struct", i) for i in range(len(prog["structs"]))]
                                      + [("task", i) for i in range(len(prog["tasks"]))]):
        if item[0] == "struct":
            sd = prog["structs"][item[1]]
            start = here()
            emit(0, "Struct " + sd["name"])
            for n, t in sd["attrs"]:
                emit(1, n + ": " + vtype_text(t))
            emit(0, "End")
            mark(("struct", sd["name"]), start)
        else:
            t = prog["tasks"][item[1]]
            start = here()
            emit(0, "Task " + t["name"])
            if t["ins"]:
                emit(1, "In")
                for n, ty in t["ins"]:
                    emit(2, n + ": " + vtype_text(ty))
            stmts(1, t["body"], t["name"], [])
            if t["outs"]:
                emit(1, "Out")
                for n in t["outs"]:
                    emit(2, n)
            emit(0, "End")
            mark(("task", t["name"]), start)
        emit(0, "")

    nl = "\r\n" if L.crlf else "\n"
    out = []
    rng = L.rng
    for d, t in lines:
        if t == "" and not L.blank_lines:
            txt = ""
        else:
            txt = " " * (L.indent * d) + t
        if L.trailing_blanks and rng is not None and t and rng.random() < 0.3:
            txt += " " * rng.randint(1, 3)
        if L.comments and rng is not None and t and rng.random() < 0.2:
            txt += " # c" + str(rng.randint(0, 99))
        out.append(txt)
    text = nl.join(out)
    text = text.rstrip("\r\n ")
    if L.final_newline:
        text += nl
    return text


# ----------------------------------------------------------------------------
# Gallina printer
# ----------------------------------------------------------------------------

def coq_list(items):
    return "[" + "; ".join(items) + "]"


def coq_q(q):
    q = Fraction(q)
    return f"(Qmake ({q.numerator})%Z {q.denominator}%positive)"


def coq_pelem(I, e):
    if e[0] == "f":
        return f"PF {I(e[1])}"
    if e[0] == "iv":
        return f"PIdxVar {I(e[1])}"
    if e[0] == "il":
        return f"PIdxLit {e[1]}"
    return "PIdxNone"


def coq_expr(I, e):
    k = e[0]
    if k == "num":
        return f"(ENum {coq_q(e[1])})"
    if k == "bool":
        return f"(EBool {'true' if e[1] else 'false'})"
    if k == "str":
        return f"(EStr {I(strname(e[1]))})"
    if k == "path":
        return f"(EPath {I(e[1])} {coq_list([coq_pelem(I, x) for x in e[2]])})"
    if k == "not":
        return f"(ENot {coq_expr(I, e[1])})"
    if k == "paren":
        return f"(EParen {coq_expr(I, e[1])})"
    if k == "bin":
        return f"(EBin {OP_COQ[e[1]]} {coq_expr(I, e[2])} {coq_expr(I, e[3])})"
    raise ValueError(e)


def coq_json(I, j):
    k = j[0]
    if k == "num":
        return f"(JNum {coq_q(j[1])})"
    if k == "bool":
        return f"(JBool {'true' if j[1] else 'false'})"
    if k == "str":
        return f"(JStr {I(strname(j[1]))})"
    if k == "obj":
        return "(JObj " + coq_list([f"({I(n)}, {coq_json(I, v)})" for n, v in j[1]]) + ")"
    if k == "arr":
        return "(JArr " + coq_list([coq_json(I, v) for v in j[1]]) + ")"
    raise ValueError(j)


def coq_prim(I, p):
    return {"number": "TNumber", "string": "TString", "boolean": "TBoolean"}.get(p) or f"(TStructName {I(p)})"


def coq_vtype(I, t):
    if t[0] == "plain":
        return f"(TPlain {coq_prim(I, t[1])})"
    ln = "LenNone" if t[2] is None else (f"(LenNat {t[2]})" if isinstance(t[2], int) else f"(LenVar {I(t[2])})")
    return f"(TArray {coq_prim(I, t[1])} {ln})"


def coq_param(I, p):
    if p[0] == "var":
        return f"(PVar {I(p[1])})"
    if p[0] == "path":
        return f"(PPath {I(p[1])} {coq_list([coq_pelem(I, x) for x in p[2]])})"
    return f"(PLit {I(p[1])} {coq_json(I, p[2])})"


def coq_outs(I, outs):
    return coq_list([f"({I(n)}, {coq_vtype(I, t)})" for n, t in outs])


def coq_call(I, c):
    return ("{| c_name := %s; c_ins := %s; c_outs := %s |}"
            % (I(c[0]), coq_list([coq_param(I, p) for p in c[1]]), coq_outs(I, c[2])))


def coq_limit(I, l):
    if l[0] == "int":
        return f"(LimInt {l[1]})"
    return f"(LimPath {I(l[1])} {coq_list([coq_pelem(I, x) for x in l[2]])})"


def coq_stmt(I, s):
    k = s[0]
    if k == "service":
        return f"(SService {I(s[1])} {coq_list([coq_param(I, p) for p in s[2]])} {coq_outs(I, s[3])})"
    if k == "call":
        return f"(SCall {coq_call(I, (s[1], s[2], s[3]))})"
    if k == "parallel":
        return "(SParallel " + coq_list([coq_call(I, c) for c in s[1]]) + ")"
    if k == "while":
        return f"(SWhile {coq_expr(I, s[1])} {coq_stmts(I, s[2])})"
    if k == "count":
        return (f"(SCount {'true' if s[1] else 'false'} {I(s[2])} {coq_limit(I, s[3])} "
                f"{coq_stmts(I, s[4])})")
    if k == "cond":
        return f"(SCond {coq_expr(I, s[1])} {coq_stmts(I, s[2])} {coq_stmts(I, s[3])})"
    raise ValueError(s)


def coq_stmts(I, ss):
    return coq_list([coq_stmt(I, s) for s in ss])


def coq_task(I, t):
    return ("{| t_name := %s; t_ins := %s; t_body := %s; t_outs := %s |}"
            % (I(t["name"]), coq_list([f"({I(n)}, {coq_vtype(I, ty)})" for n, ty in t["ins"]]),
               coq_stmts(I, t["body"]), coq_list([str(I(n)) for n in t["outs"]])))


def coq_struct(I, s):
    return ("{| s_name := %s; s_attrs := %s |}"
            % (I(s["name"]), coq_list([f"({I(n)}, {coq_vtype(I, ty)})" for n, ty in s["attrs"]])))


def coq_program(I, prog):
    return ("{| p_structs := %s; p_tasks := %s |}"
            % (coq_list([coq_struct(I, s) for s in prog["structs"]]),
               coq_list([coq_task(I, t) for t in prog["tasks"]])))


def coq_value(I, v):
    """value: Fraction | bool | ('str', s) | dict"""
    if isinstance(v, bool):
        return f"(VBool {'true' if v else 'false'})"
    if isinstance(v, (int, Fraction)):
        return f"(VNum {coq_q(v)})"
    if isinstance(v, tuple):
        return f"(VStr {I(strname(v[1]))})"
    return "(VStruct " + coq_list([f"({I(k)}, {coq_value(I, x)})" for k, x in v.items()]) + ")"
