"""Slice E of case kind `front` (property C12): the character-level lexer model
(coq/Front/CharLexer.v, evaluated with vm_compute inside coqc) against the real ANTLR lexer
of the tree under test (PFDLLexer below its denter: antlr4.Lexer.nextToken).

Compared per text
  view : the tokens (ANTLR rule name, exact text) produced before the end of the input or
         before the first token recognition error; whether and where (offset) such an error
         is reported; the column of the first token that is not an NL (what DenterHelper's
         first-token rule looks at).
  lex  : the token stream of the model's own vocabulary (Lines.rtok: values of INTEGER /
         FLOAT / NUMBER, interned identifier and string texts, NL with CR flag and blanks),
         i.e. the function the theorems of Properties/C12chars.v are about.
Texts travel to Coq as UTF-8 bytes in hexadecimal."""
import os
import random
import re
import sys
from fractions import Fraction

HERE = os.path.dirname(os.path.abspath(__file__))
if HERE not in sys.path:
    sys.path.insert(0, HERE)

import front_lines  # noqa: E402
import front_scan  # noqa: E402
import pfdl_ast  # noqa: E402

COQ_DIR = os.path.join(os.path.dirname(HERE), "coq")
HEADER = ("From PFDL.Front Require Import CharLexer.\nFrom Coq Require Import String List.\n"
          "Import ListNotations.\nOpen Scope string_scope.\nOpen Scope nat_scope.\n"
          "Set Printing Depth 1000000.\nSet Printing Width 200.\n")
MAX_INT_DIGITS = 5        # INTEGER becomes a unary nat in the model's token
SHARD = 400               # cases per generated .v file (<= 500)


def have_vo():
    return os.path.exists(os.path.join(COQ_DIR, "Front", "CharLexer.vo"))


# ----------------------------------------------------------------------------------------
# the real lexer
# ----------------------------------------------------------------------------------------
def raw_lex(text):
    """-> (tokens [(name, text, start, column)], first error start index or None, column of the
    first token that is not an NL).  Tokens come from the generated lexer itself
    (antlr4.Lexer.nextToken), not from the DenterHelper wrapped around it."""
    import front_dump  # noqa: F401  (puts the tree under test on sys.path)
    from antlr4.InputStream import InputStream
    from antlr4.Lexer import Lexer
    from antlr4.error.ErrorListener import ErrorListener
    from pfdl_scheduler.parser.PFDLLexer import PFDLLexer

    class EL(ErrorListener):
        def __init__(self):
            self.starts = []

        def syntaxError(self, recognizer, offendingSymbol, line, column, msg, e):
            self.starts.append(getattr(e, "startIndex", None))

    lx = PFDLLexer(InputStream(text))
    lx.removeErrorListeners()
    el = EL()
    lx.addErrorListener(el)
    toks = []
    first_col = None
    for _ in range(len(text) + 5):
        t = Lexer.nextToken(lx)
        name = "EOF" if t.type == -1 else lx.symbolicNames[t.type]
        if first_col is None and name != "NL":
            first_col = t.column
        if t.type == -1:
            break
        toks.append((name, t.text, t.start, t.column))
    else:
        raise RuntimeError("lexer does not reach EOF")
    err = el.starts[0] if el.starts else None
    return toks, err, first_col


def hexs(s):
    return s.encode("utf-8").hex()


def expected(text):
    """what the model must say: (view term, lex term or None, summary)"""
    toks, err, col = raw_lex(text)
    if err is not None:
        toks = [t for t in toks if t[2] < err]
        off = len(text[:err].encode("utf-8"))
        col = 0
    view = "(%s, %s, %d)" % (
        pfdl_ast.coq_list(['("%s", "%s")' % (n, hexs(tx)) for n, tx, _, _ in toks]),
        "None" if err is None else "(Some %d)" % off, col)
    # the model's own token type
    tab = {}

    def intern(s):
        h = hexs(s)
        if h not in tab:
            tab[h] = len(tab) + 1
        return tab[h]
    out = []
    lex_ok = True
    for n, tx, _, _ in toks:
        if n == "NL":
            cr = tx.startswith("\r")
            out.append("RNL %s %d" % ("true" if cr else "false", len(tx) - 1 - (1 if cr else 0)))
        elif n in front_lines.COQ_TOK:
            out.append("RTok " + front_lines.COQ_TOK[n])
        elif n == "INTEGER":
            if len(tx) > MAX_INT_DIGITS:
                lex_ok = False
                break
            out.append("RTok (TInt %d)" % int(tx))
        elif n == "FLOAT":
            out.append("RTok (TFloat %s)" % pfdl_ast.coq_q(Fraction(tx)))
        elif n == "NUMBER":
            if len(tx) > 40:
                lex_ok = False
                break
            out.append("RTok (JNumber %s)" % pfdl_ast.coq_q(Fraction(tx)))
        elif n == "STRING":
            out.append("RTok (TStr %d)" % intern(tx[1:-1]))
        elif n == "JSON_STRING":
            out.append("RTok (JString %d)" % intern(tx[1:-1]))
        elif n == "STARTS_WITH_LOWER_C_STR":
            out.append("RTok (TLower %d)" % intern(tx))
        elif n == "STARTS_WITH_UPPER_C_STR":
            out.append("RTok (TUpper %d)" % intern(tx))
        else:
            raise ValueError(n)
    lex = None
    if lex_ok:
        table = pfdl_ast.coq_list(['("%s", %d)' % (h, i) for h, i in tab.items()])
        if err is None:
            res = "LexOk %s %d" % (pfdl_ast.coq_list(out + ["REOF"]), col)
        else:
            res = "LexError %s %d" % (pfdl_ast.coq_list(out), off)
        lex = (table, res)
    return view, lex, dict(error=err is not None, tokens=len(toks), names=[t[0] for t in toks])


def coq_case(k, text):
    view, lex, info = expected(text)
    src = ['Definition i%d : list Ascii.ascii := unhex "%s".\n' % (k, hexs(text))]
    src.append('Goal True. first [ assert (view i%d = %s) by (vm_compute; reflexivity); idtac "@@%d V AGREE" '
               '| idtac "@@%d V DIFFER"; let r := eval vm_compute in (view i%d) in idtac r ]. Abort.\n'
               % (k, view, k, k, k))
    if lex is not None:
        src.append('Goal True. first [ assert (lex (intern_of_table %s) i%d = %s) by (vm_compute; reflexivity); '
                   'idtac "@@%d L AGREE" | idtac "@@%d L DIFFER"; '
                   'let r := eval vm_compute in (lex (intern_of_table %s) i%d) in idtac r ]. Abort.\n'
                   % (lex[0], k, lex[1], k, k, lex[0], k))
    return "".join(src), view, lex, info


# ----------------------------------------------------------------------------------------
# input distribution
# ----------------------------------------------------------------------------------------
FRAGMENTS = (
    ["Struct", "Task", "In", "Out", "Loop", "While", "To", "Parallel", "Condition", "Passed", "Failed", "OnDone",
     "End", "number", "string", "boolean", "true", "false", "And", "Or"]
    + ["a", "b", "x1", "aB_9", "_", "B", "Data", "Structx", "tru", "truex", "Andy", "e", "E", "e+", "E-"]
    + ["0", "1", "7", "12", "007", "1.5", "0.25", "12.50", "-0.5e-3", "1e5", "2E+1", "10", "9"]
    + ["<", "<=", ">", ">=", "=", "==", "!", "!=", "-", "+", "*", "/", ":", ".", ",", "[", "]", "(", ")", "{", "}"]
    + ['"', '"', "\\", '\\"', "#", "# c", " ", " ", "  ", "\t", "\n", "\n", "\n   ", "\r\n", "\r\n  ", "\r"]
    + list(front_scan.ILLEGAL_CLASSES.values()) + ["\U0001F600", "é"])


def random_text(rng):
    n = rng.randint(1, 14)
    return "".join(rng.choice(FRAGMENTS) for _ in range(n))


def mutate_chars(text, rng):
    """one character-level mutation"""
    if not text:
        return rng.choice(FRAGMENTS), "insert"
    c = rng.random()
    p = rng.randrange(len(text))
    if c < 0.25:
        return text[:p] + text[p + 1:], "delete-char"
    if c < 0.4:
        return text[:p] + text[p] + text[p:], "duplicate-char"
    if c < 0.55 and p + 1 < len(text):
        return text[:p] + text[p + 1] + text[p] + text[p + 2:], "swap-chars"
    if c < 0.8:
        return text[:p] + rng.choice(FRAGMENTS) + text[p + 1:], "replace-char"
    return text[:p] + rng.choice(FRAGMENTS) + text[p:], "insert-fragment"


def gen_cases(seed, pid, t, layout_names):
    """-> list of dict(text, origin)"""
    import kind_front
    out = []
    n_r, n_i, n_m, n_x = (t.get("chars_rendered", 0), t.get("chars_illegal", 0), t.get("chars_mutated", 0),
                          t.get("chars_random", 0))
    base = kind_front.coq_cases(seed + 3, pid, n_r, layout_names) if n_r else []
    for c in base:
        out.append(dict(text=c["text"], origin="rendered:" + c["layout"]))
    small = [c for c in base if len(c["text"]) <= 1500] or base
    classes = sorted(front_scan.ILLEGAL_CLASSES.items())
    for i in range(n_i if small else 0):
        rng = random.Random("%d/%s/chars-ill/%d" % (seed, pid, i))
        c = small[i % len(small)]
        cname, ch = classes[i % len(classes)]
        pos = rng.randrange(len(c["text"]) + 1)
        text = c["text"][:pos] + ch + c["text"][pos:]
        where = "code" if front_scan.illegal_at(text, pos) else "legal-place"
        out.append(dict(text=text, origin="illegal:" + where, cls=cname))
    for i in range(n_m if small else 0):
        rng = random.Random("%d/%s/chars-mut/%d" % (seed, pid, i))
        c = small[i % len(small)]
        if i % 3 == 0:
            ml, how = kind_front.mutate_lines(c["lines"], rng)
            text, _ = front_lines.assemble(ml, c["fnl"], front_lines.FLayout())
            how = "token:" + how
        else:
            text, how = mutate_chars(c["text"], rng)
            if i % 3 == 2:
                text, how2 = mutate_chars(text, rng)
                how += "+" + how2
            how = "char:" + how
        out.append(dict(text=text, origin="mutated", how=how))
    for i in range(n_x):
        rng = random.Random("%d/%s/chars-rnd/%d" % (seed, pid, i))
        out.append(dict(text=random_text(rng), origin="random"))
    return out


# ----------------------------------------------------------------------------------------
# the slice
# ----------------------------------------------------------------------------------------
def run_cases(pid, cases, workdir, rep, stats, tag="chars"):
    import coqeval
    from concurrent.futures import ThreadPoolExecutor
    srcs = []
    for k, c in enumerate(cases):
        s, view, lex, info = coq_case(k, c["text"])
        c["impl_view"], c["impl_lex"], c["info"] = view, lex, info
        srcs.append(s)
    nshards = max(1, min(16, len(cases)), (len(cases) + SHARD - 1) // SHARD)
    shards = [list(range(len(cases)))[i::nshards] for i in range(nshards)]

    def one(ix):
        out, _ = coqeval.run_coq("\n".join(srcs[k] for k in shards[ix]), workdir, "%s_%d" % (tag, ix), header=HEADER)
        return out
    with ThreadPoolExecutor(max_workers=16) as ex:
        outs = list(ex.map(one, range(nshards)))
    verdict = {}
    for out in outs:
        for m in re.finditer(r"@@(\d+) ([VL]) (AGREE|DIFFER)([^@]*)", out):
            verdict[(int(m.group(1)), m.group(2))] = (m.group(3), m.group(4).strip()[:3000])
    for k, c in enumerate(cases):
        info = c["info"]
        stats["generated"] += 1
        stats["compared"] += 1
        stats["chars_cases"] += 1
        stats["chars_origin:" + c["origin"]] += 1
        stats["chars_bytes"] += len(c["text"].encode("utf-8"))
        stats["chars_tokens"] += info["tokens"]
        if info["error"]:
            stats["chars_impl_reports_error"] += 1
        if any(ord(ch) > 127 for ch in c["text"]):
            stats["chars_with_non_ascii"] += 1
        if c.get("how"):
            stats["chars_mutation:" + c["how"].split("+")[0]] += 1
        if c.get("cls"):
            stats["chars_class:" + c["cls"]] += 1
        v = verdict.get((k, "V"))
        lv = verdict.get((k, "L")) if c["impl_lex"] is not None else ("AGREE", "")
        if c["impl_lex"] is not None:
            stats["chars_lex_compared"] += 1
        if v is not None and v[0] == "AGREE" and lv is not None and lv[0] == "AGREE":
            stats["agree"] += 1
            stats["chars_agree"] += 1
        else:
            rep.violation({"property": pid, "kind": "front", "sub": "chars", "text": c["text"],
                           "origin": c["origin"], "how": c.get("how"),
                           "impl_view": c["impl_view"], "impl_lex": c["impl_lex"] and c["impl_lex"][1],
                           "model_view": (v[1] if v else "no verdict printed") if not (v and v[0] == "AGREE") else "agrees",
                           "model_lex": (lv[1] if lv else "no verdict printed") if not (lv and lv[0] == "AGREE") else "agrees",
                           "machinery_note": "Gallina character-level lexer (Front/CharLexer.v) and the ANTLR lexer "
                                             "disagree on tokens / error / first column"})


def slice_chars(pid, t, seed, layout_names, workdir, rep, stats):
    import time
    t0 = time.time()
    cases = gen_cases(seed, pid, t, layout_names)
    if cases:
        run_cases(pid, cases, workdir, rep, stats)
    stats["wall_chars_s"] = int(time.time() - t0)


def replay(pid, payload, workdir):
    from collections import Counter

    class R:
        def __init__(self):
            self.v = []

        def violation(self, p, tail=""):
            self.v.append(p)
    rr = R()
    run_cases(pid, [dict(text=payload["text"], origin=payload.get("origin", "replay"))], workdir, rr, Counter(),
              tag="chars_replay")
    why = "agree"
    if rr.v:
        why = "model view: %s; model lex: %s" % (str(rr.v[0]["model_view"])[:300], str(rr.v[0]["model_lex"])[:300])
    return {"fails": bool(rr.v), "why": why}
