"""Configuration of the front-end check (property C12, case kind `front`)."""

PROPS = {
    "C12": dict(kind="front",
                # corpus cases of kind `run` that list C12 (D6: order of mixed parameters) are
                # replayed through the run machinery with the parameter projection
                proj="P_C15", mon="mon_true",
                # the check builds exactly these (props.build_targets): the models the slices evaluate
                # inside coqc (+ the run machinery for the corpus case of kind `run`), then the theorem
                # file with everything it depends on and the source-table obligations
                runtime=["Front/Lexemes.vo", "Front/FrontEnd.vo", "Front/Render.vo", "Front/CharLexer.vo", "NetRun.vo",
                         "Monitors.vo"],
                # C12chars: the character level (Front/CharLexer.v, CharRender.v, CharLexerProofs.v);
                # ObligationsCharLexer: the rule bodies the character-level lexer hard-codes = PFDLLexer.g4
                targets=["Properties/C12.vo", "Gen/ObligationsFront.vo", "Properties/C12chars.vo",
                         "Gen/ObligationsCharLexer.vo"],
                property_files=("C12chars",),
                quick=dict(programs=400, insertion_texts=80, positions_per_text=60,
                           coq_denter=160, coq_frontend=160, coq_render=64,
                           # slice F (character-level lexer vs the ANTLR lexer)
                           chars_rendered=40, chars_illegal=69, chars_mutated=66, chars_random=250),
                thorough=dict(programs=8000, insertion_texts=1600, positions_per_text=60,
                              coq_denter=3200, coq_frontend=3200, coq_render=1280,
                              chars_rendered=800, chars_illegal=1380, chars_mutated=1320, chars_random=5000)),
}
