PROPS = {
    "C18": dict(kind="config", profiles=["default", "imm", "loops", "parallel", "parloop", "react", "react_all"],
                quick=48, thorough=1500, draw_quick=2, draw_thorough=20),
}
