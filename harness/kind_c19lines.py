"""C19 in LINES — plug-in kind `c19lines`.

Model: coq/Front/LinesOf.v — ctx_line t p c (the line the implementation reports for a message
whose context is c), line_span / struct_line_span / task_line_span (first and last line of a
statement / definition), nlines — evaluated with vm_compute inside coqc on the program AST p
and on the text t in the line representation of coq/Front/Lines.v (theorems:
coq/Properties/C19lines.v).  Until now the lines were computed by the harness printer
(gen_check.render's linemap); here the Gallina functions take its place.

Per generated single-fault program (faults.inject over gen_check.WGen, every fault class) and
per layout variant (harness/front_lines.py: indentation widths, blank and comment-only lines,
trailing comments and blanks, CR LF, no final newline, struct literals broken over several
lines with blank / comment lines inside) three things are compared:
  (i)   Gallina vs harness: ctx_line for EVERY context of the program (all structs, attributes,
        tasks, In / Out lines, statements at every path, output definitions, literal name and
        brace lines), the spans of all statements and definitions, and the number of lines,
        against an independent Python computation (rows from gen_check.render's linemap in the
        gap-free layout, physical lines from the line records);
  (ii)  Gallina vs implementation: the multiset of (message kind, line) that the real
        parse_string prints for the text, in the console and in the editor-extension format,
        against CheckModel.validate's messages with lines computed by ctx_line;
  (iii) the statement of C19 itself, judged with the Gallina spans: some printed line lies in
        line_span of the smallest statement / definition containing the fault (line 1 for the
        file-level fault), and every printed line lies in 1..nlines.
Definitions are printed structs first, then tasks (Render.forest_of); literals in the block
form (name line, brace line below).  The 'Name {' same-line form and interleaved definition
order stay with kind_check's own linemap correspondence."""
import collections
import os
import random
import re
import sys

HERE = os.path.dirname(os.path.abspath(__file__))
if HERE not in sys.path:
    sys.path.insert(0, HERE)

import coqeval  # noqa: E402
import pfdl_ast  # noqa: E402

SIZES = {"quick": (1, 2), "thorough": (12, 3)}      # (repetitions per fault class, layouts per program)
HEADER = ("From PFDL Require Import Base Syntax.\nFrom PFDL.Check Require Import CheckModel CheckRun.\n"
          "From PFDL.Front Require Import Tokens Lines LinesOf.\n"
          "Definition on (o : option nat) : nat := match o with Some n => S n | None => 0 end.\n"
          "Definition osp (o : option (nat * nat)) : nat * nat := match o with Some (a, b) => (S a, S b) | None => (0, 0) end.\n"
          "Definition rcode (r : res (list err)) : nat * nat * list (nat * (nat * nat * list nat * nat)) :=\n"
          "  match r with Ok es => (0, 0, map (fun e => (ekind_code (fst e), ctx_code (snd e))) es)\n"
          "  | Exn k => (1, exn_code k, []) | Fuel => (2, 0, []) | Unsupported => (3, 0, []) end.\n"
          "Definition mlines (r : res (list err)) (t : text) (p : program) : list nat :=\n"
          "  match r with Ok es => map (fun e => on (ctx_line t p (snd e))) es | _ => [] end.\n"
          "Definition ln := Build_line.\n"
          "Set Printing Depth 1000000.\nSet Printing Width 100000.\n")

LAYOUT_SPECS = [
    ("plain", dict()),
    ("filler", dict(blank=0.35, comment_lines=0.3, trailing_comments=0.25, trailing_blanks=0.3, tabs_ws=True)),
    ("json_multiline", dict(json_multiline=0.9, blank=0.15, trailing_comments=0.1)),
    ("crlf_widths", dict(per_block=True, crlf="mixed", final="none", blank=0.2)),
    ("everything", dict(per_block=True, crlf="all", final="blanks", blank=0.3, comment_lines=0.25,
                        trailing_comments=0.2, trailing_blanks=0.3, json_multiline=0.7, sep="loose", tabs_ws=True)),
    ("w1_tight", dict(width=1, sep="tight", final="comment")),
]


def make_layout(name, rng):
    import front_lines
    return front_lines.FLayout(name=name, rng=rng, **dict(LAYOUT_SPECS)[name])


# ----------------------------------------------------------------------------------------
# the harness' own computation of rows and physical lines
# ----------------------------------------------------------------------------------------
def rows_of(prog):
    """context / span keys -> rows (from 1), from gen_check.render in the layout without gaps"""
    import gen_check
    lm = {}
    gen_check.render(prog, gen_check.Layout(top=0, gap=0, json_style="next", lit_same_line=False), lm)
    lm.pop("nlines", None)
    return lm


def phys_spans(lines):
    """(first, last) physical line (from 1) of every significant logical line"""
    out = []
    depth = 0
    start = None
    for n, ln in enumerate(lines, 1):
        names = [x[0] for x in ln["lex"]]
        if depth == 0:
            if not names:
                continue
            start = n
        for x in names:
            if x in ("JSON_OPEN", "JSON_OPEN_2"):
                depth += 1
            elif x == "JSON_CLOSE":
                depth -= 1
        if depth == 0:
            out.append((start, n))
    return out


def coq_ctx(key):
    k = key[0]
    if k in ("CStruct", "CTask", "CTaskIn", "CTaskOut"):
        return "%s %d" % (k, key[1])
    if k in ("CStructAttr", "CTaskInParam"):
        return "%s %d %d" % (k, key[1], key[2])
    path = pfdl_ast.coq_list([str(i) for i in key[2]])
    if k in ("CStmt", "CStmtIn"):
        return "%s %d %s" % (k, key[1], path)
    return "%s %d %s %d" % (k, key[1], path, key[3])


def coq_span(key):
    if key[0] == "span_struct":
        return "struct_line_span T P %d" % key[1]
    if key[0] == "span_task":
        return "task_line_span T P %d" % key[1]
    return "line_span T P %d %s" % (key[1], pfdl_ast.coq_list([str(i) for i in key[2]]))


# ----------------------------------------------------------------------------------------
# cases
# ----------------------------------------------------------------------------------------
def build_case(seed_str, fault, pk, depth, layout_names):
    import faults
    import front_lines
    import gen_check
    rng = random.Random(seed_str)
    base = gen_check.WGen(rng).gen_program()
    inj = faults.inject(base, rng, fault, pk or rng.choice(faults.POS_KINDS), depth)
    if inj is None:
        inj = faults.inject(base, rng, fault, "new_called", depth)
    prog = gen_check.clone(inj["prog"])
    prog["order"] = None                        # structs first, then tasks
    rows = rows_of(prog)
    variants = []
    for ln in layout_names:
        L = make_layout(ln, random.Random(seed_str + "/" + ln))
        text, _, lines, fnl, _ = front_lines.render_text(prog, L)
        variants.append({"layout": ln, "text": text, "lines": lines, "fnl": fnl})
    return {"prog": prog, "rows": rows, "variants": variants,
            "meta": {"fault": fault, "pos": inj["pos"], "span": inj["span"], "depth": inj["depth"], "seed": seed_str}}


def coq_line(I, ln):
    import front_lines
    return ("(ln %d %s %s %d %s)" % (ln["indent"], pfdl_ast.coq_list([front_lines.coq_tok(I, x) for x in ln["lex"]]),
                                      "None" if ln["comment"] is None else "(Some %d)" % len(ln["comment"]),
                                      len(ln["trail"]), "true" if ln["cr"] else "false"))


def coq_source(k, case):
    import front_lines
    I = front_lines.FrontInterner()
    ctx_keys = [key for key in case["rows"] if not key[0].startswith("span_")]
    span_keys = [key for key in case["rows"] if key[0].startswith("span_")]
    case["ctx_keys"], case["span_keys"] = ctx_keys, span_keys
    defs = ["Definition p%d : program := %s.\n" % (k, pfdl_ast.coq_program(I, case["prog"])),
            "Definition cs%d : list ctx := %s.\n" % (k, pfdl_ast.coq_list([coq_ctx(key) for key in ctx_keys])),
            "Definition sp%d (T : text) (P : program) : list (nat * nat) := %s.\n"
            % (k, pfdl_ast.coq_list(["osp (%s)" % coq_span(key) for key in span_keys]))]
    exprs = []
    for j, v in enumerate(case["variants"]):
        defs.append("Definition t%d_%d : text := Build_text %s %s.\n"
                    % (k, j, pfdl_ast.coq_list([coq_line(I, x) for x in v["lines"]]), "true" if v["fnl"] else "false"))
        T, P = "t%d_%d" % (k, j), "p%d" % k
        exprs.append("(mlines r %s %s, map (fun c => on (ctx_line %s %s c)) cs%d, sp%d %s %s, nlines %s)"
                     % (T, P, T, P, k, k, T, P, T))
    return "".join(defs), "(let r := validate p%d in (rcode r, %s))" % (k, pfdl_ast.coq_list(exprs))


def _impl_both(text):
    import check_core
    out = []
    for ext in (False, True):
        r = check_core.run_impl(text, ext=ext)
        r.pop("process", None)
        out.append(r)
    return out


def evaluate(cases, workdir, tag="c19lines"):
    import check_core
    from concurrent.futures import ProcessPoolExecutor
    items = [coq_source(k, c) for k, c in enumerate(cases)]
    texts = [v["text"] for c in cases for v in c["variants"]]
    if len(texts) >= 16:
        ex = ProcessPoolExecutor(max_workers=6)
        fut = ex.map(_impl_both, texts, chunksize=8)
    else:
        ex, fut = None, None
    raw = coqeval.eval_many(items, workdir, jobs=16, shard=max(1, (len(items) + 15) // 16), header=HEADER, tag=tag)
    impl = list(fut) if fut is not None else [_impl_both(t) for t in texts]
    if ex is not None:
        ex.shutdown()
    it = iter(impl)
    for c in cases:
        for v in c["variants"]:
            v["impl"] = next(it)
    for c, r in zip(cases, raw):
        v = check_core.coq_to_py(coqeval.parse_result(r))
        # ((status, exn, errs), [..]) is printed flat: (status, exn, errs, [..])
        status, exn, errs, per = v[0], v[1], v[2], v[3]
        c["model"] = {"status": ["ok", "exn", "fuel", "unsupported"][status],
                      "kinds": [check_core.KINDS[kc] for kc, _ in errs],
                      "ctxs": [check_core.ctx_key(cc) for _, cc in errs]}
        for var, (ml, cl, sp, nl) in zip(c["variants"], per):
            var["coq"] = {"msg_lines": [x - 1 if x else None for x in ml],
                          "ctx_lines": [x - 1 if x else None for x in cl],
                          "spans": [(a - 1, b - 1) if a else None for a, b in sp], "nlines": nl}
    return cases


def judge(case, var):
    """None or the first disagreement"""
    import check_core
    ps = phys_spans(var["lines"])
    coq = var["coq"]
    # (i) Gallina vs the harness' own line arithmetic
    if coq["nlines"] != len(var["lines"]):
        return "nlines: Gallina %d, line records %d" % (coq["nlines"], len(var["lines"]))
    text_lines = var["text"].count("\n") + (0 if var["text"].endswith("\n") or var["text"] == "" else 1)
    if text_lines != len(var["lines"]):
        return "harness: text has %d lines, line records %d" % (text_lines, len(var["lines"]))
    for key, got in zip(case["ctx_keys"], coq["ctx_lines"]):
        want = ps[case["rows"][key] - 1][0]
        if got != want:
            return "ctx_line %r: Gallina %r, harness %r" % (key, got, want)
    for key, got in zip(case["span_keys"], coq["spans"]):
        a, b = case["rows"][key]
        want = (ps[a - 1][0], ps[b - 1][1])
        if got != want:
            return "span %r: Gallina %r, harness %r" % (key, got, want)
    if case["model"]["status"] != "ok":
        return None
    # (ii) Gallina lines vs the implementation's printed lines, both formats
    cnt = collections.Counter()
    for kind, ck, ln in zip(case["model"]["kinds"], case["model"]["ctxs"], coq["msg_lines"]):
        if ln is None:
            return "ctx_line undefined for the context %r of a model message %s" % (ck, kind)
        cnt[(kind, ln)] += 1
    span_key = case["meta"]["span"]
    for ext, r in zip((False, True), var["impl"]):
        obs = check_core.impl_observation(r)
        d = check_core.compare(obs, ("ok", cnt))
        if d:
            return ("extension" if ext else "console") + " format: " + d
        # (iii) C19 with the Gallina spans
        if r["valid"] is not False or not r["msgs"]:
            continue
        lines = [ln for _, ln in r["msgs"]]
        bad = [ln for ln in lines if not 1 <= ln <= coq["nlines"]]
        if bad:
            return "C19: reported line %d outside 1..%d" % (bad[0], coq["nlines"])
        if span_key == "file":
            if 1 not in lines:
                return "C19: no message at line 1 for the file-level fault: %s" % lines
        else:
            sk = tuple(tuple(x) if isinstance(x, list) else x for x in span_key)
            sp = coq["spans"][case["span_keys"].index(sk)]
            if sp is None or not any(sp[0] <= ln <= sp[1] for ln in lines):
                return "C19: no reported line in the Gallina span %r of %r: %s" % (sp, sk, lines)
    return None


def payload_of(pid, case, var, why):
    return {"property": pid, "kind": "c19lines", "why": why, "prog": case["prog"], "meta": case["meta"],
            "layout": var["layout"], "text": var["text"], "lines": var["lines"], "final_newline": var["fnl"],
            "gallina": var.get("coq"), "model": case.get("model")}


def plan(pid, tier, seed, cfg):
    import faults
    reps, nlay = cfg.get("c19lines_" + tier, SIZES[tier])
    names = [n for n, _ in LAYOUT_SPECS]
    out = []
    for fi, f in enumerate(faults.ALL_FAULTS):
        for r in range(reps):
            pk = faults.POS_KINDS[(r + fi) % len(faults.POS_KINDS)]
            depth = (r + fi) % 4
            lay = [names[(fi + r + j * 2) % len(names)] for j in range(nlay)]
            if len(set(lay)) < len(lay):
                lay = names[:nlay]
            out.append(("%d/%s/c19lines/%s/%d" % (seed, pid, f, r), f, pk, depth, lay))
    return out


def slice_c19lines(pid, cfg, tier, seed, workdir, rep, stats, findings):
    import time
    t0 = time.time()
    cases = []
    for s, f, pk, d, lay in plan(pid, tier, seed, cfg):
        try:
            cases.append(build_case(s, f, pk, d, lay))
        except Exception as e:  # noqa: BLE001   (a program the line printer cannot express)
            stats["c19lines_skipped:" + type(e).__name__] += 1
    evaluate(cases, workdir)
    samples = []
    for c in cases:
        stats["c19lines_programs"] += 1
        stats["c19lines_contexts"] += len(c["ctx_keys"])
        stats["c19lines_spans"] += len(c["span_keys"])
        if c["model"]["status"] != "ok":
            stats["c19lines_model_" + c["model"]["status"]] += 1
        for var in c["variants"]:
            stats["generated"] += 1
            stats["compared"] += 1
            stats["c19lines_texts"] += 1
            stats["c19lines_layout:" + var["layout"]] += 1
            why = judge(c, var)
            if why:
                rep.violation(payload_of(pid, c, var, why))
                continue
            stats["agree"] += 1
            stats["c19lines_agree"] += 1
            stats["c19lines_class:" + c["meta"]["fault"][:3]] += 1
            stats.setdefault("_distinct", set()).add(("c19lines", var["text"]))
            if len(samples) < 2 and c["meta"]["depth"] >= 2 and var["layout"] != "plain":
                samples.append({"kind": "c19lines", "fault": c["meta"]["fault"], "layout": var["layout"],
                                "span": c["meta"]["span"], "text": var["text"][:600],
                                "message_lines": var["coq"]["msg_lines"]})
    stats["wall_c19lines_s"] = int(time.time() - t0)
    return samples


def replay_c19lines(pid, cfg, payload, workdir):
    case = {"prog": payload["prog"], "meta": payload["meta"], "rows": rows_of(payload["prog"]),
            "variants": [{"layout": payload.get("layout"), "text": payload["text"],
                          "lines": [dict(l, lex=[tuple(x) for x in l["lex"]]) for l in payload["lines"]],
                          "fnl": payload["final_newline"]}]}
    evaluate([case], workdir, tag="c19lines_replay")
    why = judge(case, case["variants"][0])
    return {"fails": bool(why), "why": why or "Gallina lines, harness lines and the implementation's lines agree"}


KIND = {"c19lines": {"slice": slice_c19lines, "replay": replay_c19lines,
                     "rule": "single-fault programs (faults.inject, every fault class, rotating position kinds and "
                             "nesting depths) x layout variants of front_lines.py; LinesOf.ctx_line / line_span / "
                             "nlines are evaluated inside coqc and compared with the harness' own line arithmetic for "
                             "every context and span of the program, and the (kind, line) messages with the real "
                             "parse_string in both output formats; non-trivial = all three agree; distinct = texts"}}
