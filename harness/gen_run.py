"""Typed random generator of valid PFDL programs for `run` cases, plus valuations,
immediate-completion bits and scripts.  Every random choice comes from the rng passed
in (one PRNG state per case, derived from VERIF_SEED)."""
from fractions import Fraction

NUM = ("plain", "number")
BOOL = ("plain", "boolean")
STR = ("plain", "string")

STRUCTS = [
    {"name": "Data", "attrs": [("count", NUM), ("flag", BOOL), ("ratio", NUM), ("label", STR),
                               ("items", ("array", "Item", None)), ("inner", ("plain", "Inner"))]},
    {"name": "Inner", "attrs": [("n", NUM), ("ok", BOOL)]},
    {"name": "Item", "attrs": [("v", NUM)]},
    # a twin of Item: same attributes, another name (literals with identical JSON text under
    # two type names; used in service inputs only, which have no signature)
    {"name": "Piece", "attrs": [("v", NUM)]},
    # a flat struct (no nested struct) with an array of numbers; service inputs only
    {"name": "Palette", "attrs": [("rgb", ("array", "number", None)), ("tone", NUM)]},
]

# every variable is answered with a value that has the attributes of all structs, so a
# path that type-checks against any of the three definitions resolves
NUM_PATHS = {"Data": [[("f", "count")], [("f", "ratio")], [("f", "inner"), ("f", "n")]],
             "Inner": [[("f", "n")]], "Item": [[("f", "v")]]}
BOOL_PATHS = {"Data": [[("f", "flag")], [("f", "inner"), ("f", "ok")]],
              "Inner": [[("f", "ok")]], "Item": []}
INT_PATHS = {"Data": [[("f", "count")], [("f", "inner"), ("f", "n")]],
             "Inner": [[("f", "n")]], "Item": [[("f", "v")]]}

DYADIC = [Fraction(0), Fraction(1), Fraction(2), Fraction(3), Fraction(-1), Fraction(-2),
          Fraction(1, 2), Fraction(3, 2), Fraction(4), Fraction(-1, 2)]
DIVISORS = [Fraction(1), Fraction(2), Fraction(-1), Fraction(4), Fraction(1, 2), Fraction(-2)]


def gen_valuation(rng, small_ints=True):
    def num():
        return rng.choice(DYADIC)

    def lim():
        return Fraction(rng.choice([0, 1, 2, 3, 0, 1, 2, -1]))
    return {"*": {"count": lim(), "flag": rng.random() < 0.5, "ratio": num(),
                  "label": ("str", "x"), "n": lim(), "ok": rng.random() < 0.5, "v": lim(),
                  "inner": {"n": lim(), "ok": rng.random() < 0.5}}}


FINAL_VALUATION = {"*": {"count": Fraction(0), "flag": False, "ratio": Fraction(0),
                         "label": ("str", "x"), "n": Fraction(0), "ok": False, "v": Fraction(0),
                         "inner": {"n": Fraction(0), "ok": False}}}


# ---- reference evaluator (used only to make while guards false under FINAL_VALUATION) ----
def py_eval(e, val):
    k = e[0]
    if k == "num":
        return e[1]
    if k == "bool":
        return e[1]
    if k == "path":
        v = val["*"]
        for pe in e[2]:
            v = v[pe[1]]
        return v
    if k == "not":
        return not py_eval(e[1], val)
    if k == "paren":
        return py_eval(e[1], val)
    a, b = py_eval(e[2], val), py_eval(e[3], val)
    op = e[1]
    return {"<": lambda: a < b, "<=": lambda: a <= b, ">": lambda: a > b, ">=": lambda: a >= b,
            "==": lambda: a == b, "!=": lambda: a != b, "And": lambda: a and b,
            "Or": lambda: a or b, "+": lambda: a + b, "-": lambda: a - b, "*": lambda: a * b,
            "/": lambda: a / b}[op]()


def wrap(e):
    """run cases never rely on operator precedence (that is C13's `expr` slice): every
    compound operand is parenthesised, so the parse tree is the generated tree"""
    if e[0] in ("bin", "not"):
        return ("paren", e)
    return e


class Profile:
    """weights of statement kinds and limits on size"""

    def __init__(self, **kw):
        self.w = {"service": 5, "call": 2, "parallel": 1, "while": 1, "count": 1, "parloop": 0,
                  "cond": 2}
        self.max_depth = 3
        self.max_tasks = 3
        self.max_block = 3
        self.params = 0.4          # probability that a call/service carries inputs
        self.imm = 0.15            # probability of an immediate completion bit
        self.junk = 0.0            # probability of a junk call between two script steps
        self.react = 0.0           # probability that a notification triggers a re-entrant completion
        self.react_all = False     # ... also finished notifications (known finding D20)
        self.item_bias = 0.0       # probability that a task input is an Item (indexable by loop variables)
        self.expr_depth = 2
        self.parloop_shapes = "safe"   # "safe": only shapes outside the known findings; "all"
        self.budget = 10           # bound on the number of service statements
        for k, v in kw.items():
            if k == "w":
                self.w.update(v)
            else:
                setattr(self, k, v)


class Gen:
    def __init__(self, rng, profile):
        self.rng = rng
        self.p = profile
        self.nsvc = 0
        self.budget = profile.budget

    # -- expressions ------------------------------------------------------
    def num_expr(self, vars_, depth):
        r = self.rng
        if depth <= 0 or r.random() < 0.4:
            cands = [(v, p) for v, t in vars_.items() for p in NUM_PATHS.get(t, [])]
            if cands and r.random() < 0.7:
                v, p = r.choice(cands)
                return ("path", v, list(p))
            return ("num", r.choice(DYADIC))
        op = r.choice(["+", "-", "*", "/"])
        left = wrap(self.num_expr(vars_, depth - 1))
        if op == "/":
            right = ("num", r.choice(DIVISORS))
        else:
            right = wrap(self.num_expr(vars_, depth - 1))
        return ("bin", op, left, right)

    def bool_expr(self, vars_, depth):
        r = self.rng
        if depth <= 0 or r.random() < 0.25:
            cands = [(v, p) for v, t in vars_.items() for p in BOOL_PATHS.get(t, [])]
            if cands and r.random() < 0.7:
                v, p = r.choice(cands)
                return ("path", v, list(p))
            if r.random() < 0.5:
                return ("bool", r.random() < 0.5)
            return ("bin", r.choice(["<", "<=", ">", ">=", "==", "!="]),
                    self.num_expr(vars_, 0), self.num_expr(vars_, 0))
        c = r.random()
        if c < 0.5:
            return ("bin", r.choice(["<", "<=", ">", ">=", "==", "!="]),
                    wrap(self.num_expr(vars_, depth - 1)), wrap(self.num_expr(vars_, depth - 1)))
        if c < 0.65:
            # '!' binds looser than comparisons in the grammar: negate a parenthesised or atomic operand
            inner = self.bool_expr(vars_, depth - 1)
            if inner[0] == "bin":
                inner = ("paren", inner)
            return ("not", inner)
        if c < 0.8:
            return ("paren", self.bool_expr(vars_, depth - 1))
        op = r.choice(["And", "Or"])
        return ("bin", op, self.and_operand(vars_, depth - 1), self.and_operand(vars_, depth - 1))

    def and_operand(self, vars_, depth):
        e = self.bool_expr(vars_, depth)
        # keep the intended tree independent of precedence: parenthesise compound operands
        if e[0] in ("bin", "not"):
            return ("paren", e)
        return e

    def guard(self, vars_):
        for _ in range(20):
            e = self.bool_expr(vars_, self.p.expr_depth)
            try:
                if not py_eval(e, FINAL_VALUATION):
                    return e
                e2 = ("not", ("paren", e))
                if not py_eval(e2, FINAL_VALUATION):
                    return e2
            except ZeroDivisionError:
                continue
        return ("bool", False)

    def cond_expr(self, vars_):
        for _ in range(20):
            e = self.bool_expr(vars_, self.p.expr_depth)
            return e
        return ("bool", True)

    def limit(self, vars_):
        r = self.rng
        cands = [(v, p) for v, t in vars_.items() for p in INT_PATHS.get(t, [])]
        if cands and r.random() < 0.5:
            v, p = r.choice(cands)
            return ("path", v, list(p))
        return ("int", r.choice([0, 1, 2, 3, 1, 2]))

    # -- parameters -------------------------------------------------------
    def literal(self, ty):
        r = self.rng
        if ty == "Inner":
            return ("lit", "Inner", ("obj", [("n", ("num", r.choice(DYADIC))), ("ok", ("bool", r.random() < 0.5))]))
        if ty == "Item":
            return ("lit", "Item", ("obj", [("v", ("num", r.choice(DYADIC)))]))
        items = [("obj", [("v", ("num", Fraction(i)))]) for i in range(r.randint(0, 2))]
        return ("lit", "Data", ("obj", [
            ("count", ("num", Fraction(r.randint(0, 3)))), ("flag", ("bool", r.random() < 0.5)),
            ("ratio", ("num", r.choice(DYADIC))), ("label", ("str", r.choice(["a", "b c", "x_1"]))),
            ("items", ("arr", items)),
            ("inner", ("obj", [("n", ("num", Fraction(1))), ("ok", ("bool", True))]))]))

    def arg_for(self, ty, vars_, loopvars):
        """an argument expression of type ty in a task with variables vars_"""
        r = self.rng
        opts = []
        for v, t in vars_.items():
            if t == ty:
                opts.append(("var", v))
            if t == "Data" and ty == "Inner":
                opts.append(("path", v, [("f", "inner")]))
            if t == "Data" and ty == "Item":
                opts.append(("path", v, [("f", "items"), ("il", r.randint(0, 2))]))
                for lv in loopvars:
                    opts.append(("path", v, [("f", "items"), ("iv", lv)]))
                    opts.append(("path", v, [("f", "items"), ("iv", lv)]))
            if ty == "number":
                for p in NUM_PATHS.get(t, []):
                    opts.append(("path", v, list(p)))
        if ty in ("Data", "Inner", "Item"):
            opts.append(self.literal(ty))
        if not opts:
            return None
        idx = [o for o in opts if o[0] == "path" and any(e[0] == "iv" for e in o[2])]
        if idx and r.random() < (0.9 if self.p.item_bias else 0.6):
            return r.choice(idx)
        return r.choice(opts)

    def service_ins(self, vars_, loopvars):
        r = self.rng
        if r.random() >= self.p.params:
            return []
        out = []
        for _ in range(r.randint(1, 3)):
            a = self.arg_for(r.choice(["Data", "Inner", "Item", "number"]), vars_, loopvars)
            if a is not None:
                if a[0] == "lit" and a[1] == "Item":
                    # few distinct values, and half of them under the twin's name; sometimes the flat
                    # struct with an array instead
                    k = r.choice(["Item", "Piece", "Item", "Piece", "Palette"])
                    if k == "Palette":
                        a = ("lit", "Palette", ("obj", [("rgb", ("arr", [("num", Fraction(255)), ("num", r.choice(DYADIC[:3])),
                                                                        ("num", Fraction(20))])),
                                                       ("tone", ("num", r.choice(DYADIC[:3])))]))
                    else:
                        a = ("lit", k, ("obj", [("v", ("num", r.choice(DYADIC[:3])))]))
                out.append(a)
        return out

    # -- statements -------------------------------------------------------
    def gen_program(self):
        r = self.rng
        ntasks = r.randint(0, self.p.max_tasks)
        sigs = []
        for i in range(ntasks):
            ins = []
            if r.random() < self.p.params:
                for j in range(r.randint(1, 2) if not self.p.item_bias else r.randint(2, 3)):
                    if r.random() < self.p.item_bias:
                        ins.append(("p%d" % j, ("plain", "Item")))
                    else:
                        ins.append(("p%d" % j, ("plain", r.choice(["Data", "Inner", "Item", "Item", "number"]))))
            sigs.append({"name": "t%d" % (i + 1), "ins": ins})
        self.sigs = sigs
        tasks = []
        # task i may call tasks with a larger index only: the call graph is acyclic
        order = [{"name": "productionTask", "ins": []}] + sigs
        for idx, sg in enumerate(order):
            vars_ = {n: t[1] for n, t in sg["ins"] if t[1] != "number"}
            self.cur = {"vars": vars_, "callable": order[idx + 1:], "have_d": False}
            body = self.block(1, [], top=True)
            tasks.append({"name": sg["name"], "ins": list(sg["ins"]), "body": body, "outs": []})
        # drop tasks that are never called?  keep them: uncalled tasks are legal
        return {"structs": [dict(s) for s in STRUCTS], "tasks": tasks}

    def block(self, depth, loopvars, top=False, n=None):
        r = self.rng
        k = n if n is not None else r.randint(1, self.p.max_block)
        return [self.stmt(depth, loopvars) for _ in range(k)]

    def loop_var(self, depth):
        """counting variables: usually one name per nesting depth, sometimes the same name (and
        then often the same limit) at several depths - nested loops with identical headers"""
        x = self.rng.random()
        if x < 0.08:
            return ("n", "v")[depth % 2]      # a counting variable spelled like an attribute (d.inner.n, items[..].v)
        if x < 0.25:
            return "i"
        return "i%d" % depth

    def pick_kind(self, depth):
        w = dict(self.p.w)
        if depth >= self.p.max_depth or self.budget <= 0:
            for k in ("parallel", "while", "count", "cond", "parloop"):
                w[k] = 0
        if not self.cur["callable"]:
            w["call"] = w["parallel"] = w["parloop"] = 0
        if self.budget <= 0:
            w["call"] = 0
        tot = sum(w.values())
        x = self.rng.random() * tot
        for k, v in w.items():
            x -= v
            if x < 0:
                return k
        return "service"

    def mk_call(self, loopvars):
        sg = self.rng.choice(self.cur["callable"])
        ins = []
        for n, t in sg["ins"]:
            a = self.arg_for(t[1], self.cur["vars"], loopvars)
            if a is None:
                # no variable of that type: declare one through a service output first
                return None
            ins.append(a)
        return (sg["name"], ins, [])

    def stmt(self, depth, loopvars):
        r = self.rng
        kind = self.pick_kind(depth)
        vars_ = self.cur["vars"]
        if kind in ("call", "parallel", "parloop"):
            c = self.mk_call(loopvars)
            if c is None:
                kind = "service"
        if kind == "service":
            self.budget -= 1
            self.nsvc += 1
            outs = []
            if not self.cur["have_d"] or r.random() < 0.15:
                name = "d" if not self.cur["have_d"] else "d%d" % self.nsvc
                outs = [(name, ("plain", "Data"))]
                ins = self.service_ins(vars_, loopvars)
                vars_[name] = "Data"
                self.cur["have_d"] = True
            else:
                ins = self.service_ins(vars_, loopvars)
            return ("service", "S%d" % self.nsvc, ins, outs)
        if kind == "call":
            self.budget -= 1
            return ("call", c[0], c[1], c[2])
        if kind == "parallel":
            calls = [c]
            for _ in range(r.randint(1, 2)):
                c2 = self.mk_call(loopvars)
                if c2 is not None:
                    calls.append(c2)
            self.budget -= len(calls)
            return ("parallel", calls)
        if kind == "parloop":
            self.budget -= 2
            lv = self.loop_var(depth)
            c = self.mk_call(loopvars + [lv]) or c
            return ("count", True, lv, self.limit(vars_), [("call", c[0], c[1], c[2])])
        if kind == "while":
            return ("while", self.guard(vars_), self.block(depth + 1, loopvars))
        if kind == "count":
            lv = self.loop_var(depth)
            lim = self.limit(vars_)
            stack = getattr(self, "loop_stack", [])
            if stack and r.random() < 0.2:
                lv, lim = stack[-1]            # the same header as the enclosing loop
            self.loop_stack = stack + [(lv, lim)]
            body = self.block(depth + 1, loopvars + [lv])
            self.loop_stack = stack
            return ("count", False, lv, lim, body)
        if kind == "cond":
            passed = self.block(depth + 1, loopvars)
            failed = self.block(depth + 1, loopvars) if r.random() < 0.5 else []
            return ("cond", self.cond_expr(vars_), passed, failed)
        raise ValueError(kind)


def gen_case(rng, profile):
    import shapes
    for _ in range(200):
        g = Gen(rng, profile)
        prog = g.gen_program()
        if profile.parloop_shapes == "all" or not shapes.parloop_findings(prog):
            break
    nvals = rng.randint(2, 10)
    vals = [gen_valuation(rng) for _ in range(nvals)] + [FINAL_VALUATION]
    imm = [rng.random() < profile.imm for _ in range(40)]
    case = {"prog": prog, "vals": vals, "imm": imm}
    if profile.react:
        case["react"] = [rng.randrange(0, 6) if rng.random() < profile.react else None for _ in range(80)]
        case["react_all"] = bool(profile.react_all)
    return case
