"""Write cases as Gallina terms and evaluate model functions on them with coqc
(vm_compute inside the kernel's VM); parse the printed results."""
import os
import re
import subprocess
import tempfile
import time
from concurrent.futures import ThreadPoolExecutor

from pfdl_ast import (Interner, coq_list, coq_param, coq_program, coq_value)

COQ_DIR = os.path.join(os.path.dirname(os.path.dirname(os.path.abspath(__file__))), "coq")


def coq_bool(b):
    return "true" if b else "false"


def coq_site(I, site):
    return "{| st_task := %d; st_path := %s |}" % (I(site[0]), coq_list([str(i) for i in site[1]]))


def coq_entry(I, e):
    if e[0] == "notif":
        _, lid, kind, name, site, id_, ctx, params, running = e
        n = ("{| n_kind := %s; n_name := %d; n_site := %s; n_id := %d; n_ctx := %s; n_params := %s |}"
             % (kind, I(name), coq_site(I, site), id_, "None" if ctx is None else "(Some %d)" % ctx,
                coq_list([coq_param(I, p) for p in params])))
        return "(ENotif %d %s %s)" % (lid, n, coq_bool(running))
    if e[0] == "obs":
        return "(EObs %d %s %d %d %s)" % (e[1], e[2], I(e[3]), e[4], coq_bool(e[5]))
    if e[0] == "query":
        return "(EQuery %d %d)" % (I(e[1]), e[2])
    if e[0] == "fire_in":
        return "(EFireIn %d)" % e[1]
    if e[0] == "fire_out":
        return "(EFireOut %d %s)" % (e[1], coq_bool(e[2]))
    raise ValueError(e)


def coq_callrec(I, r):
    return ("{| cr_ret := %s; cr_log := %s; cr_running := %s; cr_awaited := %s; cr_final := %s |}"
            % (coq_bool(r["ret"]), coq_list([coq_entry(I, e) for e in r["log"] if e[0] in ("notif", "query", "obs", "fire_in", "fire_out")]),
               coq_bool(r["running"]), coq_list([str(i) for i in r["awaited"]]), coq_bool(r["final"])))


def coq_apicall(op):
    if op[0] == "start":
        return "AStart"
    if op[0] == "finish":
        return "(AFinish %d)" % op[1]
    if op[0] == "register":
        return "(ARegister %s %d)" % (op[1], op[2])
    if op[0] == "attach":
        return "(AAttach %d)" % op[1]
    if op[0] == "detach":
        return "(ADetach %d)" % op[1]
    return "AJunk"


MUTATE_MODES = {False: 0, None: 0, "append": 1, True: 1, "clear": 2, "replace": 3}


def coq_runcase(I, case, script):
    vals = [v["*"] for v in case["vals"]]
    opts = case.get("options", {})
    react = case.get("react") or []
    return ("{| rc_prog := %s; rc_vals := %s; rc_imm := %s; rc_script := %s; rc_react := %s; "
            "rc_react_all := %s; rc_mutate := %d; rc_test_ids := %s |}"
            % (coq_program(I, case["prog"]), coq_list([coq_value(I, v) for v in vals]),
               coq_list([coq_bool(b) for b in case["imm"]]),
               coq_list([coq_apicall(o) for o in script]),
               coq_list(["None" if r is None else "(Some %d)" % r for r in react]),
               coq_bool(bool(case.get("react_all"))),
               MUTATE_MODES[opts.get("mutate", False)], coq_bool(opts.get("test_ids", True))))


HEADER_MON = "From PFDL Require Import Monitors MonitorsSeq MonitorsFork MonitorsDecide MonitorsParams NetRun.\nSet Printing Depth 100000.\nSet Printing Width 200.\n"
HEADER = "From PFDL Require Import RunCase.\nSet Printing Depth 100000.\nSet Printing Width 200.\n"


def run_coq(source, workdir, name, timeout=600, header=None):
    """compile one generated .v file; returns stdout"""
    path = os.path.join(workdir, name + ".v")
    with open(path, "w") as f:
        f.write((header or HEADER) + source)
    t0 = time.time()
    p = subprocess.run(["coqc", "-Q", COQ_DIR, "PFDL", "-w", "-all", path],
                       capture_output=True, text=True, timeout=timeout, cwd=workdir)
    if p.returncode != 0:
        raise RuntimeError("coqc failed on %s:\n%s\n%s" % (path, p.stdout[-2000:], p.stderr[-4000:]))
    return p.stdout, time.time() - t0


def eval_many(defs_and_exprs, workdir, shard=150, jobs=8, header=None, tag="cases"):
    """defs_and_exprs: list of (definitions_text, expression_text).  Each expression is
    evaluated with vm_compute; returns list of raw printed results (strings), in order."""
    shards = [defs_and_exprs[i:i + shard] for i in range(0, len(defs_and_exprs), shard)]

    def one(ix):
        items = shards[ix]
        src = []
        for j, (d, e) in enumerate(items):
            src.append(d)
            src.append('Goal True. idtac "@@%d". Abort.\nEval vm_compute in (%s).\n' % (j, e))
        out, _ = run_coq("\n".join(src), workdir, "%s_%d" % (tag, ix), header=header)
        parts = re.split(r"@@(\d+)\n", out)
        res = {}
        for k in range(1, len(parts), 2):
            res[int(parts[k])] = parts[k + 1]
        return [res[j] for j in range(len(items))]

    with ThreadPoolExecutor(max_workers=jobs) as ex:
        results = list(ex.map(one, range(len(shards))))
    return [r for rs in results for r in rs]


def parse_result(raw):
    """'     = (1, Some 3)\n     : nat * option nat' -> '(1, Some 3)'"""
    m = re.search(r"=\s*(.*?)\n\s*:\s", raw, re.S)
    return re.sub(r"\s+", " ", m.group(1)).strip() if m else raw.strip()
