(* Spike: token game of block-structured nets with structured names; any-order semantics;
   invariant "marking is the flattening of a structured state". Svc / Call / Par only. *)
From Coq Require Import List ZArith Bool Lia Permutation Arith.
Import ListNotations.

Inductive stmt := Svc | Call (b : block) | Par (bs : blocks)
with block := BOne (s : stmt) | BCons (s : stmt) (b : block)
with blocks := BsOne (b : block) | BsCons (b : block) (bs : blocks).

Scheme stmt_mut := Induction for stmt Sort Prop
with block_mut := Induction for block Sort Prop
with blocks_mut := Induction for blocks Sort Prop.
Combined Scheme ast_mutind from stmt_mut, block_mut, blocks_mut.

Definition path := list nat.
Inductive prole := Pstarted | Pfinished | Pdone | Pparfin.
Inductive trole := Tdone | Tsync | Tconn.
Definition pname := (path * prole)%type.
Definition tname := (path * trole)%type.

(* entry and exit places *)
Fixpoint entries (pi : path) (s : stmt) : list pname :=
  match s with
  | Svc => [(pi, Pstarted)]
  | Call b => entries_b pi 0 b
  | Par bs => entries_bs pi 0 bs
  end
with entries_b (pi : path) (i : nat) (b : block) : list pname :=
  match b with
  | BOne s => entries (i :: pi) s
  | BCons s _ => entries (i :: pi) s
  end
with entries_bs (pi : path) (j : nat) (bs : blocks) : list pname :=
  match bs with
  | BsOne b => entries_b (j :: pi) 0 b
  | BsCons b bs' => entries_b (j :: pi) 0 b ++ entries_bs pi (S j) bs'
  end.

Fixpoint exits (pi : path) (s : stmt) : list pname :=
  match s with
  | Svc => [(pi, Pdone)]
  | Call b => exits_b pi 0 b
  | Par _ => [(pi, Pparfin)]
  end
with exits_b (pi : path) (i : nat) (b : block) : list pname :=
  match b with
  | BOne s => exits (i :: pi) s
  | BCons _ b' => exits_b pi (S i) b'
  end.

(* transitions of a component, with pre and post; first/second are owned by the context *)
Record tr := { tn : tname; pre : list pname; post : list pname }.

Fixpoint exits_bs (pi : path) (j : nat) (bs : blocks) : list pname :=
  match bs with
  | BsOne b => exits_b (j :: pi) 0 b
  | BsCons b bs' => exits_b (j :: pi) 0 b ++ exits_bs pi (S j) bs'
  end.

(* internal transitions of a component (those it creates itself) *)
Fixpoint trans (pi : path) (s : stmt) : list tr :=
  match s with
  | Svc => [{| tn := (pi, Tdone); pre := [(pi, Pstarted); (pi, Pfinished)]; post := [(pi, Pdone)] |}]
  | Call b => trans_b pi 0 b
  | Par bs => {| tn := (pi, Tsync); pre := exits_bs pi 0 bs; post := [(pi, Pparfin)] |} :: trans_bs pi 0 bs
  end
with trans_b (pi : path) (i : nat) (b : block) : list tr :=
  match b with
  | BOne s => trans (i :: pi) s
  | BCons s b' =>
      {| tn := (i :: pi, Tconn); pre := exits (i :: pi) s; post := entries_b pi (S i) b' |}
      :: trans (i :: pi) s ++ trans_b pi (S i) b'
  end
with trans_bs (pi : path) (j : nat) (bs : blocks) : list tr :=
  match bs with
  | BsOne b => trans_b (j :: pi) 0 b
  | BsCons b bs' => trans_b (j :: pi) 0 b ++ trans_bs pi (S j) bs'
  end.


(* ---------- multisets as lists, compared through count ---------- *)
Lemma prole_eq_dec : forall a b : prole, {a = b} + {a <> b}. Proof. decide equality. Defined.
Lemma pname_eq_dec : forall a b : pname, {a = b} + {a <> b}.
Proof. decide equality. apply prole_eq_dec. apply (list_eq_dec Nat.eq_dec). Defined.
Definition cnt (p : pname) (l : list pname) : nat := count_occ pname_eq_dec l p.
Lemma cnt_app p l1 l2 : cnt p (l1 ++ l2) = cnt p l1 + cnt p l2.
Proof. apply count_occ_app. Qed.
Definition enabled (t : tr) (m : list pname) : Prop := forall p, cnt p (pre t) <= cnt p m.
Definition fires (t : tr) (m m' : list pname) : Prop :=
  forall p, cnt p m' + cnt p (pre t) = cnt p m + cnt p (post t).

(* ---------- canonical structured states ---------- *)
Inductive sst :=
| VAwait | VFin | VDone            (* service: started / started+finished / done *)
| VCall (bt : bst)
| VRun (sts : bsst) | VParFin
with bst := BAt (i : nat) (st : sst)
with bsst := BsO (bt : bst) | BsC (bt : bst) (sts : bsst).

Fixpoint flat (pi : path) (s : stmt) (st : sst) {struct s} : list pname :=
  match s, st with
  | Svc, VAwait => [(pi, Pstarted)]
  | Svc, VFin => [(pi, Pstarted); (pi, Pfinished)]
  | Svc, VDone => [(pi, Pdone)]
  | Call b, VCall bt => flat_b pi 0 b bt
  | Par bs, VRun sts => flat_bs pi 0 bs sts
  | Par _, VParFin => [(pi, Pparfin)]
  | _, _ => []
  end
with flat_b (pi : path) (k : nat) (b : block) (bt : bst) {struct b} : list pname :=
  match bt with
  | BAt i st =>
      match b with
      | BOne s => if Nat.eqb i k then flat (k :: pi) s st else []
      | BCons s b' => if Nat.eqb i k then flat (k :: pi) s st else flat_b pi (S k) b' bt
      end
  end
with flat_bs (pi : path) (j : nat) (bs : blocks) (sts : bsst) {struct bs} : list pname :=
  match bs, sts with
  | BsOne b, BsO bt => flat_b (j :: pi) 0 b bt
  | BsCons b bs', BsC bt sts' => flat_b (j :: pi) 0 b bt ++ flat_bs pi (S j) bs' sts'
  | _, _ => []
  end.

(* well-formed states, entered / exited states *)
Fixpoint wf (s : stmt) (st : sst) {struct s} : Prop :=
  match s, st with
  | Svc, (VAwait | VFin | VDone) => True
  | Call b, VCall bt => wf_b 0 b bt
  | Par bs, VRun sts => wf_bs bs sts
  | Par _, VParFin => True
  | _, _ => False
  end
with wf_b (k : nat) (b : block) (bt : bst) {struct b} : Prop :=
  match bt with
  | BAt i st =>
      match b with
      | BOne s => i = k /\ wf s st
      | BCons s b' => (i = k /\ wf s st) \/ (i <> k /\ wf_b (S k) b' bt)
      end
  end
with wf_bs (bs : blocks) (sts : bsst) {struct bs} : Prop :=
  match bs, sts with
  | BsOne b, BsO bt => wf_b 0 b bt
  | BsCons b bs', BsC bt sts' => wf_b 0 b bt /\ wf_bs bs' sts'
  | _, _ => False
  end.

Fixpoint entered (s : stmt) : sst :=
  match s with
  | Svc => VAwait
  | Call b => VCall (entered_b 0 b)
  | Par bs => VRun (entered_bs bs)
  end
with entered_b (k : nat) (b : block) : bst :=
  match b with BOne s => BAt k (entered s) | BCons s _ => BAt k (entered s) end
with entered_bs (bs : blocks) : bsst :=
  match bs with BsOne b => BsO (entered_b 0 b) | BsCons b bs' => BsC (entered_b 0 b) (entered_bs bs') end.

Fixpoint exited (s : stmt) : sst :=
  match s with
  | Svc => VDone
  | Call b => VCall (exited_b 0 b)
  | Par _ => VParFin
  end
with exited_b (k : nat) (b : block) : bst :=
  match b with BOne s => BAt k (exited s) | BCons _ b' => exited_b (S k) b' end.
Fixpoint exited_bs (bs : blocks) : bsst :=
  match bs with BsOne b => BsO (exited_b 0 b) | BsCons b bs' => BsC (exited_b 0 b) (exited_bs bs') end.

(* flat of entered / exited states are the entry / exit places *)
Lemma flat_entered :
  (forall s pi, flat pi s (entered s) = entries pi s) /\
  (forall b pi k, flat_b pi k b (entered_b k b) = entries_b pi k b) /\
  (forall bs pi j, flat_bs pi j bs (entered_bs bs) = entries_bs pi j bs).
Proof.
  apply ast_mutind; intros; cbn [flat flat_b flat_bs entered entered_b entered_bs entries entries_b entries_bs]; auto.
  - rewrite Nat.eqb_refl. auto.
  - rewrite Nat.eqb_refl. auto.
  - rewrite H, H0. reflexivity.
Qed.

Definition idx (bt : bst) : nat := match bt with BAt i _ => i end.
Lemma exited_b_idx : forall b k, k <= idx (exited_b k b).
Proof. induction b; intros; cbn; auto. specialize (IHb (S k)). lia. Qed.

Lemma flat_exited :
  (forall s pi, flat pi s (exited s) = exits pi s) /\
  (forall b pi k, flat_b pi k b (exited_b k b) = exits_b pi k b) /\
  (forall bs : blocks, True).
Proof.
  apply ast_mutind; intros; cbn [flat flat_b exited exited_b exits exits_b]; auto.
  - rewrite Nat.eqb_refl. auto.
  - pose proof (exited_b_idx b (S k)) as Hi. destruct (exited_b (S k) b) as [i st] eqn:E. cbn in Hi.
    destruct (Nat.eqb_spec i k); [lia|]. rewrite <- E. apply H0.
Qed.

(* support: every marked place of a component lives under its path *)
Definition under (pi : path) (p : pname) : Prop := exists q, fst p = q ++ pi.
Lemma under_cons pi k p : under (k :: pi) p -> under pi p.
Proof. intros [q H]. exists (q ++ [k]). rewrite H, <- app_assoc. reflexivity. Qed.

Lemma flat_under :
  (forall s pi st p, In p (flat pi s st) -> under pi p) /\
  (forall b pi k bt p, In p (flat_b pi k b bt) -> exists i, k <= i /\ under (i :: pi) p) /\
  (forall bs pi j sts p, In p (flat_bs pi j bs sts) -> exists i, j <= i /\ under (i :: pi) p).
Proof.
  apply ast_mutind.
  - intros pi st p H. destruct st; cbn in H; try contradiction;
      repeat (destruct H as [H|H]; [subst p; exists []; reflexivity|]); contradiction.
  - intros b IH pi st p H. destruct st; cbn in H; try contradiction.
    destruct (IH _ _ _ _ H) as (i & _ & Hu). eapply under_cons; eauto.
  - intros bs IH pi st p H. destruct st; cbn in H; try contradiction.
    + destruct (IH _ _ _ _ H) as (i & _ & Hu). eapply under_cons; eauto.
    + destruct H as [H|[]]. subst. exists []; reflexivity.
  - intros s IH pi k [i st] p H. cbn in H. destruct (Nat.eqb_spec i k); [|contradiction].
    exists k. split; [lia|]. eapply IH; eauto.
  - intros s IHs b IHb pi k [i st] p H. cbn in H. destruct (Nat.eqb_spec i k).
    + exists k. split; [lia|]. eapply IHs; eauto.
    + destruct (IHb _ _ _ _ H) as (i' & Hle & Hu). exists i'. split; [lia|auto].
  - intros b IHb pi j sts p H. destruct sts as [bt|bt sts]; cbn in H; [|contradiction].
    destruct (IHb _ _ _ _ H) as (i & _ & Hu). exists j. split; [lia|]. eapply under_cons; eauto.
  - intros b IHb bs IHbs pi j sts p H. destruct sts as [bt|bt sts]; cbn in H; [contradiction|].
    apply in_app_or in H. destruct H as [H|H].
    + destruct (IHb _ _ _ _ H) as (i & _ & Hu). exists j. split; [lia|]. eapply under_cons; eauto.
    + destruct (IHbs _ _ _ _ H) as (i & Hle & Hu). exists i. split; [lia|auto].
Qed.

(* ---------- path arithmetic ---------- *)
Lemma suffix_same_len {A} : forall (l1 l2 q1 q2 : list A),
  q1 ++ l1 = q2 ++ l2 -> length l1 = length l2 -> l1 = l2.
Proof.
  intros l1 l2 q1 q2 H Hl.
  assert (length q1 = length q2) as Hq.
  { apply (f_equal (@length A)) in H. rewrite !app_length in H. lia. }
  revert q2 H Hq. induction q1 as [|a q1 IH]; intros [|b q2] H Hq; cbn in *; try lia; auto.
  inversion H. eapply IH; eauto.
Qed.
Lemma under_inj pi i k p : under (i :: pi) p -> under (k :: pi) p -> i = k.
Proof.
  intros [q1 H1] [q2 H2]. rewrite H1 in H2.
  apply suffix_same_len in H2; [|reflexivity]. congruence.
Qed.
Lemma not_under_self pi k r : ~ under (k :: pi) (pi, r).
Proof. intros [q H]. cbn in H. apply (f_equal (@length nat)) in H. rewrite app_length in H. cbn in H. lia. Qed.

Lemma cnt_nil p : cnt p [] = 0. Proof. reflexivity. Qed.
Lemma cnt_cons_eq p l : cnt p (p :: l) = S (cnt p l).
Proof. unfold cnt. apply count_occ_cons_eq. reflexivity. Qed.
Lemma cnt_cons_neq p q l : q <> p -> cnt p (q :: l) = cnt p l.
Proof. unfold cnt. intros. apply count_occ_cons_neq. auto. Qed.
Global Opaque cnt.
Ltac cnt_simpl :=
  repeat (rewrite ?cnt_nil, ?cnt_cons_eq in *;
          try (rewrite cnt_cons_neq in * by congruence)).

Lemma cnt_pos_in p l : 0 < cnt p l -> In p l.
Proof. Local Transparent cnt. unfold cnt. intros H. apply (count_occ_In pname_eq_dec). lia. Qed.
Lemma cnt_in_pos p l : In p l -> 0 < cnt p l.
Proof. Local Transparent cnt. unfold cnt. intros H. apply (count_occ_In pname_eq_dec) in H. lia. Qed.
Lemma cnt_notin p l : ~ In p l -> cnt p l = 0.
Proof. Local Transparent cnt. unfold cnt. intros H. apply (count_occ_not_In pname_eq_dec). auto. Qed.
Global Opaque cnt.

(* exits are non-empty and live under the component *)
Lemma exits_ne :
  (forall s pi, exits pi s <> []) /\ (forall b pi k, exits_b pi k b <> []) /\ (forall bs : blocks, True).
Proof. apply ast_mutind; intros; cbn; auto; discriminate. Qed.

Lemma exits_under :
  (forall s pi p, In p (exits pi s) -> under pi p) /\
  (forall b pi k p, In p (exits_b pi k b) -> exists i, k <= i /\ under (i :: pi) p) /\
  (forall bs : blocks, True).
Proof.
  apply ast_mutind; intros; cbn in *; auto.
  - destruct H as [H|[]]; subst. exists []; reflexivity.
  - destruct (H _ _ _ H0) as (i & _ & Hu). eapply under_cons; eauto.
  - destruct H0 as [H0|[]]; subst. exists []; reflexivity.
  - exists k. split; [lia|]. eauto.
  - destruct (H0 _ _ _ H1) as (i & Hle & Hu). exists i. split; [lia|auto].
Qed.

Definition sub (a m : list pname) : Prop := forall p, cnt p a <= cnt p m.

(* a component whose marking covers its exit places is in its exited state *)
Lemma covered_exits :
  (forall s pi st, wf s st -> sub (exits pi s) (flat pi s st) -> st = exited s) /\
  (forall b pi k bt, wf_b k b bt -> sub (exits_b pi k b) (flat_b pi k b bt) -> bt = exited_b k b) /\
  (forall bs : blocks, True).
Proof.
  apply ast_mutind; auto.
  - intros pi st Hwf Hs. destruct st; cbn in Hwf; try contradiction; auto.
    + specialize (Hs (pi, Pdone)). cbn [exits flat] in Hs. cnt_simpl. lia.
    + specialize (Hs (pi, Pdone)). cbn [exits flat] in Hs. cnt_simpl. lia.
  - intros b IH pi st Hwf Hs. destruct st; cbn in Hwf; try contradiction.
    cbn in Hs. cbn. f_equal. eapply IH; eauto.
  - intros bs _ pi st Hwf Hs. destruct st; cbn in Hwf; try contradiction; auto.
    exfalso. specialize (Hs (pi, Pparfin)). cbn [exits flat] in Hs.
    assert (0 < cnt (pi, Pparfin) (flat_bs pi 0 bs sts)) as Hpos.
    { cnt_simpl. lia. }
    apply cnt_pos_in in Hpos. apply (proj2 (proj2 flat_under)) in Hpos.
    destruct Hpos as (i & _ & Hu). eapply not_under_self; eauto.
  - intros s IH pi k [i st] Hwf Hs. cbn in Hwf. destruct Hwf as [-> Hwf]. cbn in *.
    rewrite Nat.eqb_refl in Hs. f_equal. eapply IH; eauto.
  - intros s IHs b IHb pi k [i st] Hwf Hs. cbn in Hwf. cbn [exits_b flat_b exited_b] in *.
    destruct Hwf as [[-> Hwf]|[Hne Hwf]].
    + exfalso. rewrite Nat.eqb_refl in Hs.
      destruct (exits_b pi (S k) b) as [|p l] eqn:E; [eapply (proj1 (proj2 exits_ne)); eauto|].
      assert (In p (exits_b pi (S k) b)) as Hin by (rewrite E; left; auto).
      specialize (Hs p).
      assert (0 < cnt p (flat (k :: pi) s st)) as Hpos.
      { assert (0 < cnt p (p :: l)) by (apply cnt_in_pos; left; auto). lia. }
      apply cnt_pos_in in Hpos. apply (proj1 flat_under) in Hpos.
      apply (proj1 (proj2 exits_under)) in Hin. destruct Hin as (i & Hle & Hu).
      pose proof (under_inj _ _ _ _ Hu Hpos). lia.
    + destruct (Nat.eqb_spec i k); [contradiction|]. eapply IHb; eauto.
Qed.

(* ---------- structured steps, one per net transition ---------- *)
Inductive sstep : path -> stmt -> sst -> tname -> sst -> Prop :=
| st_svc pi : sstep pi Svc VFin (pi, Tdone) VDone
| st_call pi b bt t bt' : bstep pi 0 b bt t bt' -> sstep pi (Call b) (VCall bt) t (VCall bt')
| st_sync pi bs : sstep pi (Par bs) (VRun (exited_bs bs)) (pi, Tsync) VParFin
| st_par pi bs sts t sts' : bsstep pi 0 bs sts t sts' -> sstep pi (Par bs) (VRun sts) t (VRun sts')
with bstep : path -> nat -> block -> bst -> tname -> bst -> Prop :=
| bs_one pi k s st t st' : sstep (k :: pi) s st t st' -> bstep pi k (BOne s) (BAt k st) t (BAt k st')
| bs_here pi k s b st t st' : sstep (k :: pi) s st t st' -> bstep pi k (BCons s b) (BAt k st) t (BAt k st')
| bs_conn pi k s b : bstep pi k (BCons s b) (BAt k (exited s)) (k :: pi, Tconn) (entered_b (S k) b)
| bs_later pi k s b i st t bt' : i <> k -> bstep pi (S k) b (BAt i st) t bt' -> bstep pi k (BCons s b) (BAt i st) t bt'
with bsstep : path -> nat -> blocks -> bsst -> tname -> bsst -> Prop :=
| bss_one pi j b bt t bt' : bstep (j :: pi) 0 b bt t bt' -> bsstep pi j (BsOne b) (BsO bt) t (BsO bt')
| bss_here pi j b bs bt sts t bt' : bstep (j :: pi) 0 b bt t bt' -> bsstep pi j (BsCons b bs) (BsC bt sts) t (BsC bt' sts)
| bss_later pi j b bs bt sts t sts' : bsstep pi (S j) bs sts t sts' -> bsstep pi j (BsCons b bs) (BsC bt sts) t (BsC bt sts').

Lemma entered_b_idx b k : idx (entered_b k b) = k. Proof. destruct b; reflexivity. Qed.

Lemma wf_entered :
  (forall s, wf s (entered s)) /\ (forall b k, wf_b k b (entered_b k b)) /\ (forall bs, wf_bs bs (entered_bs bs)).
Proof. apply ast_mutind; intros; cbn; auto. Qed.

Lemma wf_exited :
  (forall s, wf s (exited s)) /\ (forall b k, wf_b k b (exited_b k b)) /\ (forall bs : blocks, True).
Proof.
  apply ast_mutind; intros; cbn; auto.
  pose proof (exited_b_idx b (S k)). destruct (exited_b (S k) b) as [i st] eqn:E. cbn in *.
  right. split; [lia|]. rewrite <- E. auto.
Qed.

(* pre-places of a component's own transitions: non-empty, under the component *)
Lemma exits_bs_ne bs pi j : exits_bs pi j bs <> [].
Proof.
  revert j; induction bs; intros; cbn.
  - apply (proj1 (proj2 exits_ne)).
  - intro H. apply app_eq_nil in H. destruct H as [H _]. eapply (proj1 (proj2 exits_ne)); eauto.
Qed.
Lemma exits_bs_under bs : forall pi j p, In p (exits_bs pi j bs) -> exists i, j <= i /\ under (i :: pi) p.
Proof.
  induction bs; intros pi j p H; cbn in H.
  - apply (proj1 (proj2 exits_under)) in H. destruct H as (i & _ & Hu). exists j. split; [lia|]. eapply under_cons; eauto.
  - apply in_app_or in H. destruct H as [H|H].
    + apply (proj1 (proj2 exits_under)) in H. destruct H as (i & _ & Hu). exists j. split; [lia|]. eapply under_cons; eauto.
    + destruct (IHbs _ _ _ H) as (i & Hle & Hu). exists i. split; [lia|auto].
Qed.

Lemma trans_pre :
  (forall s pi t, In t (trans pi s) -> pre t <> [] /\ forall p, In p (pre t) -> under pi p) /\
  (forall b pi k t, In t (trans_b pi k b) -> pre t <> [] /\ forall p, In p (pre t) -> exists i, k <= i /\ under (i :: pi) p) /\
  (forall bs pi j t, In t (trans_bs pi j bs) -> pre t <> [] /\ forall p, In p (pre t) -> exists i, j <= i /\ under (i :: pi) p).
Proof.
  apply ast_mutind.
  - intros pi t [H|[]]; subst; cbn. split; [discriminate|]. intros p [H|[H|[]]]; subst; exists []; reflexivity.
  - intros b IH pi t H. cbn in H. destruct (IH _ _ _ H) as [Hne Hu]. split; auto.
    intros p Hp. destruct (Hu _ Hp) as (i & _ & Hu'). eapply under_cons; eauto.
  - intros bs IH pi t H. cbn in H. destruct H as [H|H].
    + subst; cbn. split; [apply exits_bs_ne|]. intros p Hp.
      apply exits_bs_under in Hp. destruct Hp as (i & _ & Hu). eapply under_cons; eauto.
    + destruct (IH _ _ _ H) as [Hne Hu]. split; auto.
      intros p Hp. destruct (Hu _ Hp) as (i & _ & Hu'). eapply under_cons; eauto.
  - intros s IH pi k t H. cbn in H. destruct (IH _ _ H) as [Hne Hu]. split; auto.
    intros p Hp. exists k. split; [lia|auto].
  - intros s IHs b IHb pi k t H. cbn in H. destruct H as [H|H].
    + subst; cbn. split; [apply (proj1 exits_ne)|]. intros p Hp. exists k. split; [lia|].
      eapply (proj1 exits_under); eauto.
    + apply in_app_or in H. destruct H as [H|H].
      * destruct (IHs _ _ H) as [Hne Hu]. split; auto. intros p Hp. exists k. split; [lia|auto].
      * destruct (IHb _ _ _ H) as [Hne Hu]. split; auto. intros p Hp.
        destruct (Hu _ Hp) as (i & Hle & Hu'). exists i. split; [lia|auto].
  - intros b IH pi j t H. cbn in H. destruct (IH _ _ _ H) as [Hne Hu]. split; auto.
    intros p Hp. destruct (Hu _ Hp) as (i & _ & Hu'). exists j. split; [lia|]. eapply under_cons; eauto.
  - intros b IHb bs IHbs pi j t H. cbn in H. apply in_app_or in H. destruct H as [H|H].
    + destruct (IHb _ _ _ H) as [Hne Hu]. split; auto.
      intros p Hp. destruct (Hu _ Hp) as (i & _ & Hu'). exists j. split; [lia|]. eapply under_cons; eauto.
    + destruct (IHbs _ _ _ H) as [Hne Hu]. split; auto.
      intros p Hp. destruct (Hu _ Hp) as (i & Hle & Hu'). exists i. split; [lia|auto].
Qed.

(* ---------- generic multiset facts ---------- *)
Lemma enabled_clash t m (A : pname -> Prop) :
  pre t <> [] -> (forall p, In p (pre t) -> A p) -> (forall p, In p m -> ~ A p) -> enabled t m -> False.
Proof.
  intros Hne HA HB He. destruct (pre t) as [|p l] eqn:E; [congruence|].
  specialize (He p). rewrite E in He. rewrite cnt_cons_eq in He.
  assert (In p m) by (apply cnt_pos_in; lia). apply (HB p); auto. apply HA. left; auto.
Qed.
Lemma sub_restrict_l a m1 m2 (A : pname -> Prop) :
  (forall p, In p a -> A p) -> (forall p, In p m2 -> ~ A p) -> sub a (m1 ++ m2) -> sub a m1.
Proof.
  intros HA HB Hs p. specialize (Hs p). rewrite cnt_app in Hs.
  destruct (in_dec pname_eq_dec p a) as [Hin|Hnin].
  - rewrite (cnt_notin p m2) in Hs; [lia|]. intro. eapply HB; eauto.
  - rewrite (cnt_notin p a); auto. lia.
Qed.
Lemma sub_restrict_r a m1 m2 (A : pname -> Prop) :
  (forall p, In p a -> A p) -> (forall p, In p m1 -> ~ A p) -> sub a (m1 ++ m2) -> sub a m2.
Proof.
  intros HA HB Hs p. specialize (Hs p). rewrite cnt_app in Hs.
  destruct (in_dec pname_eq_dec p a) as [Hin|Hnin].
  - rewrite (cnt_notin p m1) in Hs; [lia|]. intro. eapply HB; eauto.
  - rewrite (cnt_notin p a); auto. lia.
Qed.
Lemma sub_app_split a1 a2 m : sub (a1 ++ a2) m -> sub a1 m /\ sub a2 m.
Proof. intros H; split; intro p; specialize (H p); rewrite cnt_app in H; lia. Qed.
Lemma fires_frame_l t m m' r : fires t m m' -> fires t (m ++ r) (m' ++ r).
Proof. intros H p. specialize (H p). rewrite !cnt_app. lia. Qed.
Lemma fires_frame_r t m m' r : fires t m m' -> fires t (r ++ m) (r ++ m').
Proof. intros H p. specialize (H p). rewrite !cnt_app. lia. Qed.
Lemma fires_swap t : fires t (pre t) (post t).
Proof. intro p. lia. Qed.

Lemma under_branch_disj pi i j p : i <> j -> under (i :: pi) p -> forall i', ~ (i' = j /\ under (i' :: pi) p).
Proof. intros Hne Hu i' [-> Hu']. apply Hne. eapply under_inj; eauto. Qed.

(* all branches exited when the sync's pre-places are covered *)
Lemma covered_exits_bs bs : forall pi j sts,
  wf_bs bs sts -> sub (exits_bs pi j bs) (flat_bs pi j bs sts) -> sts = exited_bs bs.
Proof.
  induction bs as [b|b bs IH]; intros pi j sts Hwf Hs; destruct sts as [bt|bt sts]; cbn in Hwf; try contradiction.
  - cbn in *. f_equal. eapply (proj1 (proj2 covered_exits)); eauto.
  - destruct Hwf as [Hwb Hwbs]. cbn [exits_bs flat_bs exited_bs] in *.
    apply sub_app_split in Hs. destruct Hs as [Hs1 Hs2]. f_equal.
    + eapply (proj1 (proj2 covered_exits)); eauto.
      eapply (sub_restrict_l _ _ _ (under (j :: pi))); eauto.
      * intros p Hp. apply (proj1 (proj2 exits_under)) in Hp. destruct Hp as (i & _ & Hu). eapply under_cons; eauto.
      * intros p Hp Hu. apply (proj2 (proj2 flat_under)) in Hp. destruct Hp as (i & Hle & Hu').
        pose proof (under_inj _ _ _ _ Hu Hu'). lia.
    + eapply IH; eauto.
      eapply (sub_restrict_r _ _ _ (fun p => exists i, S j <= i /\ under (i :: pi) p)); eauto.
      * intros p Hp. apply exits_bs_under in Hp. auto.
      * intros p Hp (i & Hle & Hu). apply (proj1 (proj2 flat_under)) in Hp. destruct Hp as (i' & _ & Hu').
        apply under_cons in Hu'. pose proof (under_inj _ _ _ _ Hu Hu'). lia.
Qed.

(* ---------- every enabled net transition is a structured step ---------- *)
Lemma flat_b_later pi k s b i st : i <> k -> flat_b pi k (BCons s b) (BAt i st) = flat_b pi (S k) b (BAt i st).
Proof. intros. cbn. destruct (Nat.eqb_spec i k); [contradiction|reflexivity]. Qed.
Lemma flat_b_here pi k s b st : flat_b pi k (BCons s b) (BAt k st) = flat (k :: pi) s st.
Proof. cbn. rewrite Nat.eqb_refl. reflexivity. Qed.
Lemma flat_b_one pi k s st : flat_b pi k (BOne s) (BAt k st) = flat (k :: pi) s st.
Proof. cbn. rewrite Nat.eqb_refl. reflexivity. Qed.

Lemma flat_exited_bs bs : forall pi j, flat_bs pi j bs (exited_bs bs) = exits_bs pi j bs.
Proof.
  induction bs; intros; cbn.
  - apply (proj1 (proj2 flat_exited)).
  - rewrite IHbs. f_equal. apply (proj1 (proj2 flat_exited)).
Qed.
Lemma wf_b_idx b : forall k bt, wf_b k b bt -> k <= idx bt.
Proof.
  induction b; intros k [i st] H; cbn in *.
  - destruct H; lia.
  - destruct H as [[-> _]|[_ H]]; [lia|]. apply IHb in H. cbn in H. lia.
Qed.

Theorem enabled_is_step :
  (forall s pi st t, In t (trans pi s) -> wf s st -> enabled t (flat pi s st) ->
     exists st', sstep pi s st (tn t) st' /\ wf s st' /\ fires t (flat pi s st) (flat pi s st')) /\
  (forall b pi k bt t, In t (trans_b pi k b) -> wf_b k b bt -> enabled t (flat_b pi k b bt) ->
     exists bt', bstep pi k b bt (tn t) bt' /\ wf_b k b bt' /\ fires t (flat_b pi k b bt) (flat_b pi k b bt')) /\
  (forall bs pi j sts t, In t (trans_bs pi j bs) -> wf_bs bs sts -> enabled t (flat_bs pi j bs sts) ->
     exists sts', bsstep pi j bs sts (tn t) sts' /\ wf_bs bs sts' /\ fires t (flat_bs pi j bs sts) (flat_bs pi j bs sts')).
Proof.
  apply ast_mutind.
  - (* Svc *)
    intros pi st t [<-|[]] Hwf He. destruct st; cbn in Hwf; try contradiction.
    + exfalso. specialize (He (pi, Pfinished)). cbn [pre flat] in He. cnt_simpl. lia.
    + exists VDone. split; [constructor|]. split; [exact I|]. intro p. cbn [pre post flat]. lia.
    + exfalso. specialize (He (pi, Pfinished)). cbn [pre flat] in He. cnt_simpl. lia.
  - (* Call *)
    intros b IH pi st t Hin Hwf He. destruct st; cbn in Hwf; try contradiction.
    cbn in Hin. cbn [flat] in *. destruct (IH _ _ _ _ Hin Hwf He) as (bt' & Hs & Hw & Hf).
    exists (VCall bt'). split; [constructor; auto|]. split; auto.
  - (* Par *)
    intros bs IH pi st t Hin Hwf He. destruct st; cbn in Hwf; try contradiction.
    + cbn in Hin. destruct Hin as [<-|Hin].
      * (* sync *) cbn [flat pre] in He. apply covered_exits_bs in He; auto. subst sts.
        exists VParFin. split; [constructor|]. split; [exact I|].
        intro p. cbn [flat pre post]. rewrite flat_exited_bs. lia.
      * cbn [flat] in *. destruct (IH _ _ _ _ Hin Hwf He) as (sts' & Hs & Hw & Hf).
        exists (VRun sts'). split; [constructor; auto|]. split; auto.
    + (* VParFin: nothing inside is enabled *)
      exfalso. cbn in Hin. destruct Hin as [<-|Hin].
      * cbn [flat pre] in He. eapply (enabled_clash _ _ (fun p => exists i, under (i :: pi) p)); eauto.
        -- cbn. apply exits_bs_ne.
        -- cbn. intros p Hp. apply exits_bs_under in Hp. destruct Hp as (i & _ & Hu). eauto.
        -- intros p [<-|[]] (i & Hu). eapply not_under_self; eauto.
      * destruct (proj2 (proj2 trans_pre) _ _ _ _ Hin) as [Hne Hu].
        eapply (enabled_clash _ _ (fun p => exists i, under (i :: pi) p)); eauto.
        -- intros p Hp. destruct (Hu _ Hp) as (i & _ & Hu'). eauto.
        -- cbn [flat]. intros p [<-|[]] (i & Hu'). eapply not_under_self; eauto.
  - (* BOne *)
    intros s IH pi k [i st] t Hin Hwf He. cbn in Hwf. destruct Hwf as [-> Hwf]. cbn in Hin.
    rewrite flat_b_one in *. destruct (IH _ _ _ Hin Hwf He) as (st' & Hs & Hw & Hf).
    exists (BAt k st'). split; [constructor; auto|]. split; [cbn; auto|]. rewrite flat_b_one. auto.
  - (* BCons *)
    intros s IHs b IHb pi k [i st] t Hin Hwf He. cbn in Hwf. cbn in Hin.
    destruct Hwf as [[-> Hwf]|[Hne Hwf]].
    + (* current statement is k *)
      rewrite flat_b_here in *. destruct Hin as [<-|Hin].
      * (* connection *) cbn [pre] in He. apply (proj1 covered_exits) in He; auto. subst st.
        exists (entered_b (S k) b). split; [constructor|]. split.
        -- pose proof (entered_b_idx b (S k)) as Hi. destruct (entered_b (S k) b) as [i' st'] eqn:E. cbn in Hi. subst i'.
           cbn. right. split; [lia|]. rewrite <- E. apply wf_entered.
        -- pose proof (entered_b_idx b (S k)) as Hi. destruct (entered_b (S k) b) as [i' st'] eqn:E. cbn in Hi. subst i'.
           rewrite flat_b_later by lia. rewrite <- E. rewrite (proj1 (proj2 flat_entered)).
           rewrite (proj1 flat_exited). intro p. cbn [pre post]. lia.
      * apply in_app_or in Hin. destruct Hin as [Hin|Hin].
        -- destruct (IHs _ _ _ Hin Hwf He) as (st' & Hs & Hw & Hf).
           exists (BAt k st'). split; [constructor; auto|]. split; [cbn; auto|]. rewrite flat_b_here. auto.
        -- exfalso. destruct (proj1 (proj2 trans_pre) _ _ _ _ Hin) as [Hne Hu].
           eapply (enabled_clash _ _ (fun p => exists i, S k <= i /\ under (i :: pi) p)); eauto.
           intros p Hp (i & Hle & Hu'). apply (proj1 flat_under) in Hp.
           pose proof (under_inj _ _ _ _ Hu' Hp). lia.
    + (* current statement is later *)
      rewrite flat_b_later in * by auto.
      assert (forall p, In p (flat_b pi (S k) b (BAt i st)) -> ~ under (k :: pi) p) as Hdisj.
      { intros p Hp Hu. apply (proj1 (proj2 flat_under)) in Hp. destruct Hp as (i' & Hle & Hu').
        pose proof (under_inj _ _ _ _ Hu Hu'). lia. }
      destruct Hin as [<-|Hin].
      * exfalso. eapply (enabled_clash _ _ (under (k :: pi))); eauto.
        -- cbn. apply (proj1 exits_ne).
        -- cbn. apply (proj1 exits_under).
      * apply in_app_or in Hin. destruct Hin as [Hin|Hin].
        -- exfalso. destruct (proj1 trans_pre _ _ _ Hin) as [Hne' Hu].
           eapply (enabled_clash _ _ (under (k :: pi))); eauto.
        -- destruct (IHb _ _ _ _ Hin Hwf He) as (bt' & Hs & Hw & Hf).
           exists bt'. split; [constructor; auto|]. 
           assert (idx bt' <> k) as Hidx.
           { apply wf_b_idx in Hw. lia. }
           destruct bt' as [i' st']. cbn in Hidx. split; [cbn; right; auto|].
           rewrite flat_b_later by auto. auto.
  - (* BsOne *)
    intros b IH pi j sts t Hin Hwf He. destruct sts as [bt|]; cbn in Hwf; try contradiction.
    cbn in Hin. cbn [flat_bs] in *. destruct (IH _ _ _ _ Hin Hwf He) as (bt' & Hs & Hw & Hf).
    exists (BsO bt'). split; [constructor; auto|]. split; auto.
  - (* BsCons *)
    intros b IHb bs IHbs pi j sts t Hin Hwf He. destruct sts as [|bt sts]; cbn in Hwf; try contradiction.
    destruct Hwf as [Hwb Hwbs]. cbn in Hin. cbn [flat_bs] in *. apply in_app_or in Hin. destruct Hin as [Hin|Hin].
    + destruct (proj1 (proj2 trans_pre) _ _ _ _ Hin) as [Hne Hu].
      assert (enabled t (flat_b (j :: pi) 0 b bt)) as He'.
      { eapply (sub_restrict_l _ _ _ (under (j :: pi))); eauto.
        - intros p Hp. destruct (Hu _ Hp) as (i & _ & Hu'). eapply under_cons; eauto.
        - intros p Hp Hu'. apply (proj2 (proj2 flat_under)) in Hp. destruct Hp as (i & Hle & Hu'').
          pose proof (under_inj _ _ _ _ Hu' Hu''). lia. }
      destruct (IHb _ _ _ _ Hin Hwb He') as (bt' & Hs & Hw & Hf).
      exists (BsC bt' sts). split; [constructor; auto|]. split; [cbn; auto|].
      cbn [flat_bs]. apply fires_frame_l. auto.
    + destruct (proj2 (proj2 trans_pre) _ _ _ _ Hin) as [Hne Hu].
      assert (enabled t (flat_bs pi (S j) bs sts)) as He'.
      { eapply (sub_restrict_r _ _ _ (fun p => exists i, S j <= i /\ under (i :: pi) p)); eauto.
        intros p Hp (i & Hle & Hu'). apply (proj1 (proj2 flat_under)) in Hp. destruct Hp as (i' & _ & Hu'').
        apply under_cons in Hu''. pose proof (under_inj _ _ _ _ Hu' Hu''). lia. }
      destruct (IHbs _ _ _ _ Hin Hwbs He') as (sts' & Hs & Hw & Hf).
      exists (BsC bt sts'). split; [constructor; auto|]. split; [cbn; auto|].
      cbn [flat_bs]. apply fires_frame_r. auto.
Qed.

(* ---------- the unique-active-point invariant ---------- *)
Fixpoint is_exited (s : stmt) (st : sst) {struct s} : bool :=
  match s, st with
  | Svc, VDone => true
  | Call b, VCall bt => is_exited_b 0 b bt
  | Par _, VParFin => true
  | _, _ => false
  end
with is_exited_b (k : nat) (b : block) (bt : bst) {struct b} : bool :=
  match bt with
  | BAt i st =>
      match b with
      | BOne s => Nat.eqb i k && is_exited (s) st
      | BCons s b' => negb (Nat.eqb i k) && is_exited_b (S k) b' bt
      end
  end.
Fixpoint all_exited (bs : blocks) (sts : bsst) : bool :=
  match bs, sts with
  | BsOne b, BsO bt => is_exited_b 0 b bt
  | BsCons b bs', BsC bt sts' => is_exited_b 0 b bt && all_exited bs' sts'
  | _, _ => false
  end.

Definition b2n (b : bool) : nat := if b then 1 else 0.

(* number of enabled transitions inside a component, read off the structured state *)
Fixpoint nact (s : stmt) (st : sst) {struct s} : nat :=
  match s, st with
  | Svc, VFin => 1
  | Call b, VCall bt => nact_b 0 b bt
  | Par bs, VRun sts => b2n (all_exited bs sts) + nact_bs bs sts
  | _, _ => 0
  end
with nact_b (k : nat) (b : block) (bt : bst) {struct b} : nat :=
  match bt with
  | BAt i st =>
      match b with
      | BOne s => if Nat.eqb i k then nact s st else 0
      | BCons s b' => if Nat.eqb i k then b2n (is_exited s st) + nact s st else nact_b (S k) b' bt
      end
  end
with nact_bs (bs : blocks) (sts : bsst) {struct bs} : nat :=
  match bs, sts with
  | BsOne b, BsO bt => nact_b 0 b bt
  | BsCons b bs', BsC bt sts' => nact_b 0 b bt + nact_bs bs' sts'
  | _, _ => 0
  end.

Lemma is_exited_exited :
  (forall s, is_exited s (exited s) = true) /\ (forall b k, is_exited_b k b (exited_b k b) = true) /\ (forall bs : blocks, True).
Proof.
  apply ast_mutind; intros; cbn; auto.
  - rewrite Nat.eqb_refl. cbn. auto.
  - pose proof (exited_b_idx b (S k)). destruct (exited_b (S k) b) as [i st] eqn:E. cbn in *.
    destruct (Nat.eqb_spec i k); [lia|]. cbn. rewrite <- E. auto.
Qed.

Lemma is_exited_inv :
  (forall s st, wf s st -> is_exited s st = true -> st = exited s) /\
  (forall b k bt, wf_b k b bt -> is_exited_b k b bt = true -> bt = exited_b k b) /\ (forall bs : blocks, True).
Proof.
  apply ast_mutind; auto.
  - intros st Hwf H. destruct st; cbn in *; try discriminate; auto.
  - intros b IH st Hwf H. destruct st; cbn in *; try discriminate; try contradiction. f_equal. eauto.
  - intros bs _ st Hwf H. destruct st; cbn in *; try discriminate; auto.
  - intros s IH k [i st] Hwf H. cbn in *. destruct Hwf as [-> Hwf]. rewrite Nat.eqb_refl in H. cbn in H. f_equal. eauto.
  - intros s IHs b IHb k [i st] Hwf H. cbn in *. destruct Hwf as [[-> Hwf]|[Hne Hwf]].
    + rewrite Nat.eqb_refl in H. discriminate.
    + destruct (Nat.eqb_spec i k); [contradiction|]. cbn in H. eauto.
Qed.

(* exited and entered components contain no enabled transition *)
Lemma nact_exited :
  (forall s, nact s (exited s) = 0) /\ (forall b k, nact_b k b (exited_b k b) = 0) /\ (forall bs : blocks, True).
Proof.
  apply ast_mutind; intros; cbn; auto.
  - rewrite Nat.eqb_refl. auto.
  - pose proof (exited_b_idx b (S k)). destruct (exited_b (S k) b) as [i st] eqn:E. cbn in *.
    destruct (Nat.eqb_spec i k); [lia|]. rewrite <- E. auto.
Qed.

Lemma entered_not_exited :
  (forall s, is_exited s (entered s) = false) /\ (forall b k, is_exited_b k b (entered_b k b) = false) /\ (forall bs : blocks, True).
Proof.
  apply ast_mutind; intros; cbn; auto.
  - rewrite Nat.eqb_refl. cbn. auto.
  - rewrite Nat.eqb_refl. reflexivity.
Qed.
Lemma all_exited_entered bs : all_exited bs (entered_bs bs) = false.
Proof. destruct bs; cbn; rewrite (proj1 (proj2 entered_not_exited)); auto. Qed.
Lemma nact_entered :
  (forall s, nact s (entered s) = 0) /\ (forall b k, nact_b k b (entered_b k b) = 0) /\ (forall bs, nact_bs bs (entered_bs bs) = 0).
Proof.
  apply ast_mutind; intros; cbn; auto.
  - rewrite all_exited_entered, H. reflexivity.
  - rewrite Nat.eqb_refl. auto.
  - rewrite Nat.eqb_refl. rewrite (proj1 entered_not_exited), H. reflexivity.
  - rewrite H, H0. reflexivity.
Qed.

Scheme sstep_min := Minimality for sstep Sort Prop
with bstep_min := Minimality for bstep Sort Prop
with bsstep_min := Minimality for bsstep Sort Prop.
Combined Scheme step_mutind from sstep_min, bstep_min, bsstep_min.

Lemma all_exited_inv bs : forall sts, wf_bs bs sts -> all_exited bs sts = true -> sts = exited_bs bs.
Proof.
  induction bs; intros sts Hwf H; destruct sts; cbn in *; try contradiction; try discriminate.
  - f_equal. eapply (proj1 (proj2 is_exited_inv)); eauto.
  - apply andb_prop in H. destruct H, Hwf. f_equal; eauto. eapply (proj1 (proj2 is_exited_inv)); eauto.
Qed.
Lemma all_exited_exited bs : all_exited bs (exited_bs bs) = true.
Proof. induction bs; cbn; rewrite ?(proj1 (proj2 is_exited_exited)); auto. Qed.
Lemma nact_bs_exited bs : nact_bs bs (exited_bs bs) = 0.
Proof. induction bs; cbn; rewrite ?(proj1 (proj2 nact_exited)); auto. Qed.

(* a structured step needs an active point *)
Lemma step_needs_active :
  (forall pi s st t st', sstep pi s st t st' -> 1 <= nact s st) /\
  (forall pi k b bt t bt', bstep pi k b bt t bt' -> 1 <= nact_b k b bt) /\
  (forall pi j bs sts t sts', bsstep pi j bs sts t sts' -> 1 <= nact_bs bs sts).
Proof.
  apply step_mutind; intros; cbn; auto; try lia.
  - rewrite all_exited_exited. cbn. lia.
  - rewrite Nat.eqb_refl. auto.
  - rewrite Nat.eqb_refl. lia.
  - rewrite Nat.eqb_refl. rewrite (proj1 is_exited_exited). cbn. lia.
  - destruct (Nat.eqb_spec i k); [contradiction|]. auto.
Qed.

(* steps preserve well-formedness *)
Lemma step_wf :
  (forall pi s st t st', sstep pi s st t st' -> wf s st -> wf s st') /\
  (forall pi k b bt t bt', bstep pi k b bt t bt' -> wf_b k b bt -> wf_b k b bt') /\
  (forall pi j bs sts t sts', bsstep pi j bs sts t sts' -> wf_bs bs sts -> wf_bs bs sts').
Proof.
  apply step_mutind; intros; cbn in *; auto.
  - destruct H1; auto.
  - destruct H1 as [[_ Hw]|[Hne _]]; [left; auto|congruence].
  - pose proof (entered_b_idx b (S k)) as Hi. destruct (entered_b (S k) b) as [i' st'] eqn:E. cbn in Hi. subst i'.
    right. split; [lia|]. rewrite <- E. apply wf_entered.
  - destruct H2 as [[-> _]|[_ Hw]]; [congruence|]. specialize (H1 Hw).
    pose proof (wf_b_idx _ _ _ H1) as Hi. destruct bt' as [i' st']. cbn in Hi. right. split; [lia|auto].
  - destruct H1; auto.
  - destruct H1; auto.
Qed.

(* with at most one active point, a step leaves at most one active point *)
Lemma step_keeps_unique :
  (forall pi s st t st', sstep pi s st t st' -> wf s st -> nact s st <= 1 -> nact s st' <= 1) /\
  (forall pi k b bt t bt', bstep pi k b bt t bt' -> wf_b k b bt -> nact_b k b bt <= 1 -> nact_b k b bt' <= 1) /\
  (forall pi j bs sts t sts', bsstep pi j bs sts t sts' -> wf_bs bs sts -> nact_bs bs sts <= 1 ->
       nact_bs bs sts' <= 1 /\ (all_exited bs sts' = true -> nact_bs bs sts' = 0)).
Proof.
  apply step_mutind; intros; cbn in *; auto; try lia.
  - (* st_par *)
    pose proof (proj2 (proj2 step_needs_active) _ _ _ _ _ _ H) as Hact.
    assert (nact_bs bs sts <= 1) as Hle by lia.
    destruct (H0 H1 Hle) as [Hn Hz]. destruct (all_exited bs sts') eqn:E; cbn; [rewrite Hz; auto|lia].
  - (* bs_one *) rewrite Nat.eqb_refl in *. destruct H1. auto.
  - (* bs_here *) rewrite Nat.eqb_refl in *. destruct H1 as [[_ Hw]|[Hne _]]; [|congruence].
    pose proof (proj1 step_needs_active _ _ _ _ _ H) as Hact.
    assert (nact s st <= 1) as Hle by lia. specialize (H0 Hw Hle).
    destruct (is_exited s st') eqn:E; cbn; [|lia].
    apply (proj1 is_exited_inv) in E; [|eapply (proj1 step_wf); eauto]. subst st'.
    rewrite (proj1 nact_exited). lia.
  - (* bs_conn *)
    pose proof (entered_b_idx b (S k)) as Hi. destruct (entered_b (S k) b) as [i' st'] eqn:E. cbn in Hi. subst i'.
    destruct (Nat.eqb_spec (S k) k); [lia|]. rewrite <- E. rewrite (proj1 (proj2 nact_entered)). lia.
  - (* bs_later *)
    destruct (Nat.eqb_spec i k); [contradiction|]. destruct H2 as [[-> _]|[_ Hw]]; [congruence|].
    specialize (H1 Hw H3). pose proof (proj1 (proj2 step_wf) _ _ _ _ _ _ H0 Hw) as Hw'.
    pose proof (wf_b_idx _ _ _ Hw') as Hi. destruct bt' as [i' st']. cbn in Hi.
    destruct (Nat.eqb_spec i' k); [lia|]. auto.
  - (* bss_one *)
    specialize (H0 H1 H2). split; auto. intros E.
    apply (proj1 (proj2 is_exited_inv)) in E; [|eapply (proj1 (proj2 step_wf)); eauto]. subst. apply (proj1 (proj2 nact_exited)).
  - (* bss_here *)
    destruct H1 as [Hwb Hwbs].
    pose proof (proj1 (proj2 step_needs_active) _ _ _ _ _ _ H) as Hact.
    assert (nact_b 0 b bt <= 1) as Hle by lia. specialize (H0 Hwb Hle).
    split; [lia|]. intros E. apply andb_prop in E. destruct E as [E1 E2].
    apply (proj1 (proj2 is_exited_inv)) in E1; [|eapply (proj1 (proj2 step_wf)); eauto]. subst.
    rewrite (proj1 (proj2 nact_exited)). lia.
  - (* bss_later *)
    destruct H1 as [Hwb Hwbs].
    pose proof (proj2 (proj2 step_needs_active) _ _ _ _ _ _ H) as Hact.
    assert (nact_bs bs sts <= 1) as Hle by lia. destruct (H0 Hwbs Hle) as [Hn Hz].
    split; [lia|]. intros E. apply andb_prop in E. destruct E as [E1 E2]. rewrite (Hz E2). lia.
Qed.
Print Assumptions step_keeps_unique.
