"""dev runner: ./check <Cxx> without the translator+make step (component work while other
components are being edited; the real entry point is ./check).  Usage, from /verif:
  PYTHONPATH=/repo PYTHONHASHSEED=0 /venv/bin/python tools/dev_check_nomake.py C10"""
import sys, os
sys.path.insert(0, "/verif/harness")
os.environ.setdefault("PYTHONHASHSEED", "0")
import common
common.build = lambda *a, **k: {"gen": {"rc": 0, "out": "skipped (dev runner)", "err": ""}, "make_s": 0.0}
import check
sys.argv = ["check"] + sys.argv[1:]
sys.exit(check.main())
