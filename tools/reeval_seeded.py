#!/usr/bin/env python3
"""usage: reeval_seeded.py [-j N] [<seeded id> ...]
Re-runs every recorded seeded change (default: all of /verif/seeded) against the CURRENT checks
and the current /repo HEAD with tools/try_mutation.sh (scratch worktree + scratch copy of /verif)
and rewrites the "checks" / "confirmed_on" / "confirmation" fields of its meta.json.  The checks
that are run are the ones recorded before (the property's own check first).  A change whose patch
no longer applies to HEAD (because a later repair rewrote the same lines) keeps its old record and
is marked "applies_to_head": false."""
import json
import os
import re
import subprocess
import sys
from concurrent.futures import ThreadPoolExecutor

VERIF = os.path.dirname(os.path.dirname(os.path.abspath(__file__)))


def one(sid):
    d = os.path.join(VERIF, "seeded", sid)
    mp = os.path.join(d, "meta.json")
    meta = json.load(open(mp))
    own = meta.get("property", sid.split("-")[0])
    checks = [own] + [c for c in meta.get("checks", {}) if c != own]
    p = subprocess.run([os.path.join(VERIF, "tools", "try_mutation.sh"), d] + checks, capture_output=True, text=True)
    out = p.stdout + p.stderr
    head = subprocess.run(["git", "-C", "/repo", "log", "-1", "--format=%h"], capture_output=True, text=True).stdout.strip()
    if "patch does not apply" in out:
        meta["applies_to_head"] = False
        meta["note"] = "patch no longer applies to /repo HEAD %s; record below is from %s" % (head, meta.get("confirmed_on"))
        json.dump(meta, open(mp, "w"), indent=1)
        return sid, "does not apply", {}
    m0 = re.search(r"demo without change: exit (\d+)", out)
    m1 = re.search(r"demo with change: exit (\d+)", out)
    suite = re.search(r"(\d+) passed", out)
    ok = bool(m0 and m1 and m0.group(1) == "0" and m1.group(1) != "0" and suite and suite.group(1) == "117"
              and " failed" not in out)
    res = {}
    for c, ex, nv, tail in re.findall(r"check (C\d+): exit (\d+) :: (\d+) violation line\(s\) :: (.*)", out):
        res[c] = {"exit": int(ex), "violation_lines": int(nv), "summary": tail.strip()}
    if not ok:
        meta["applies_to_head"] = True
        meta["note"] = ("on /repo HEAD %s the demonstration no longer separates the trees (without: %s, with: %s, suite: %s); "
                        "record below is from %s" % (head, m0 and m0.group(1), m1 and m1.group(1),
                                                     suite and suite.group(1), meta.get("confirmed_on")))
        json.dump(meta, open(mp, "w"), indent=1)
        return sid, "not confirmed on HEAD", res
    meta.pop("note", None)
    meta["applies_to_head"] = True
    meta["confirmed_on"] = head
    meta["confirmation"] = ["scratch worktree of /repo at %s" % head, "demo.py without the change: exit 0",
                            "demo.py with the change: exit %s" % m1.group(1), "pytest with the change: 117 passed"]
    meta["checks"] = res
    json.dump(meta, open(mp, "w"), indent=1)
    return sid, "ok", res


def main():
    args = sys.argv[1:]
    jobs = 3
    if args and args[0] == "-j":
        jobs = int(args[1])
        args = args[2:]
    ids = args or sorted(os.listdir(os.path.join(VERIF, "seeded")))
    with ThreadPoolExecutor(jobs) as ex:
        for sid, status, res in ex.map(one, ids):
            caught = [c for c, r in res.items() if r["exit"] != 0]
            print("%-10s %-22s caught by: %s%s" % (sid, status, ",".join(caught) or "-",
                                                  "" if not res else "   missed by: " + (",".join(c for c in res if c not in caught) or "-")),
                  flush=True)
    return 0


if __name__ == "__main__":
    sys.exit(main())
