#!/bin/bash
# Re-checks every compiled property file (and everything it depends on) with Coq's independent
# checker and prints the context summary (axioms, type-in-type, unsafe fixpoints, assumed
# positivity).  Takes several minutes; not part of the per-property checks.  The last result is
# kept in docs/coqchk_report.txt.
set -u
cd "$(dirname "$0")/../coq" || exit 2
mods=$(ls Properties/*.vo | sed 's/\.vo$//; s#/#.#; s/^/PFDL./')
obls=$(ls Gen/Obligations*.vo | sed 's/\.vo$//; s#/#.#; s/^/PFDL./')
{
  echo "coqchk -silent -o -Q . PFDL <all of Properties/*.vo and Gen/Obligations*.vo>  ($(date -u +%Y-%m-%dT%H:%MZ), $(coqchk -v | head -1))"
  echo "modules: $mods $obls" | fold -w 110
  timeout 7200 coqchk -silent -o -Q . PFDL $mods $obls 2>&1
  echo "exit status: $?"
} | tee ../docs/coqchk_report.txt
