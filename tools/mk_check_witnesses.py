#!/venv/bin/python
"""Regenerates the corpus witnesses of the validator findings (corpus/check-*.json) from
small hand-written programs.  Run from /verif:  /venv/bin/python tools/mk_check_witnesses.py"""
import json
import os
import sys

HERE = os.path.dirname(os.path.abspath(__file__))
sys.path.insert(0, os.path.join(os.path.dirname(HERE), "harness"))
import common  # noqa: E402
import faults  # noqa: E402
import gen_check  # noqa: E402
from faults import P, FQ, FIN, n, svc, cond, cmp_, fq_json, fin_json, GOOD_CALL  # noqa: E402

Q = svc(outs=[("q", FQ)], name="Sq")


def prog(body, extra_tasks=(), structs=None):
    p = {"structs": [dict(s) for s in (structs or faults.SUPPORT_STRUCTS)],
         "tasks": [{"name": "productionTask", "ins": [], "body": body, "outs": []}] + list(extra_tasks)}
    p["order"] = [("struct", i) for i in range(len(p["structs"]))] + [("task", i) for i in range(len(p["tasks"]))]
    return p


CALLEE = gen_check.clone(faults.SUPPORT_TASK)

W = {
    # id: (finding, properties, monitors, program, span)
    "D8-self-recursion": ("D8-recursion-accepted", ["C10", "C09"], {"C10": "C10", "C09": "C09"},
                          prog([("call", "loopTask", [], [])],
                               [{"name": "loopTask", "ins": [], "body": [svc(name="Sn"), ("call", "loopTask", [], [])],
                                 "outs": []}]), ("span_stmt", 1, (1,))),
    "D9-unknown-task-in-parallel-loop": ("D9-parallel-loop-call-unchecked", ["C10", "C09"], {"C10": "C10", "C09": "C09"},
                                         prog([Q, ("count", True, "k", ("int", 2), [("call", "nosuch", [], [])])]),
                                         ("span_stmt", 0, (1, 0))),
    "D10-undeclared-limit": ("D10-loop-limit-unchecked", ["C10", "C09"], {"C10": "C10", "C09": "C09"},
                             prog([Q, ("count", False, "k", ("path", "zz", [("f", "count")]), [svc()])]),
                             ("span_stmt", 0, (1,))),
    "D11a-undeclared-operand": ("D11a-expression-operand-raises", ["C10", "C16"], {"C10": "C10", "C16": "C16"},
                                prog([Q, cond(cmp_("<", P("zz", "count"), n(3)))]), ("span_stmt", 0, (1,))),
    "D11a-not-operand": ("D11a-expression-operand-raises", ["C16"], {"C16": "C16"},
                         prog([Q, cond(cmp_("<", ("paren", ("not", P("q", "flag"))), n(3)))]), ("span_stmt", 0, (1,))),
    "D25-array-element-in-guard": ("D25-array-element-rejected", ["C11"], {"C11": "C11"},
                                   prog([Q, cond(cmp_("<", P("q", "items", 0, "n"), n(3)))]), ("span_stmt", 0, (1,))),
    "D25-primitive-array-element": ("D25-array-element-rejected", ["C11"], {"C11": "C11"},
                                    prog([Q, svc([P("q", "nums", 0)])]), ("span_stmt", 0, (1,))),
    "D25-array-element-as-limit": ("D25-array-element-rejected", ["C11"], {"C11": "C11"},
                                   prog([Q, ("count", False, "k", ("path", "q", [("f", "items"), ("il", 0), ("f", "n")]), [svc()])]),
                                   ("span_stmt", 0, (1,))),
    "D11a-array-element-in-guard": ("D11a-expression-operand-raises", ["C16"], {"C16": "C16"},
                                    prog([Q, cond(cmp_("<", P("q", "items", 0, "n"), n(3)))]), ("span_stmt", 0, (1,))),
    "D11c-index-on-struct-attribute": ("D11c-attribute-access-raises", ["C10", "C16"], {"C10": "C10", "C16": "C16"},
                                       prog([Q, svc([P("q", "inner", 0)])]), ("span_stmt", 0, (1,))),
    "D11c-primitive-array-element": ("D11c-attribute-access-raises", ["C16"], {"C16": "C16"},
                                     prog([Q, svc([P("q", "nums", 0)])]), ("span_stmt", 0, (1,))),
    "D11d-unknown-key-in-nested-literal": ("D11d-nested-literal-key-raises", ["C10", "C16"], {"C10": "C10", "C16": "C16"},
                                           prog([svc([("lit", "Fq", fq_json(inner=fin_json(zz=n(1))))])]),
                                           ("span_stmt", 0, (0,))),
    "D12a-missing-attribute-in-nested-literal": ("D12a-literal-rules-missing", ["C10"], {"C10": "C10"},
                                                 prog([svc([("lit", "Fq", fq_json(inner=fin_json(ok=None)))])]),
                                                 ("span_stmt", 0, (0,))),
    "D12a-number-in-struct-array": ("D12a-literal-rules-missing", ["C10"], {"C10": "C10"},
                                    prog([svc([("lit", "Fq", fq_json(items=("arr", [n(3)])))])]), ("span_stmt", 0, (0,))),
    "D12b-string-as-condition": ("D12b-guard-type-unchecked", ["C10", "C09"], {"C10": "C10", "C09": "C09"},
                                 prog([Q, cond(("str", "abc"))]), ("span_stmt", 0, (1,))),
    "D12b-number-under-and": ("D12b-guard-type-unchecked", ["C10"], {"C10": "C10"},
                              prog([Q, cond(cmp_("And", P("q", "count"), P("q", "flag")))]), ("span_stmt", 0, (1,))),
    "D24-string-equality": ("D24-string-equality-rejected", ["C11"], {"C11": "C11"},
                            prog([Q, cond(cmp_("==", P("q", "label"), ("str", "a")))]), ("span_stmt", 0, (1,))),
    "D24-parenthesised-string-operand": ("D24-string-equality-rejected", ["C11"], {"C11": "C11"},
                                         prog([Q, cond(cmp_("<", ("paren", ("str", "a")), ("str", "b")))]),
                                         ("span_stmt", 0, (1,))),
    "D28-nested-array-element": ("D28-nested-array-elements-dropped", ["C10"], {"C10": "C10"},
                                 prog([svc([("lit", "Fq", fq_json(nums=("arr", [n(1), n(2), ("arr", [n(3)])])))])]),
                                 ("span_stmt", 0, (0,))),
    # the run: S1 is completed (the only completion there is), d = {count: 0, ratio: 1.5, flag: true}
    "D18-division-by-zero": ("D18-division-by-zero-escapes", ["C09"], {"C09": "C09"},
                             prog([svc(outs=[("d", ("plain", "Data"))], name="S1"),
                                   ("cond", cmp_("<", cmp_("/", P("d", "ratio"), P("d", "count")), n(1)),
                                    [svc(name="S2")], [svc(name="S3")])],
                                  structs=[{"name": "Data", "attrs": [("count", faults.NUM), ("ratio", faults.NUM),
                                                                      ("flag", ("plain", "boolean"))]}]),
                             ("span_stmt", 0, (1,))),
    "D21-array-length-by-name": ("D21-array-length-error-without-line", ["C19"], {"C19": "C19"},
                                 prog([svc()], structs=faults.SUPPORT_STRUCTS + [
                                     {"name": "Fnew", "attrs": [("a", faults.NUM), ("zz", ("array", "number", "k"))]}]),
                                 ("span_struct", 2)),
}

EXTRA_META = {
    "D18-division-by-zero": {"values": {"productionTask": {"d": {"count": 0, "ratio": 1.5, "flag": True}}},
                             "completion_order": ["S1"]},
}

FUZZ = {
    "D23-dot": ("D23-program-text-is-a-path", ["C16"], "."),
    "D22-json-backslash": ("D22-json-string-raises", ["C16"],
                           'Task productionTask\n    S\n        In\n            Color\n'
                           '                {"na\\me": "green"}\nEnd\n'),
}


def main():
    out_dir = os.path.join(os.path.dirname(HERE), "corpus")
    for name, (fid, props, mons, p, span) in W.items():
        lm = {}
        text = gen_check.render(p, None, lm)
        meta = {"family": "witness", "name": name, "span": span, "seed": name}
        meta.update(EXTRA_META.get(name, {}))
        c = {"kind": "check", "mode": "program", "properties": props, "finding": fid, "monitors": mons,
             "program_text": text, "prog": p, "meta": meta,
             "linemap": [[list(k) if isinstance(k, tuple) else k, v] for k, v in lm.items()]}
        with open(os.path.join(out_dir, "check-%s.json" % name), "w") as f:
            json.dump(common.enc(c), f, indent=1, sort_keys=True)
    for name, (fid, props, text) in FUZZ.items():
        c = {"kind": "check", "mode": "fuzz", "properties": props, "finding": fid, "text": text}
        with open(os.path.join(out_dir, "check-%s.json" % name), "w") as f:
            json.dump(common.enc(c), f, indent=1, sort_keys=True)
    print("wrote", len(W) + len(FUZZ), "witnesses")
    write_coq()


EXTRA_COQ = {
    # further faulty programs used by the _refuted / example theorems (not corpus witnesses)
    "mutual_recursion": prog([("call", "ta", [], [])],
                             [{"name": "ta", "ins": [], "body": [svc(name="Sn"), ("call", "tb", [], [])], "outs": []},
                              {"name": "tb", "ins": [], "body": [("call", "ta", [], [])], "outs": []}]),
    "recursion_through_parallel": prog([("call", "ta", [], [])],
                                       [{"name": "ta", "ins": [], "body": [svc(name="Sn"), ("parallel", [("ta", [], []), ("tb", [], [])])], "outs": []},
                                        {"name": "tb", "ins": [], "body": [svc(name="So")], "outs": []}]),
    "recursion_through_parloop": prog([("call", "ta", [], [])],
                                      [{"name": "ta", "ins": [], "body": [svc(name="Sn"), ("count", True, "z", ("int", 2), [("call", "ta", [], [])])], "outs": []}]),
    "parloop_wrong_arity": prog([Q, ("count", True, "k", ("int", 2), [("call", "fcallee", [("var", "q")], [("x1", FIN)])])], [CALLEE]),
    "limit_unknown_attribute": prog([Q, ("count", False, "k", ("path", "q", [("f", "nosuch")]), [svc()])]),
    "limit_string": prog([Q, ("count", False, "k", ("path", "q", [("f", "label")]), [svc()])]),
    "unknown_attribute_operand": prog([Q, cond(cmp_("<", P("q", "nosuch"), n(3)))]),
    "field_after_array": prog([Q, svc([P("q", "items", "n")])]),
    "array_variable_path": prog([svc(outs=[("a", ("array", "Fin", None))]), svc([P("a", "n")])]),
    "array_element_as_condition": prog([Q, cond(P("q", "items", 1, "ok"))]),
    "not_number": prog([Q, cond(("not", P("q", "count")))]),
    "bool_literal_in_arithmetic": prog([Q, cond(cmp_("<", cmp_("+", ("bool", True), n(1)), n(3)))]),
    "number_as_condition": prog([Q, ("while", n(3), [svc()])]),
    "unknown_task": prog([Q, ("cond", ("bool", True), [("count", False, "k", ("int", 2), [svc(), ("call", "nosuch", [], [])])], [])]),
    # not producible by the grammar (an index directly after the variable): only for Coq
    "nongrammar_path": prog([Q, ("call", "fcallee", [("path", "q", [("il", 0), ("f", "inner")]), P("q", "count")],
                                 [("x1", FIN)])], [CALLEE]),
    "good_small": prog([Q, ("call",) + GOOD_CALL,
                        ("count", False, "k", ("path", "q", [("f", "count")]),
                         [("call", "fcallee", [("var", "q"), P("q", "inner", "n")], [("x2", FIN)]),
                          svc([P("q", "fixed", "@k"), P("q", "items", "@k", "ok")])]),
                        cond(cmp_("And", cmp_("<", cmp_("+", P("q", "count"), n(1)), n(3)), ("not", P("q", "flag")))),
                        svc([("lit", "Fq", fq_json()), P("q", "items", 0), P("q", "inner")]),
                        ("parallel", [GOOD_CALL, ("fcallee", [("var", "q"), P("q", "count")], [("x3", FIN)])]),
                        ("count", True, "z", ("int", 2), [("call",) + GOOD_CALL])], [CALLEE]),
}


def catalogue_programs():
    """one small program per catalogue entry that has a theorem: the fault sits in the Failed
    branch of a Condition inside a counting loop of productionTask"""
    out = {}
    for fid in ["F01a", "F01b", "F02a", "F03c", "F03d", "F04a", "F04b", "F04f", "F05a", "F06a", "F07a", "F16a", "F16b", "F16c",
                "F16d", "F16e", "F20a", "F20b", "F20c", "F20d", "F13b"]:
        after, fidx, sub = faults.STMT_FAULTS[fid]
        inner = [Q] + gen_check.clone(after)
        body = [("count", False, "w", ("int", 2), [("cond", ("bool", False), [svc(name="Sk")], inner)])]
        out["f_" + fid] = prog(body, [CALLEE])
    base = lambda: prog([Q, ("call",) + GOOD_CALL], [CALLEE])
    p = base(); p["structs"].append(gen_check.clone(p["structs"][1])); p["order"].append(("struct", 2)); out["f_F10a"] = p
    p = base(); p["tasks"].append(gen_check.clone(p["tasks"][1])); p["order"].append(("task", 2)); out["f_F11a"] = p
    p = base(); p["structs"][1] = dict(p["structs"][1], attrs=p["structs"][1]["attrs"] + [("n", faults.NUM)]); out["f_F12a"] = p
    p = base(); p["tasks"].append({"name": "tnew", "ins": [("a", FQ), ("a", FQ)], "body": [svc(name="Sn")], "outs": []})
    p["order"].append(("task", 2)); out["f_F13a"] = p
    p = base(); p["tasks"][0] = dict(p["tasks"][0], name="productionTask2"); out["f_F14a"] = p
    p = base(); p["tasks"].append({"name": "tnew", "ins": [], "body": [svc(name="Sn")], "outs": ["zz"]})
    p["order"].append(("task", 2)); out["f_F15a"] = p
    p = base(); p["structs"].append({"name": "Fnew", "attrs": [("a", faults.NUM), ("zz", ("plain", "Nosuch"))]})
    p["order"].append(("struct", 2)); out["f_F03a"] = p
    p = base(); p["tasks"].append({"name": "tnew", "ins": [("a", ("plain", "Nosuch"))], "body": [svc(name="Sn")], "outs": []})
    p["order"].append(("task", 2)); out["f_F03b"] = p
    return out


def write_coq():
    import pfdl_ast
    EXTRA_COQ.update(catalogue_programs())
    I = pfdl_ast.Interner()
    out = ["(* Witnesses.v — GENERATED by tools/mk_check_witnesses.py from the corpus witnesses of the",
           "   validator findings (corpus/check-*.json) and a few further hand-written programs; the",
           "   programs are the arguments of the _refuted theorems and of the guard-inhabitation",
           "   examples.  Definitions only.  Names are interned by the harness (productionTask = 0). *)",
           "From PFDL Require Import Base Syntax.", ""]
    for name, (fid, props, mons, p, span) in W.items():
        out.append("Definition w_%s : program :=\n  %s.\n" % (name.replace("-", "_"), pfdl_ast.coq_program(I, p)))
    for name, p in EXTRA_COQ.items():
        out.append("Definition w_%s : program :=\n  %s.\n" % (name, pfdl_ast.coq_program(I, p)))
    out.append("(* interned names: " + ", ".join("%d=%s" % (i, s.replace("*)", "* )").replace('"', "'")) for i, s in enumerate(I.rev)) + " *)")
    path = os.path.join(os.path.dirname(HERE), "coq", "Check", "Witnesses.v")
    text = "\n".join(out) + "\n"
    if not os.path.exists(path) or open(path).read() != text:
        open(path, "w").write(text)
    print("wrote", path)


C10B_FIDS = ["F17a", "F17b", "F17c", "F17d", "F17e", "F17f", "F17g", "F17h",
             "F04c", "F04d", "F04e", "F04g", "F05b", "F05c", "F05d", "F05i",
             "F18a", "F18b", "F18c", "F18f", "F18i", "F18k", "F18l", "F18m", "F18n", "F18o", "F18p", "F18q", "F18r", "F18s",
             "F08a", "F08b", "F08c", "F08d", "F08e", "F08f", "F08g", "F08h", "F08i", "F08j", "F08k", "F08l", "F08m",
             "F08n", "F08o", "F09a", "F09b", "F09c", "F09d", "F09e", "F09f", "F09g", "F09h", "F09i",
             "F06b", "F06c", "F07b", "F07c",
             "F05e", "F05f", "F05g", "F05h"]


def c10b_programs():
    """programs of the examples in coq/Check/CheckProofsC10b.v: one per catalogue entry of the type
    classes (the fault sits in the Failed branch of a Condition inside a counting loop), the same
    faults inside a parallel loop / a Parallel block, and what is still accepted (D12b)"""
    out = {}
    for fid in C10B_FIDS:
        after, fidx, sub = faults.STMT_FAULTS[fid]
        inner = [Q] + gen_check.clone(after)
        body = [("count", False, "w", ("int", 2), [("cond", ("bool", False), [svc(name="Sk")], inner)])]
        out["f_" + fid] = prog(body, [CALLEE])
    bad_call = ("fcallee", [P("q", "inner"), P("q", "count")], [("x1", FIN)])
    out["parloop_arg_mismatch"] = prog([Q, ("count", True, "z", ("int", 2), [("call",) + bad_call])], [CALLEE])
    out["parallel_arg_mismatch"] = prog([Q, ("parallel", [GOOD_CALL, bad_call])], [CALLEE])
    out["parloop_literal_value"] = prog(
        [Q, ("count", True, "z", ("int", 2),
             [("call", "fcallee", [("lit", "Fq", fq_json(items=("arr", [fin_json(), fin_json(pair=("arr", [("bool", False), n(1)]))]))),
                                   P("q", "count")], [("x1", FIN)])])], [CALLEE])
    out["parloop_path_step"] = prog(
        [Q, ("count", True, "z", ("int", 2), [("call", "fcallee", [("var", "q"), P("q", "inner", "nosuch")], [("x1", FIN)])])], [CALLEE])
    # still accepted: == / != between operands of different types, a number under == with a boolean (D12b)
    out["eq_number_string"] = prog([Q, cond(cmp_("==", P("q", "count"), ("str", "a")))])
    out["ne_number_boolean"] = prog([Q, cond(cmp_("!=", P("q", "count"), P("q", "flag")))])
    out["comparison_as_number"] = prog([Q, cond(cmp_("<", cmp_("+", ("paren", cmp_("<", P("q", "count"), n(2))), n(1)), n(3)))])
    # F03f in a call output / a task input (the struct-attribute case is w_D21_array_length_by_name)
    out["len_by_name_output"] = prog([Q, ("count", True, "z", ("int", 2),
                                          [("call", "fcallee", [("var", "q"), P("q", "count")], [("x1", ("array", "Fin", "n"))])])], [CALLEE])
    out["len_by_name_input"] = prog([Q, ("call",) + GOOD_CALL],
                                    [CALLEE, {"name": "tnew", "ins": [("a", ("array", "number", "n"))], "body": [svc(name="Sn")], "outs": []}])
    out["good_small"] = EXTRA_COQ["good_small"]
    return out


def write_coq_b():
    import pfdl_ast
    I = pfdl_ast.Interner()
    out = ["(* WitnessesC10b.v — GENERATED by tools/mk_check_witnesses.py: the programs of the examples of",
           "   coq/Check/CheckProofsC10b.v (one per catalogue entry of the type classes of C10, see",
           "   harness/faults.py).  Definitions only.  Names are interned by the harness (productionTask = 0). *)",
           "From PFDL Require Import Base Syntax.", ""]
    for name, p in c10b_programs().items():
        out.append("Definition wb_%s : program :=\n  %s.\n" % (name, pfdl_ast.coq_program(I, p)))
    out.append("(* interned names: " + ", ".join("%d=%s" % (i, s.replace("*)", "* )").replace('"', "'")) for i, s in enumerate(I.rev)) + " *)")
    path = os.path.join(os.path.dirname(HERE), "coq", "Check", "WitnessesC10b.v")
    text = "\n".join(out) + "\n"
    if not os.path.exists(path) or open(path).read() != text:
        open(path, "w").write(text)
    print("wrote", path)
    return c10b_programs()


if __name__ == "__main__":
    main()
    write_coq_b()
