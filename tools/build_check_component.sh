#!/bin/sh
# compile the validator component's files in dependency order (never `make`)
cd /verif/coq || exit 1
for f in Check/CheckModel.v Check/CheckRun.v Check/Typing.v Check/Guards.v Check/Witnesses.v Check/CheckProofsBase.v \
         Check/CheckProofsC16.v Check/CheckProofsNoExn.v Check/CheckProofsC10.v Check/CheckProofsC19.v Check/CheckProofsC09.v \
         Check/TypingProofs.v Check/CheckProofsC11.v Check/CheckExamplesC10.v Check/CheckRefuted.v \
         Properties/C16.v Properties/C10.v Properties/C19.v Properties/C09.v Properties/C11.v; do
  [ -f "$f" ] || continue
  if [ ! -f "${f}o" ] || [ "$f" -nt "${f}o" ] || [ -n "$FORCE" ]; then
    echo "coqc $f"; timeout 600 coqc -Q /verif/coq PFDL "$f" 2>&1 | grep -v "^WARNING\|Closed under" | head -20
  fi
done
