#!/usr/bin/env python3
"""Writes MANIFEST.json from the table below (kept in one place so it stays valid)."""
import json
import os

VERIF = os.path.dirname(os.path.dirname(os.path.abspath(__file__)))

PROOF_NOTE = ("Trusted: Coq 8.16.1 kernel incl. vm_compute (no native_compute); no axioms (Print Assumptions of every "
              "property theorem: Closed under the global context); translator tools/gen_tables.py; Python harness "
              "(generators, canonicalisation, scripted execution engine); the theorems are about the Gallina models, "
              "which are tied to /repo by reflexivity obligations on regenerated tables and by a differential "
              "correspondence run (sampling, not proof) on every invocation.")

RUN_NOTE = ("Trusted: Coq 8.16.1 kernel incl. vm_compute (no native_compute); no axioms (Print Assumptions of every "
            "property theorem: Closed under the global context). The theorems are about the Gallina reference semantics "
            "(coq/RefSem.v). The faithful net model (coq/NetModel.v) is PROVED to produce the reference semantics' trace on the "
            "fragment of ALL sequential constructs - services / task calls / Parallel / Condition / While / counting loops anywhere, loop "
            "indices in parameters; only parallel loops are outside - (coq/Refine, Properties/Refinement.v: "
            "net_refines_ref_fragment; all programs, oracles, scripts; ANY set of immediate completions from inside the "
            "service-started notification (then no further service-started function / observer in the script: with them the two "
            "models order the log entries differently), no completions of OTHER services from inside notifications, no mutation; "
            "test identifiers; every sufficiently large fuel; Properties/RefinementTransfer.v: on that fragment every successful run "
            "of the net model, with any fuel, IS the reference trace, and the monitors holds_C01 / C07 / C04ctx / C08 / C14 / C17 / "
            "C20 accept the FAITHFUL model's trace - net_C01_fragment etc., assuming the reference run succeeds); outside that fragment, and between the implementation and the "
            "net model, what ties them to /repo is the differential correspondence run on every invocation (sampling, "
            "not proof): the implementation, the reference semantics and the faithful net model (coq/NetModel.v, a "
            "transliteration of generator.py / logic.py / scheduler.py that reproduces the implementation's traces "
            "exactly, including re-entrant completions and the known defects) are run on the same generated programs, "
            "valuations, completion orders and API histories and compared under the property's projection, and the "
            "property's executable monitor is applied to the implementation's trace. Trusted besides: the Python harness "
            "(generators, canonicalisation, scripted execution engine), the printer of cases as Gallina terms.")

CLAIMS = {
    "C01": dict(
        text="Theorem C01_reference_semantics / C01_programs (for every program, value oracle, set of immediately "
             "completed services, fuel and every script of API calls incl. junk, duplicates, premature and late events): "
             "every trace of the reference semantics satisfies the executable monitor holds_C01 - production task "
             "finished exactly once, in the call after which nothing is outstanding; running / awaited / final as the "
             "property states. Proved by an invariant over the state tree (a state that is not complete awaits a "
             "service). The same monitor is applied to the implementation's traces, which are also compared with both "
             "models, incl. completions of other services sent from inside notifications. Known findings D7 (parallel-loop "
             "shapes) and D20 (completion sent from inside a finished notification) are reported as KNOWN-FINDING.",
        technique="Coq proof (invariant by induction over the mutually recursive interpreter and over the API script) "
                  "on the reference semantics + differential correspondence with two executable models + monitor on "
                  "implementation traces",
        design_ref="DESIGN.md §9 C01", note=RUN_NOTE),
    "C08": dict(
        text="Theorems on the API layer of the reference semantics, for all states / histories: a non-awaited completion "
             "or junk event returns False and leaves the state equal (C08_rejected_completion_changes_nothing, "
             "C08_junk_changes_nothing); erasing rejected calls from a history leaves all other records equal "
             "(C08_erase_rejected); an accepted event was awaited; start again is a no-op; once accepted, every later "
             "report of the same identifier is rejected in every history (C08_accepted_at_most_once, by a NoDup / "
             "fresh-range invariant lifted through the interpreter with the closure principle). The implementation is "
             "tied by correspondence (junk kinds, duplicates, unknown ids, events from JSON, re-entrant duplicates) and by "
             "the monitor holds_C08, which judges acceptance against what was ANNOUNCED, not against the scheduler's own list.",
        technique="Coq proof (state equalities, induction over scripts, closure principle over the interpreter) + "
                  "differential correspondence + monitor on implementation traces",
        design_ref="DESIGN.md §9 C08", note=RUN_NOTE),
    "C13": dict(
        text="Theorem C13_decision_is_truth_value (all expression trees, all valuations over Q/bool/struct values): "
             "whenever ordinary arithmetic/comparison/boolean semantics gives a guard a truth value, the model of "
             "Scheduler.check_expression decides exactly that value; the operator table is regenerated from "
             "helpers.py and proved equal to the modelled one. Precedence (text -> tree) is tied by correspondence "
             "only so far; the known finding D14 ('/' then '*') is reported as KNOWN-FINDING.",
        technique="Coq proof (structural induction on expressions) + regenerated operator table obligation + "
                  "differential correspondence on generated expressions",
        design_ref="DESIGN.md §9 C13"),
    "C14": dict(
        text="PARTIAL. Proved (C14_unique_partial, all programs / schedules / histories of the reference semantics): no two "
             "task-started and no two service-started notifications of an order carry the same identifier (identifiers "
             "come from two counters; consecutive calls draw from disjoint ranges). Not proved: that finished "
             "notifications and accepted events carry the announced identifier - this is checked by the lifecycle monitor "
             "holds_C14 on every implementation trace and by the correspondence with both models (test-id mode literally, "
             "UUID mode after first-occurrence renaming against the reference semantics only).",
        technique="Coq proof (relational invariant lifted with the closure principle) + differential correspondence in "
                  "both identifier modes + lifecycle monitor on implementation traces",
        design_ref="DESIGN.md §9 C14", note=RUN_NOTE),
    "C17": dict(
        text="Theorem C17_log_shape (all programs, schedules, attach/detach histories of the reference semantics): the log "
             "of every call is, notification by notification, the registered functions in order followed by one entry per "
             "attached observer in attachment order naming the same entity and identifier, the flag exactly on the "
             "production task's finished notification; with the C01 theorem that notification occurs once and last. The "
             "PETRI_NET notices and observer order under re-entrant completions are outside the model (checked / exhibited "
             "on the implementation by the harness and the net model).",
        technique="Coq proof (log-shape relation lifted with the closure principle) + differential correspondence with "
                  "attach/detach histories + monitor on implementation traces",
        design_ref="DESIGN.md §9 C17", note=RUN_NOTE),
    "C20": dict(
        text="Theorem C20_log_shape (all programs, schedules, registration histories of the reference semantics): every "
             "function registered for a kind is invoked exactly once per notification of that kind, in registration order, "
             "with the same argument; a repeated registration returns False and changes nothing. Tied to the implementation "
             "by correspondence with up to 3 listeners per kind incl. equal-but-not-identical bound methods and by the "
             "monitor holds_C20.",
        technique="Coq proof (log-shape relation lifted with the closure principle) + differential correspondence + "
                  "monitor on implementation traces",
        design_ref="DESIGN.md §9 C20", note=RUN_NOTE),
}


def _partial(pid, what, sec):
    return dict(
        text="Proved on the reference semantics, for every program, valuation sequence, schedule and registration / observer "
             "configuration: the MONITOR THEOREMS listed at the end of this text (per task instance: sequencing, fork / join, "
             "decisions - what the property states, for all schedules), and in addition (1) %s_sync_partial - under the schedule in which every service is completed from inside its "
             "service-started notification the interpreter issues exactly the denotation den_* of coq/RefDen.v, whose clause "
             "for this property reads: %s; (2) ALL schedules (%s_confluence, RefConfluence.v): for every completion order, every "
             "set of immediately completed services and every history incl. junk, for an oracle that does not depend on the "
             "query counter, the history of a completed order is a PERMUTATION of that denotation (every event exactly as often "
             "as the denotation says) and no event ever occurs more often in an incomplete history; (3) for ALL schedules and "
             "histories the order completes exactly when nothing is outstanding (C01 theorem) and every accepted completion is "
             "delivered into the waiting service (RefProgress): no wake-up is lost, nothing is deferred. What no theorem "
             "fixes is how the events of DIFFERENT task instances interleave with each other inside one call (schedule-dependent "
             "by nature; for the re-entrant schedule it is the denotation); the full traces are compared on every run with the "
             "implementation and with the faithful net model (all generated programs, completion orders incl. re-entrant ones, "
             "valuations), under the projection of the trace this property is about, and on the refinement fragment the net "
             "model's trace IS the reference trace. Known findings (parallel-loop shapes D7) are "
             "reported as KNOWN-FINDING." % (pid, what, pid),
        technique="Coq proof (mutual induction over the interpreter against a denotational reading; C01 invariant) + "
                  "differential correspondence with two executable models",
        design_ref="DESIGN.md §9 " + pid, note=RUN_NOTE)


CLAIMS.update({
    "C02": _partial("C02", "a block is the concatenation in source order of its statements, each exactly once, within one call; "
                    "ADDITIONALLY PROVED for all schedules (RefProgress.v): every accepted completion is delivered into exactly the "
                    "waiting service of the state tree (the awaited list is a permutation of the tree's waiting services, "
                    "C02p_accepted_completion_is_delivered / _is_consumed): no wake-up is lost", 2),
    "C03": _partial("C03", "all branches of a Parallel are started in the same call in source order and what follows comes after the last branch's task-finished", 3),
    "C04": _partial("C04", "the guard's variables are queried in the enclosing task instance, the decision is decide (= arithmetic truth value, C13) and exactly the selected branch follows", 4),
    "C05": _partial("C05", "a counting loop runs its body for k = 0,1,... while k < limit (limit read before each test), a while loop once per true evaluation of its guard, evaluated before every iteration", 5),
    "C06": _partial("C06", "the limit is read once when the loop is reached and exactly N instances are started in that call, instance i with the counting variable bound to i", 6),
    "C15": _partial("C15", "every notification carries the call site's parameters in source order with loop indices replaced by the iteration / instance number", 15),
    "C07": dict(
        text="Theorem C07_reference_semantics / C07_programs (every program, value oracle, set of immediately completed "
             "services, fuel and every script of API calls): every trace of the reference semantics satisfies the executable "
             "lifecycle monitor holds_C07 - every task-started / service-started is matched by exactly one finished "
             "notification with the same identifier, name, site and context; a started notification's context is open; a "
             "task finishes only when nothing it started is open; the production task is first; service-finished is issued in "
             "the call that delivers the completion; nothing is open when the order is final. Proved by an invariant between "
             "the monitor state and the open instances of the state tree (up to permutation), 1500 lines. The same monitor is "
             "applied to every implementation trace (incl. completions sent from inside notifications) and the traces are "
             "compared with both models. Known findings D7 (parallel-loop shapes) and D20 (completion sent from inside a "
             "finished notification) are reported as KNOWN-FINDING.",
        technique="Coq proof (monitor / state-tree invariant by mutual induction over the interpreter and induction over "
                  "scripts) + lifecycle monitor on implementation traces + differential correspondence with two executable models",
        design_ref="DESIGN.md §9 C07", note=RUN_NOTE),
})


CLAIMS.update({
    "C12": dict(
        text="Theorem C12_roundtrip (all programs with well-formed names, all layouts: any indentation widths per block, "
             "blank and comment-only lines, trailing blanks and comments, CRLF, missing final newline, struct literals over "
             "several lines): front_end (render L p) = p for the Gallina front end (denter transliterated from DenterHelper, "
             "token parser for PFDLParser.g4 building the model the way pfdl_tree_visitor.py does, precedence-climbing "
             "expression parser with the level table REGENERATED from PFDLParser.py on every run); C12_denter_layout_independent; "
             "C12_expr_roundtrip_any_table. The characters-to-lexemes level is modelled by Front/CharLexer.v (rule table of "
             "PFDLLexer.g4 with longest match, rule order, modes; tied to the regenerated rule table by Gen/ObligationsCharLexer.v): "
             "C12_lex_render (lexing the characters of a printed text gives its line tokens), C12_roundtrip_chars (front end on "
             "CHARACTERS = the program, under the executable guards text_style_ok and nonempty_program; refuted without the "
             "latter), C12_lex_rejects_illegal (EVERY text with a character outside the language at a code position is a lexer "
             "error, hence a syntax error), C12_chars_layout_insensitive. Not modelled: ANTLR's serialized ATN, adaptive "
             "prediction and error recovery, Unicode decoding (bytes >= 128 are single illegal characters), JSON escape decoding. "
             "Correspondence: parse_string vs the generating AST field by field under 20 layouts per "
             "program, real lexer token stream vs Gallina denter, Gallina character lexer vs the real ANTLR lexer (rule name, text, error offset; rendered, "
             "mutated and random texts), Gallina front_end vs the code incl. mutated texts. D13 (illegal "
             "characters dropped) was found and fixed; D14 (precedence split) is a KNOWN-FINDING.",
        technique="Coq proof (round trip by induction over programs and layouts; regenerated grammar tables with reflexivity "
                  "obligations) + differential correspondence on generated texts and layouts",
        design_ref="DESIGN.md §9 C12, docs/front_component.md"),
    "C18": dict(
        text="PARTIAL. Proved on the reference semantics: attaching / detaching observers and registering additional functions "
             "changes nothing but the observers' / functions' own entries - the run without them succeeds with exactly the "
             "erased trace, for every program and history (C18_observers_do_not_influence, C18_extra_listeners_do_not_influence, "
             "two-run simulation in RefObs.v); two scheduler instances driven "
             "by one interleaved history behave exactly like the two driven separately (C18_two_schedulers_independent_partial); "
             "the models are functions of the case, so repeating a run reproduces it. State shared through the Python runtime "
             "(class / module attributes, mutable defaults), text vs file path, drawing, identifier mode and observers cannot be "
             "expressed by a Gallina model: they are exercised on the implementation by a configuration sweep - every generated "
             "case is replayed as file path, with UUIDs, with observers, with other schedulers created before and after and driven "
             "in between (their own runs compared with runs alone, cross-addressed events must be rejected), with stray tabs, all "
             "combined, repeated, and with drawing for a few cases; notification sequences must be equal after first-occurrence "
             "renaming. The baseline run is tied to both Coq models.",
        technique="Coq proof (product of two model instances) + configuration sweep on the implementation + differential "
                  "correspondence of the baseline with two executable models",
        design_ref="DESIGN.md §9 C18", note=RUN_NOTE),
})

CHECK_NOTE = ("Trusted: Coq 8.16.1 kernel incl. vm_compute (no native_compute); no axioms (Print Assumptions of every "
              "property theorem: Closed under the global context). The theorems are about the Gallina model "
              "coq/Check/CheckModel.v (a method-by-method mirror of pfdl_tree_visitor.py's duplicate handling and variable "
              "table, struct.py::parse_json, semantic_error_checker.py, helpers.get_type_of_variable_list and parse_string, "
              "with the Python exceptions of unguarded lookups explicit); what ties the model to /repo is the differential "
              "correspondence run on every invocation (sampling, not proof): parse_string in the console and the "
              "editor-extension format and CheckModel.validate (vm_compute inside coqc) are run on the same generated "
              "programs and compared on exception class, verdict and the multiset of (message kind, line). Generated "
              "well-formed programs are certified by the proved decision procedure wf_dec, mutants by wf_dec = false; "
              "failures are attributed to a known finding only when its Gallina shape predicate holds of the input. "
              "See docs/check_component.md.")

CLAIMS.update({
    "C09": dict(
        text="PARTIAL. Static half, proved for all programs (C09_accepted_is_sched_safe): acceptance implies productionTask "
             "exists, every task call - at any nesting, in Parallel blocks and in parallel loops - names a defined task with "
             "matching arity, parallel loops are a single call, variable parameters are declared, no task call leads back to the "
             "calling task (finite unfolding) and loop limits resolve to a number. This was refuted before the repairs of D8 "
             "(recursion), D9 (parallel-loop call) and D10 (limits) in /repo. Still refuted: guards are not type checked "
             "(C09_accepted_guards_typed_refuted, known finding D12b: a string as condition is accepted and raises TypeError at "
             "run time). Run-time half, proved on the reference semantics (Properties/C09runtime.v): an accepted program unfolds "
             "for every fuel above an explicit bound (C09_accepted_unfolds: construction does not fail, no unbounded recursion); "
             "with typed guards and limits (guards_typed = the D12b guard; limits_typed and no_string_order, proved for every "
             "wf_dec program), a well-typed oracle and no division by zero every guard and limit evaluates "
             "(C09_guards_and_limits_evaluate) and NO run - any set of immediate completions, any script of API calls whose "
             "detach calls target attached observers, any fuel - ends in an exception or Unsupported "
             "(C09_run_never_raises_partial; the only exception possible without the division guard is ZeroDivisionError: "
             "C09_run_raises_only_zero_division), and the order completes exactly when nothing is outstanding "
             "(C09_order_completes, from the C01 theorem). REFUTED without the division guard "
             "(C09_division_by_zero_refuted) - and the implementation behaves the same: known finding D18, an accepted "
             "program whose guard divides by a supplied 0 lets ZeroDivisionError escape fire_event. On the fragment of "
             "Properties/Refinement.v these statements transfer to the faithful net model. The run-time half is also "
             "exercised on the implementation: every accepted member of the "
             "well-formed family, of the single-fault mutants and of the near-valid variants is constructed, started and driven "
             "to the end with well-typed values in a random completion order.",
        technique="Coq proof (contrapositives of the C10 rejection theorems; type soundness of guard / limit evaluation; a "
                  "no-failure invariant through the interpreter and over scripts) + vm_compute refutation witnesses + driving "
                  "accepted programs on the implementation + differential correspondence of the validator",
        design_ref="DESIGN.md §9 C09, docs/check_component.md", note=CHECK_NOTE),
    "C10": dict(
        text="PARTIAL. Proved for all programs: the descent lemma (C10_descent: messages and invalidity of a sub-statement "
             "propagate to the enclosing statement at any nesting depth, into Parallel blocks and parallel loops, by induction "
             "on the statement tree) and 28 theorems 'has_fault_k p = true -> validate p <> Ok []' for decidable fault "
             "predicates: unknown task, unknown struct literal, unknown type (struct attribute, task input, call output), "
             "undeclared variable, unknown attribute, literal with missing / unknown attribute, duplicate struct / task / "
             "attribute / task input / call output, no productionTask, undeclared task output, wrong arity, recursive call, "
             "loop limit that is no number, ill-formed parallel loop; for ASTs of the grammar's shape 'not accepted' is 'at "
             "least one message' (C10_reported). Recursion (D8), faults inside parallel loops (D9), loop limits (D10), nested "
             "literal rules (D12a) and the raising lookups (D11) were refuted, were repaired in /repo and are now proved / "
             "reported. Properties/C10b.v adds the type classes, same shape, predicates that compute the type of a path "
             "independently of the validator's lookups: argument of a task call whose type differs from the declared "
             "input (variable, path also through array elements, struct literal; positional) and output type mismatch "
             "(F17); guard operands that are reported (path that does not resolve or of type string / struct / array "
             "where a boolean is required, < <= > >= on operands that are neither both numbers nor both strings, "
             "arithmetic on a non-number) and loop limits that are no number (F04, F05, F18); struct literal values "
             "that are not values of the declared type at any depth of nested structs and arrays of structs (primitive "
             "class, missing / unknown / ill-typed nested attribute, wrong length incl. the empty list, ill-typed "
             "element: F08, F09, nested F06 / F07); deeper path steps (F05e-i); array length by name (F03f). Every "
             "catalogue entry of these classes satisfies the predicate of its class (by computation). Still REFUTED "
             "on the faithful model: guard typing (D12b): literal or number as condition, numbers under And / Or / !, "
             "boolean literal in arithmetic, operands of different types under == / !=, a comparison used as a number. "
             "Correspondence: all 149 catalogue entries x 8 position kinds x wrapping depth 0..3; all of them except "
             "the D12b entries are reported.",
        technique="Coq proof (induction on the statement tree, local lemma per fault class) + vm_compute witnesses "
                  "+ fault injection with differential correspondence",
        design_ref="DESIGN.md §9 C10 and Appendix B, docs/check_component.md", note=CHECK_NOTE),
    "C11": dict(
        text="PARTIAL. WF (coq/Check/Typing.v) transcribes the documented rules R1-R9; wf_dec decides it (C11_wf_dec_correct). "
             "Full statement 'WF p -> validate p = Ok []' is REFUTED on the faithful model (string attribute under ==, "
             "parenthesised string operand, array element in a guard / as condition / as loop limit, element of a primitive "
             "array as parameter: known findings D24, D25; all are rejected with a message, none raises any more). Proved: "
             "C11_wf_accepted_partial 'WF p -> c11_guard p = true -> validate p = Ok []' for all programs - every construct "
             "(visitor, struct definitions, task signatures, variable / path / array-element / struct-literal parameters with "
             "nested structs and arrays, calls matched by position and type also inside parallel loops, loop limits, the "
             "recursion check, guards over all operators, all statement kinds at any nesting) - where c11_guard is an executable "
             "predicate excluding exactly the refuting shapes (inhabited; all generated family members). Order independence is "
             "NOT proved: every generated program is also run with its definitions permuted and re-interleaved.",
        technique="Coq proof (induction over statements, expressions, paths and struct literals against the declarative "
                  "typing rules; call-chain bound => no recursion report) + certified generation + differential correspondence",
        design_ref="DESIGN.md §9 C11, docs/check_component.md", note=CHECK_NOTE),
    "C16": dict(
        text="Proved for EVERY text (all character strings, Properties/C16text.v): the composed model validate_text = "
             "character lexer (Front/CharLexer.v) + denter + parser (Front/Parser.v) + validator (Check/CheckModel.v) always "
             "returns a verdict - never an exception, never out of fuel (C16_text_always_a_verdict, C16_text_no_exception, "
             "C16_text_terminates; the parser's output satisfies from_grammar: C16_parser_output_from_grammar) - and answers "
             "valid exactly when the message list is empty (C16_text_valid_iff_no_message); a syntax error or an illegal "
             "character gives invalid with a message and no Process (C16_text_syntax_error_invalid, "
             "C16_text_illegal_character_invalid). Not modelled: the interpreter's recursion limit (D29: parse_string raised "
             "RecursionError beyond ~245 nesting levels; repaired in /repo, the implementation now answers invalid there while "
             "the model accepts), ANTLR's error recovery (the model stops at the first syntax error; only verdict and "
             "non-emptiness are compared at text level), json.loads escapes. The 'no order can be started' clause is checked on "
             "the implementation by the monitor only. On ASTs: the verdict is valid iff nothing was printed "
             "(C16_verdict_iff_no_message); every check_* method and validate_process return True iff they printed nothing "
             "(C16_checker_flag_matches_output); validation terminates; and for every AST of the shape the grammar produces "
             "(from_grammar: a condition on paths and literals that the parser guarantees; shown necessary) validation returns "
             "a list of messages, no exception escapes (C16_always_a_verdict, C16_no_exception). The ten crash sites found "
             "earlier (D11a, D11c, D11d) were repaired in /repo; their witnesses now yield one message each. Correspondence: "
             "validate_text evaluated in coqc vs parse_string on generated, mutated, degenerate and fuzz texts (verdict, printed "
             "something, no Process); a fuzz stream of character/token mutations, truncations, random token sequences and random "
             "bytes is checked by a monitor (verdict, no exception, valid iff silent, same in both formats; invalid => start() "
             "False, fire_event False); it found D22, D23 and D29, all repaired.",
        technique="Coq proof (totality of the composed text pipeline: fuel sufficiency of the parser, parser output has the "
                  "grammar's shape, closure of the check combinators) + differential correspondence on texts and ASTs + fuzzing "
                  "with a monitor",
        design_ref="DESIGN.md §9 C16, docs/check_component.md", note=CHECK_NOTE),
    "C19": dict(
        text="PARTIAL. Proved on AST positions for all programs: every message printed while a statement is checked carries a "
             "context inside that statement (C19_messages_point_into_statement); a sub-statement found invalid at any depth is "
             "reported with a context inside that sub-statement (C19_fault_located, with the descent lemma); task messages "
             "point into the task; a missing productionTask is reported at line 1; every message of every program has a "
             "position (C19_every_message_has_a_position - refuted before the repair of D21). IN LINE NUMBERS (Front/LinesOf.v, "
             "Properties/C19lines.v), for every layout of the printed text (blank and comment lines, indentation widths, CRLF, "
             "struct literals over several lines): the line reported for a context lies within the first and last physical line "
             "of the statement that contains it (C19_ctx_inside_stmt_line, C19_lines_point_into_statement_of, "
             "C19_fault_located_lines_every_layout), every reported line is between 1 and the number of lines of the file "
             "(C19_every_message_line_every_layout), file-level messages are line 1, and the line agrees with the character "
             "level (C19_ctx_line_chars: exactly n-1 line feeds precede it in the printed characters). Still by correspondence: "
             "which ANTLR context object each print_error call site passes (model context <-> parser context), and that the "
             "console and editor-extension formats print the same line (fault x position x layout variants x both formats; "
             "lines evaluated in coqc and compared with parse_string).",
        technique="Coq proof (context-locality invariant over the checker and the visitor, descent lemma; line spans of the "
                  "rendered text for every layout) + fault injection "
                  "under layout variants with differential correspondence in both output formats",
        design_ref="DESIGN.md §9 C19, docs/check_component.md", note=CHECK_NOTE),
})

NOT_YET = "check not built yet in this revision (see DESIGN.md §11 staging); will be claimed when its theorem and correspondence slice exist"


# theorems added after the first integration round (separate restatement files Properties/<X>.v)
for _p in ("C02", "C03", "C05"):
    CLAIMS[_p]["text"] += (
        " ADDITIONALLY PROVED for ALL schedules, immediate-completion sets and histories (MonitorsSeq.v, RefC02.v, "
        "Properties/C02seq.v): every trace of the reference semantics satisfies the executable sequencing monitor "
        "mon_C02seq (C02_seq_programs) - within a task instance no two sibling statements of a block are in progress "
        "together (only earlier branches of the same Parallel / other instances of the same parallel loop may be), statements "
        "start in source order (a position starts again only inside a loop), a statement starts only in a call in which its "
        "instance was started or one of its statements finished earlier in that call, at the end of every call every open "
        "task instance has a statement in progress (nothing is deferred), finishes match - and on the fragment of "
        "Properties/Refinement.v so does every trace of the faithful net model (net_C02seq_fragment). The same monitor is "
        "applied to every implementation trace. Outside a trace's reach: that no statement is skipped (a silent Condition and "
        "a zero-iteration loop look like a skipped statement) - this stays with the denotation / confluence theorems and the "
        "literal trace comparison.")
CLAIMS["C03"]["text"] += (
    " FORK / JOIN, all schedules (MonitorsFork.v, RefC03.v, Properties/C03fork.v): every trace of the reference semantics "
    "satisfies mon_C03fork (C03_fork_programs): the task-started notifications of ALL branches of a Parallel appear in one "
    "call, in source order, nothing else of the instance starts in between and no call ends with a fork open; nothing but "
    "further branches starts in the instance while a branch is in progress; the call in which the last branch finishes also "
    "starts what follows (or finishes the instance). On the refinement fragment the faithful net model's traces satisfy it too "
    "(net_C03_fragment). mon_C03 = mon_C02seq && mon_C03fork is applied to every implementation trace.")
CLAIMS["C06"]["text"] += (
    " INSTANCES, all schedules (MonitorsFork.v, RefC03.v, Properties/C06inst.v): every trace of the reference semantics "
    "satisfies mon_C06inst (C06_inst_programs): all instances of one execution of a parallel loop start in one call; with a "
    "limit read from a variable exactly N instances are started, N being the oracle's answer to the query that immediately "
    "precedes the first instance (the limit is read once, there: FQ_limit); with a literal limit a multiple of it; the call in "
    "which the last instance finishes starts what follows. Not visible in a trace: the index bound to the counting variable "
    "(only through indexed call parameters - compared literally by the correspondence and proved under the re-entrant schedule) "
    "and N <= 0. mon_C06 = mon_C02seq && mon_C06inst is applied to every implementation trace.")
for _p, _w in (("C04", "exactly the selected branch of every Condition"), ("C05", "exactly as many iterations as the guards / limits dictate")):
    CLAIMS[_p]["text"] += (
        " DECISIONS, all schedules (MonitorsDecide.v, RefDecide.v, Properties/C04decide.v, Properties/C05iter.v): every trace "
        "of the reference semantics satisfies the decision-following monitor mon_decide (C04_decide_programs / "
        "C05_iter_programs) - " + _w + ": in every task instance the statement started next is exactly where a walk from the "
        "statement started last arrives when each Condition guard, While guard and loop limit on the way is RECOMPUTED from the "
        "case's oracle at the history index of its queries (true -> first statement of the Passed block / body, false -> Failed "
        "block or what follows; a counting loop enters iteration k only if k < the limit read at that test, limit read before "
        "every test; constant guards by position), and the walk consumed exactly the queries asked. On the refinement fragment "
        "the faithful net model's traces satisfy it too (net_C04_fragment / net_C05_fragment). The monitor is applied to "
        "every implementation trace (mon_C04 = mon_C04ctx && mon_C02seq && mon_decide; mon_C05 = mon_C02seq && mon_decide).")
CLAIMS["C08"]["text"] += (
    " ERASURE ON THE FAITHFUL MODEL (NetC08Erase.v, Properties/C08.v): a rejected call - junk, a completion that is not "
    "awaited, a repeated start - can be removed from ANY history of net_run_script (the transliteration of Scheduler.start / "
    "fire_event / register), and so can a whole burst of them: the records of all later calls are equal and the record of the "
    "rejected call shows the state before it with an empty log (C08_net_erase_rejected, C08_net_erase_rejected_burst, "
    "C08_net_rejected_record; for every net, marking, scheduler state and fuel > 0).")
CLAIMS["C15"]["text"] += (
    " PARAMETERS, all schedules (MonitorsParams.v, RefParams.v, Properties/C15params.v): every trace of the reference "
    "semantics satisfies mon_params (C15_params_programs): every task-started / service-started notification at a site carries "
    "exactly subst_params ie (the site's source parameter list), element by element and in order, where ie binds - innermost "
    "first - the variable of every counting loop of THIS task instance around the site to its current iteration number and of a "
    "parallel loop to the instance number (caller's indices are substituted in the call's own parameters, not inside the callee; "
    "an index outside every binding loop stays as written); the test is made on every delivery, so an earlier mutation of a "
    "delivered list cannot show up. On the refinement fragment the faithful net model's traces satisfy it too "
    "(net_C15_fragment). mon_C15 = mon_decide && mon_params is applied to every implementation trace incl. the hostile-engine "
    "profiles.")
CLAIMS["C04"]["text"] += (
    " ADDITIONALLY PROVED for ALL schedules and histories (RefC04.v, Properties/C04ctx.v): every variable query names a task "
    "instance that has been announced started and not yet finished at that moment (C04_query_context_ref, monitor "
    "holds_C04q with its declarative meaning holds_C04q_meaning); what follows a query in the same call belongs to the block "
    "of the queried instance - another query in that instance, a started notification whose enclosing instance it is, or its "
    "own task-finished - so the context is the INNERMOST instance, not an open ancestor (C04_query_innermost_programs, "
    "monitor holds_C04n); the decision depends only on the answers given during that evaluation, numbered from the oracle "
    "counter at that moment (decide_m_moment), and the queries of a call are whole evaluations of guards / limits of the "
    "program (api_call_query_blocks). Both monitors are applied to every implementation trace.")
CLAIMS["C13"]["text"] = CLAIMS["C13"]["text"].replace(
    "Precedence (text -> tree) is tied by correspondence only so far; the known finding D14 ('/' then '*') is reported as KNOWN-FINDING.",
    "Precedence (Front/PrecedenceProofs.v, Properties/C13prec.v): the level table regenerated from the grammar differs from the "
    "stated one on exactly the ordered pairs '/ then *' and '+ then -'; for every expression tree in standard normal form the "
    "generated parser reads its text as regen e (gen_reads_regen); without those two adjacencies text -> tree, value and "
    "decision are the stated ones (C13_partial, C13_value_partial, the guards are exact: C13_guard_exact); the full statement "
    "is REFUTED on the faithful model (C13_standard_precedence_refuted: '8 / 2 * 2' is 2, not 8; '1 + 2 - 3' has another tree "
    "but the same value) - known finding D14, reported as KNOWN-FINDING. Guards are additionally evaluated inside running "
    "orders (Conditions and loops re-evaluated against current values).")
CLAIMS["C17"]["text"] += (
    " Attach / detach performed re-entrantly from inside an observer's update() is covered by a separate model of "
    "Scheduler.notify (ObsDispatch.v, Properties/C17obs.v): for all observer lists and reaction functions a detached "
    "observer receives nothing further, no attached observer is skipped, order and multiplicity are those of the list, "
    "lifted to sequences of notifications; the loop before fix 20b97d8 (D27: an observer detaching itself made the next one "
    "miss the entry) and the snapshot-only loop are refuted with witnesses. Tied to the code by a digest obligation on "
    "attach / detach / notify and by the obs slice (real Scheduler, scripted re-entrant observers).")
CLAIMS["C20"]["text"] += (
    " Registration performed re-entrantly from inside a callback is covered by a separate model of the callback lists and "
    "the live-list dispatch loop (RegDispatch.v, Properties/C20reg.v): for all lists, reactions, nestings and interleavings "
    "what is invoked for a notification is the list at its start followed by the functions accepted during it, each exactly "
    "once and in order; a present function is refused (False) also when it was accepted earlier in the same dispatch; the "
    "lists stay duplicate-free; an accepted function is invoked exactly once for every later notification of its kind; the "
    "variant that defers registrations to the end of the dispatch is refuted. Tied to the code by a digest obligation on "
    "register_callback_* and by the reg slice (real Scheduler, callbacks that register re-entrantly, recorders held only "
    "by the scheduler, argument identity).")
for _p in ("C17", "C20"):
    CLAIMS[_p]["text"] += (
        " ADDITIONALLY PROVED ON THE FAITHFUL NET MODEL (NetShape.v, Properties/C20net.v), i.e. on the transliteration of "
        "scheduler.py itself rather than on the reference semantics: for every engine that does not complete services from "
        "inside notifications, one notification appends exactly the registered functions of its kind in registration order "
        "followed by one entry per attached observer, all naming the same entity and identifier, the flag exactly on the "
        "production task's finished notification (notify_user_shape), lifted through evaluate / fire_event / the API calls / "
        "whole scripts by a frame rule (run_net_shape, net_C20_same_sequence, net_C17_observer_matches_function, net_C17_flag); "
        "for EVERY engine incl. re-entrant completions each registered function and each observer is invoked exactly once per "
        "notification in a well-nested group (run_net_wf, net_C20_same_count_all_engines); 'same entity' is REFUTED for "
        "re-entrant engines (C20_same_sequence_all_engines_false = known finding D26).")


def main():
    props = [json.loads(l) for l in open(os.path.join(VERIF, "properties.jsonl"))]
    checks = []
    na = []
    for p in props:
        pid = p["id"]
        c = CLAIMS.get(pid)
        if not c:
            na.append({"property_id": pid, "reason": NOT_YET})
            continue
        checks.append({
            "property_id": pid,
            "quick_cmd": "VERIF_TIER=quick ./check %s" % pid,
            "thorough_cmd": "VERIF_TIER=thorough ./check %s" % pid,
            "evidence_file": "/verif/evidence/%s.json" % pid,
            "replay_cmd_template": "./check %s --replay {path}" % pid,
            "engine": "coq+correspondence",
            "level_claimed": {"category": "proof", "text": c["text"], "design_ref": c["design_ref"]},
            "level_note": c.get("note", PROOF_NOTE),
            "technique": c["technique"],
        })
    m = {
        "version": 1,
        "setup_cmd": "cd /verif && ./setup.sh",
        "hooks": {
            "guard": "IML130_PFDL_VERIF",
            "enable": "no hooks are needed: everything the checks observe is reachable through public attributes; "
                      "the guard name is reserved and unused",
            "baseline_off_cmd": "cd /repo && /venv/bin/python -m pytest -ra -q -p no:cacheprovider --timeout=900 --continue-on-collection-errors",
            "source_commits": [],
            "add_only": True,
        },
        "engines": [{"name": "coq+correspondence", "path": "/verif/check",
                     "serves_properties": [c["property_id"] for c in checks],
                     "kind_free_text": "Coq 8.16.1 development under /verif/coq (models, theorems, regenerated tables) + "
                                       "Python harness under /verif/harness that runs the implementation from /repo and "
                                       "evaluates the Gallina models on the same cases inside coqc"}],
        "checks": checks,
        "not_applicable": na,
        "notes": "fix: commits in /repo are listed in /verif/known_findings.json (status fixed) and DESIGN.md §8.",
    }
    with open(os.path.join(VERIF, "MANIFEST.json"), "w") as f:
        json.dump(m, f, indent=1)
    print("MANIFEST.json: %d checks, %d not_applicable" % (len(checks), len(na)))


if __name__ == "__main__":
    main()
