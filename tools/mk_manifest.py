#!/usr/bin/env python3
"""Writes MANIFEST.json from the table below (kept in one place so it stays valid)."""
import json
import os

VERIF = os.path.dirname(os.path.dirname(os.path.abspath(__file__)))

PROOF_NOTE = ("Trusted: Coq 8.16.1 kernel incl. vm_compute (no native_compute); no axioms (Print Assumptions of every "
              "property theorem: Closed under the global context); translator tools/gen_tables.py; Python harness "
              "(generators, canonicalisation, scripted execution engine); the theorems are about the Gallina models, "
              "which are tied to /repo by reflexivity obligations on regenerated tables and by a differential "
              "correspondence run (sampling, not proof) on every invocation.")

CLAIMS = {
    "C13": dict(
        text="Theorem C13_decision_is_truth_value (all expression trees, all valuations over Q/bool/struct values): "
             "whenever ordinary arithmetic/comparison/boolean semantics gives a guard a truth value, the model of "
             "Scheduler.check_expression decides exactly that value; the operator table is regenerated from "
             "helpers.py and proved equal to the modelled one. Precedence (text -> tree) is tied by correspondence "
             "only so far; the known finding D14 ('/' then '*') is reported as KNOWN-FINDING.",
        technique="Coq proof (structural induction on expressions) + regenerated operator table obligation + "
                  "differential correspondence on generated expressions",
        design_ref="DESIGN.md §9 C13"),
}

NOT_YET = "check not built yet in this revision (see DESIGN.md §11 staging); will be claimed when its theorem and correspondence slice exist"


def main():
    props = [json.loads(l) for l in open(os.path.join(VERIF, "properties.jsonl"))]
    checks = []
    na = []
    for p in props:
        pid = p["id"]
        c = CLAIMS.get(pid)
        if not c:
            na.append({"property_id": pid, "reason": NOT_YET})
            continue
        checks.append({
            "property_id": pid,
            "quick_cmd": "VERIF_TIER=quick ./check %s" % pid,
            "thorough_cmd": "VERIF_TIER=thorough ./check %s" % pid,
            "evidence_file": "/verif/evidence/%s.json" % pid,
            "replay_cmd_template": "./check %s --replay {path}" % pid,
            "engine": "coq+correspondence",
            "level_claimed": {"category": "proof", "text": c["text"], "design_ref": c["design_ref"]},
            "level_note": c.get("note", PROOF_NOTE),
            "technique": c["technique"],
        })
    m = {
        "version": 1,
        "setup_cmd": "cd /verif && ./setup.sh",
        "hooks": {
            "guard": "IML130_PFDL_VERIF",
            "enable": "no hooks are needed: everything the checks observe is reachable through public attributes; "
                      "the guard name is reserved and unused",
            "baseline_off_cmd": "cd /repo && /venv/bin/python -m pytest -ra -q -p no:cacheprovider --timeout=900 --continue-on-collection-errors",
            "source_commits": [],
            "add_only": True,
        },
        "engines": [{"name": "coq+correspondence", "path": "/verif/check",
                     "serves_properties": [c["property_id"] for c in checks],
                     "kind_free_text": "Coq 8.16.1 development under /verif/coq (models, theorems, regenerated tables) + "
                                       "Python harness under /verif/harness that runs the implementation from /repo and "
                                       "evaluates the Gallina models on the same cases inside coqc"}],
        "checks": checks,
        "not_applicable": na,
        "notes": "fix: commits in /repo are listed in /verif/known_findings.json (status fixed) and DESIGN.md §8.",
    }
    with open(os.path.join(VERIF, "MANIFEST.json"), "w") as f:
        json.dump(m, f, indent=1)
    print("MANIFEST.json: %d checks, %d not_applicable" % (len(checks), len(na)))


if __name__ == "__main__":
    main()
