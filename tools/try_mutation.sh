#!/bin/bash
# usage: tools/try_mutation.sh <dir with patch.diff and demo.py> <Cxx> [<Cyy> ...]
# Confirms a seeded change in a scratch worktree of /repo (suite still green, demo fails
# with it and passes without it), then runs the given checks against that worktree from a
# scratch COPY of /verif (so that regenerated tables, build output, evidence and replays of
# the trial never touch /verif itself).
set -u
M=$(readlink -f "$1"); shift
WT=$(mktemp -d /tmp/mt_XXXXXX)
VC=$(mktemp -d /tmp/vt_XXXXXX)
git -C /repo worktree add -f "$WT" HEAD >/dev/null 2>&1 || { echo "worktree failed"; exit 2; }
cleanup() { git -C /repo worktree remove --force "$WT" >/dev/null 2>&1; rm -rf "$WT" "$VC"; }
trap cleanup EXIT
cd "$WT"
export PYTHONPATH="$WT" PYTHONHASHSEED=0 PYTHONDONTWRITEBYTECODE=1
/venv/bin/python "$M/demo.py" >/dev/null 2>&1; echo "demo without change: exit $?"
git apply "$M/patch.diff" 2>/dev/null || git apply --3way "$M/patch.diff" 2>/dev/null || patch -p1 -F3 -s < "$M/patch.diff" || { echo "patch does not apply"; exit 2; }
/venv/bin/python "$M/demo.py" >/dev/null 2>&1; echo "demo with change: exit $?"
/venv/bin/python -m pytest -q -p no:cacheprovider --timeout=900 2>&1 | tail -1
rsync -a --exclude .git --exclude replays --exclude work --exclude seeded /verif/ "$VC/"
cd "$VC"
for p in "$@"; do
  PFDL_REPO="$WT" VERIF_TIER=${VERIF_TIER:-quick} ./check "$p" > "$WT/check_$p.log" 2>&1
  echo "check $p: exit $? :: $(grep -c '^VIOLATION' "$WT/check_$p.log") violation line(s) :: $(tail -1 "$WT/check_$p.log")"
  grep '^VIOLATION' "$WT/check_$p.log" | head -2
done
