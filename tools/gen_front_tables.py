#!/usr/bin/env python3
"""Translator for the front-end model: regenerates
  coq/Gen/Keywords.v    from pfdl_grammar/PFDLLexer.g4, cross-read with the tables of the
                        generated pfdl_scheduler/parser/PFDLLexer.py (literalNames,
                        symbolicNames, ruleNames, modeNames)
  coq/Gen/Precedence.v  from pfdl_scheduler/parser/PFDLParser.py (rule `expression`: the
                        alternatives with their precpred levels, expression_sempred, the
                        token set of binOperation), cross-read with PFDLParser.g4.
coq/Gen/ObligationsFront.v (hand-written) proves by reflexivity that these tables are the
ones the Front model is stated against.

Fail-closed: any source shape that is not recognised raises Unrecognised (exit 2)."""
import ast
import os
import re
import sys

VERIF = os.path.dirname(os.path.dirname(os.path.abspath(__file__)))
REPO = os.environ.get("PFDL_REPO", "/repo")
GEN = os.path.join(VERIF, "coq", "Gen")


class Unrecognised(Exception):
    pass


def write_if_changed(name, text):
    path = os.path.join(GEN, name)
    old = open(path).read() if os.path.exists(path) else None
    if old != text:
        with open(path, "w") as f:
            f.write(text)
        return True
    return False


def coq_string(s):
    if any(ord(c) > 126 or (ord(c) < 32) for c in s):
        raise Unrecognised("non-printable / non-ASCII character in a grammar rule: %r" % s)
    return '"' + s.replace('"', '""') + '"'


# ---------------------------------------------------------------------------------------
# lexer grammar
# ---------------------------------------------------------------------------------------
def strip_braced(src, start_re):
    """remove every block 'start_re { ... }' (balanced braces; string literals inside the
    block are Python/ANTLR code and may contain braces only in balanced form)"""
    out = []
    pos = 0
    blocks = []
    while True:
        m = re.compile(start_re).search(src, pos)
        if not m:
            out.append(src[pos:])
            break
        out.append(src[pos:m.start()])
        i = src.index("{", m.start())
        depth = 0
        j = i
        while j < len(src):
            if src[j] == "{":
                depth += 1
            elif src[j] == "}":
                depth -= 1
                if depth == 0:
                    break
            j += 1
        if depth != 0:
            raise Unrecognised("unbalanced braces after " + m.group(0))
        blocks.append((m.group(0), src[i + 1:j]))
        pos = j + 1
    return "".join(out), blocks


def split_rules(src):
    """split at ';' outside of quoted literals and character sets"""
    rules = []
    cur = []
    i = 0
    n = len(src)
    while i < n:
        c = src[i]
        if c == "'":
            j = i + 1
            while j < n and src[j] != "'":
                j += 2 if src[j] == "\\" else 1
            cur.append(src[i:j + 1])
            i = j + 1
            continue
        if c == "[":
            j = i + 1
            while j < n and src[j] != "]":
                j += 2 if src[j] == "\\" else 1
            cur.append(src[i:j + 1])
            i = j + 1
            continue
        if c == ";":
            rules.append("".join(cur).strip())
            cur = []
        else:
            cur.append(c)
        i += 1
    if "".join(cur).strip():
        raise Unrecognised("text after the last rule: %r" % "".join(cur).strip()[:60])
    return rules


def parse_lexer_grammar():
    path = os.path.join(REPO, "pfdl_grammar", "PFDLLexer.g4")
    src = open(path).read()
    # comments:  // ...   (no '//' occurs inside a literal of this grammar; checked below)
    lines = []
    for ln in src.split("\n"):
        k = ln.find("//")
        if k >= 0:
            if "'" in ln[:k] and ln[:k].count("'") % 2 == 1:
                raise Unrecognised("'//' inside a literal: " + ln)
            ln = ln[:k]
        lines.append(ln)
    src = "\n".join(lines)
    src, blocks = strip_braced(src, r"@lexer::\w+\s*(?=\{)|\btokens\s*(?=\{)")
    extra_tokens = []
    members = ""
    for head, body in blocks:
        if head.strip() == "tokens":
            extra_tokens = [t.strip() for t in body.split(",") if t.strip()]
        elif head.strip() == "@lexer::members":
            members = body
        elif head.strip() == "@lexer::header":
            pass
        else:
            raise Unrecognised("unknown block " + head)
    m = re.match(r"\s*lexer\s+grammar\s+(\w+)\s*;", src)
    if not m or m.group(1) != "PFDLLexer":
        raise Unrecognised("not 'lexer grammar PFDLLexer;'")
    body = src[m.end():]
    mode = "DEFAULT_MODE"
    modes = ["DEFAULT_MODE"]
    rules = []        # (mode, name, fragment?, body)
    for r in split_rules(body):
        mm = re.fullmatch(r"mode\s+(\w+)", r)
        if mm:
            mode = mm.group(1)
            modes.append(mode)
            continue
        mr = re.fullmatch(r"(fragment\s+)?([A-Z][A-Z0-9_]*)\s*:\s*(.*)", r, re.S)
        if not mr:
            raise Unrecognised("lexer rule not of the form NAME: body; -> %r" % r[:80])
        text = re.sub(r"\s+", " ", mr.group(3)).strip()
        rules.append((mode, mr.group(2), bool(mr.group(1)), text))
    # the denter instantiation in @lexer::members
    md = re.search(r"self\.PFDLDenter\(\s*self\s*,\s*self\.NL\s*,\s*PFDLLexer\.INDENT\s*,\s*PFDLLexer\.DEDENT\s*,"
                   r"\s*ignore_eof\s*=\s*(True|False)\s*\)", members)
    if not md:
        raise Unrecognised("@lexer::members: DenterHelper instantiation not recognised")
    if extra_tokens != ["INDENT", "DEDENT"]:
        raise Unrecognised("tokens { ... } is not INDENT, DEDENT: %r" % (extra_tokens,))
    return rules, modes, extra_tokens, md.group(1) == "True"


def class_attr_list(tree, cls, attr):
    for n in tree.body:
        if isinstance(n, ast.ClassDef) and n.name == cls:
            for b in n.body:
                if (isinstance(b, ast.Assign) and len(b.targets) == 1 and isinstance(b.targets[0], ast.Name)
                        and b.targets[0].id == attr):
                    if not isinstance(b.value, ast.List) or not all(
                            isinstance(e, ast.Constant) and isinstance(e.value, str) for e in b.value.elts):
                        raise Unrecognised("%s.%s is not a list of string literals" % (cls, attr))
                    return [e.value for e in b.value.elts]
    raise Unrecognised("%s.%s not found" % (cls, attr))


def gen_keywords():
    rules, modes, extra, ignore_eof = parse_lexer_grammar()
    ptree = ast.parse(open(os.path.join(REPO, "pfdl_scheduler", "parser", "PFDLLexer.py")).read())
    literal = class_attr_list(ptree, "PFDLLexer", "literalNames")
    symbolic = class_attr_list(ptree, "PFDLLexer", "symbolicNames")
    rule_names = class_attr_list(ptree, "PFDLLexer", "ruleNames")
    mode_names = class_attr_list(ptree, "PFDLLexer", "modeNames")
    # cross-reading: the generated lexer was generated from this grammar
    if mode_names != modes:
        raise Unrecognised("modeNames %r != modes of the grammar %r" % (mode_names, modes))
    if rule_names != [r[1] for r in rules]:
        raise Unrecognised("ruleNames of PFDLLexer.py differ from the rules of PFDLLexer.g4")
    if symbolic != ["<INVALID>"] + extra + [r[1] for r in rules if not r[2]]:
        raise Unrecognised("symbolicNames of PFDLLexer.py differ from tokens{} + non-fragment rules of PFDLLexer.g4")
    # literalNames: the literal of every rule that is a single literal not shared with another rule
    lit_of = {}
    for mode, name, frag, text in rules:
        m = re.fullmatch(r"('(?:[^'\\]|\\.)*')(\s*->\s*\w+(\(\w+\))?)?", text)
        if m and not frag:
            lit_of[name] = m.group(1)
    counts = {}
    for v in lit_of.values():
        counts[v] = counts.get(v, 0) + 1
    unique = [lit_of[r[1]] for r in rules if r[1] in lit_of and counts[lit_of[r[1]]] == 1]
    if literal != ["<INVALID>"] + unique:
        raise Unrecognised("literalNames of PFDLLexer.py are not the unique literals of PFDLLexer.g4 in rule order")
    text = ("(* GENERATED by tools/gen_front_tables.py from pfdl_grammar/PFDLLexer.g4 (cross-read with\n"
            "   pfdl_scheduler/parser/PFDLLexer.py) — do not edit *)\n"
            "From Coq Require Import String List.\nImport ListNotations.\nOpen Scope string_scope.\n\n"
            "(* (mode, rule name, body) of every lexer rule, fragments marked by the prefix \"fragment \" *)\n"
            "Definition lexer_rules_from_source : list (string * string * string) :=\n  [ "
            + ";\n    ".join("(%s, %s, %s)" % (coq_string(m), coq_string(("fragment " if f else "") + n), coq_string(t))
                             for m, n, f, t in rules)
            + " ].\n\n"
            "Definition lexer_modes_from_source : list string := [ "
            + "; ".join(coq_string(m) for m in modes) + " ].\n\n"
            "(* tokens { ... }: synthesised by the denter *)\n"
            "Definition denter_tokens_from_source : list string := [ "
            + "; ".join(coq_string(t) for t in extra) + " ].\n\n"
            "(* DenterHelper(self.NL, INDENT, DEDENT, ignore_eof=...) *)\n"
            "Definition denter_ignore_eof_from_source : bool := %s.\n" % ("true" if ignore_eof else "false"))
    return write_if_changed("Keywords.v", text)


# ---------------------------------------------------------------------------------------
# parser: rule `expression`
# ---------------------------------------------------------------------------------------
def find_method(tree, cls, name, nargs=None):
    for n in tree.body:
        if isinstance(n, ast.ClassDef) and n.name == cls:
            ms = [b for b in n.body if isinstance(b, ast.FunctionDef) and b.name == name
                  and (nargs is None or len(b.args.args) == nargs)]
            if len(ms) != 1:
                raise Unrecognised("%s.%s: %d definitions" % (cls, name, len(ms)))
            return ms[0]
    raise Unrecognised("class %s not found" % cls)


def is_self_call(node, name):
    return (isinstance(node, ast.Call) and isinstance(node.func, ast.Attribute)
            and isinstance(node.func.value, ast.Name) and node.func.value.id == "self" and node.func.attr == name)


def parser_token(node):
    if (isinstance(node, ast.Attribute) and isinstance(node.value, ast.Name) and node.value.id == "PFDLParser"):
        return node.attr
    raise Unrecognised("not a PFDLParser.<TOKEN>: " + ast.dump(node)[:100])


def calls_in(stmts):
    out = []
    for s in stmts:
        for n in ast.walk(s):
            if isinstance(n, ast.Call):
                out.append(n)
    return out


def int_const(node):
    if isinstance(node, ast.Constant) and isinstance(node.value, int) and not isinstance(node.value, bool):
        return node.value
    raise Unrecognised("not an integer literal: " + ast.dump(node)[:80])


def gen_precedence():
    src = open(os.path.join(REPO, "pfdl_scheduler", "parser", "PFDLParser.py")).read()
    tree = ast.parse(src)
    fn = find_method(tree, "PFDLParser", "expression", nargs=2)
    if fn.args.args[1].arg != "_p":
        raise Unrecognised("expression: second argument is not _p")
    # ---- the primary alternatives: 'if token in [...]' chain ----
    prim = None
    for n in ast.walk(fn):
        if (isinstance(n, ast.If) and isinstance(n.test, ast.Compare) and isinstance(n.test.left, ast.Name)
                and n.test.left.id == "token" and isinstance(n.test.ops[0], ast.In)):
            prim = n
            break
    if prim is None:
        raise Unrecognised("expression: primary alternatives ('if token in [...]') not found")
    primaries = []
    node = prim
    while True:
        toks = [parser_token(e) for e in node.test.comparators[0].elts]
        calls = [s.value for s in node.body if isinstance(s, ast.Expr) and isinstance(s.value, ast.Call)]
        shape = []
        for c in calls:
            if is_self_call(c, "match"):
                shape.append("match:" + parser_token(c.args[0]))
            elif is_self_call(c, "expression"):
                shape.append("expression:%d" % int_const(c.args[0]))
            elif isinstance(c.func, ast.Attribute) and isinstance(c.func.value, ast.Name) and c.func.value.id == "self" \
                    and c.func.attr in ("unOperation", "value"):
                shape.append(c.func.attr)
            elif isinstance(c.func, ast.Attribute) and c.func.attr == "sync":
                pass
            else:
                raise Unrecognised("expression: unexpected call in a primary alternative: " + ast.dump(c)[:100])
        primaries.append((toks, shape))
        if len(node.orelse) == 1 and isinstance(node.orelse[0], ast.If) and isinstance(node.orelse[0].test, ast.Compare) \
                and isinstance(node.orelse[0].test.left, ast.Name) and node.orelse[0].test.left.id == "token":
            node = node.orelse[0]
        else:
            if not (len(node.orelse) == 1 and isinstance(node.orelse[0], ast.Raise)):
                raise Unrecognised("expression: primary chain does not end with raise NoViableAltException")
            break
    paren = [p for p in primaries if p[0] == ["LEFT_PARENTHESIS"]]
    neg = [p for p in primaries if p[0] == ["BOOLEAN_NOT"]]
    val = [p for p in primaries if p[1] == ["value"]]
    if len(primaries) != 3 or len(paren) != 1 or len(neg) != 1 or len(val) != 1:
        raise Unrecognised("expression: primary alternatives are not ( expr ) | unOperation expr | value: %r" % (primaries,))
    if paren[0][1][0] != "match:LEFT_PARENTHESIS" or paren[0][1][2] != "match:RIGHT_PARENTHESIS" \
            or not paren[0][1][1].startswith("expression:"):
        raise Unrecognised("expression: parenthesis alternative %r" % (paren[0][1],))
    paren_level = int(paren[0][1][1].split(":")[1])
    if len(neg[0][1]) != 2 or neg[0][1][0] != "unOperation" or not neg[0][1][1].startswith("expression:"):
        raise Unrecognised("expression: negation alternative %r" % (neg[0][1],))
    not_level = int(neg[0][1][1].split(":")[1])
    value_first = val[0][0]
    # ---- the binary alternatives: 'if la_ == k' chain ----
    first = None
    for n in ast.walk(fn):
        if (isinstance(n, ast.If) and isinstance(n.test, ast.Compare) and isinstance(n.test.left, ast.Name)
                and n.test.left.id == "la_"):
            first = n
            break
    if first is None:
        raise Unrecognised("expression: binary alternatives ('if la_ == k') not found")
    levels = []
    node = first
    k = 1
    while True:
        if int_const(node.test.comparators[0]) != k:
            raise Unrecognised("expression: alternatives not numbered consecutively")
        pp = [c for c in calls_in(node.body) if is_self_call(c, "precpred")]
        if len(pp) != 1:
            raise Unrecognised("expression: alternative %d has %d precpred calls" % (k, len(pp)))
        lv = int_const(pp[0].args[1])
        ops = []
        rhs = []
        for s in node.body:
            if isinstance(s, ast.Expr) and isinstance(s.value, ast.Call):
                c = s.value
                if is_self_call(c, "match"):
                    ops.append(parser_token(c.args[0]))
                elif is_self_call(c, "binOperation"):
                    ops.append("binOperation")
                elif is_self_call(c, "expression"):
                    rhs.append(int_const(c.args[0]))
                elif is_self_call(c, "pushNewRecursionContext"):
                    pass
                else:
                    raise Unrecognised("expression: unexpected call in alternative %d: %s" % (k, ast.dump(c)[:100]))
        if len(ops) != 1 or len(rhs) != 1:
            raise Unrecognised("expression: alternative %d is not 'expression OP expression'" % k)
        levels.append((ops[0], lv, rhs[0]))
        k += 1
        if len(node.orelse) == 1 and isinstance(node.orelse[0], ast.If):
            node = node.orelse[0]
        elif not node.orelse:
            break
        else:
            raise Unrecognised("expression: unexpected else branch")
    # ---- expression_sempred must list the same levels in the same order ----
    sp = find_method(tree, "PFDLParser", "expression_sempred")
    sem = []
    for n in sp.body:
        if not (isinstance(n, ast.If) and isinstance(n.test, ast.Compare) and isinstance(n.test.left, ast.Name)
                and n.test.left.id == "predIndex" and int_const(n.test.comparators[0]) == len(sem)
                and len(n.body) == 1 and isinstance(n.body[0], ast.Return) and is_self_call(n.body[0].value, "precpred")):
            raise Unrecognised("expression_sempred: unexpected statement " + ast.dump(n)[:100])
        sem.append(int_const(n.body[0].value.args[1]))
    if sem != [lv for _, lv, _ in levels]:
        raise Unrecognised("expression_sempred levels %r differ from those of expression %r" % (sem, levels))
    # ---- binOperation: the token set ----
    bo = find_method(tree, "PFDLParser", "binOperation")
    shifts = []
    for n in ast.walk(bo):
        if isinstance(n, ast.BinOp) and isinstance(n.op, ast.LShift) and isinstance(n.left, ast.Constant) \
                and n.left.value == 1 and isinstance(n.right, ast.Attribute):
            shifts.append((n.lineno, n.col_offset, parser_token(n.right)))
    binop_tokens = list(dict.fromkeys(t for _, _, t in sorted(shifts)))
    if not binop_tokens:
        raise Unrecognised("binOperation: token set not found")
    # ---- cross-reading with the grammar ----
    g = open(os.path.join(REPO, "pfdl_grammar", "PFDLParser.g4")).read()
    g = re.sub(r"//[^\n]*", "", g)
    m = re.search(r"\bexpression\s*:(.*?);", g, re.S)
    if not m:
        raise Unrecognised("PFDLParser.g4: rule expression not found")
    alts = [re.sub(r"\s+", " ", a).strip() for a in m.group(1).split("|")]
    bin_alts = [a.split()[1] for a in alts if re.fullmatch(r"expression \w+ expression", a)]
    if bin_alts != [op for op, _, _ in levels]:
        raise Unrecognised("PFDLParser.g4: binary alternatives %r differ from PFDLParser.py %r" % (bin_alts, levels))
    mb = re.search(r"\bbinOperation\s*:(.*?);", g, re.S)
    if not mb or [x.strip() for x in mb.group(1).split("|")] != binop_tokens:
        raise Unrecognised("PFDLParser.g4: binOperation differs from PFDLParser.py")
    text = ("(* GENERATED by tools/gen_front_tables.py from pfdl_scheduler/parser/PFDLParser.py (cross-read with\n"
            "   pfdl_grammar/PFDLParser.g4) — do not edit *)\n"
            "From Coq Require Import String List.\nImport ListNotations.\nOpen Scope string_scope.\n\n"
            "(* rule expression, alternatives 'expression OP expression' in source order:\n"
            "   (operator token or rule, level k of precpred(_ctx, k), level passed to the right operand) *)\n"
            "Definition expression_levels_from_source : list (string * nat * nat) :=\n  [ "
            + ";\n    ".join("(%s, %d, %d)" % (coq_string(o), lv, rhs) for o, lv, rhs in levels) + " ].\n\n"
            "(* 'unOperation expression': level passed to the operand *)\n"
            "Definition not_level_from_source : nat := %d.\n\n"
            "(* '( expression )': level passed to the inner expression *)\n"
            "Definition paren_level_from_source : nat := %d.\n\n"
            "(* first tokens of the alternative 'value' *)\n"
            "Definition value_first_from_source : list string := [ %s ].\n\n"
            "(* rule binOperation *)\n"
            "Definition binop_tokens_from_source : list string := [ %s ].\n"
            % (not_level, paren_level, "; ".join(coq_string(t) for t in value_first),
               "; ".join(coq_string(t) for t in binop_tokens)))
    return write_if_changed("Precedence.v", text)


def generate():
    """-> list of regenerated file names; raises Unrecognised"""
    os.makedirs(GEN, exist_ok=True)
    changed = []
    for name, fn in (("Keywords.v", gen_keywords), ("Precedence.v", gen_precedence)):
        if fn():
            changed.append(name)
    return changed


def main():
    try:
        changed = generate()
    except Unrecognised as e:
        print("TRANSLATOR: source shape not recognised: %s" % e)
        return 2
    print("gen_front_tables: regenerated %s" % (changed or "nothing (unchanged)"))
    return 0


if __name__ == "__main__":
    sys.exit(main())
