#!/venv/bin/python
"""Builds the committed corpus (corpus/*.json) of hand-written `run` cases: the witnesses
of the known findings and of the defects repaired by fix: commits.  Run by hand when the
corpus is extended; the checks only read the corpus."""
import json
import os
import random
import sys
import tempfile
from fractions import Fraction as F

HERE = os.path.dirname(os.path.abspath(__file__))
sys.path.insert(0, os.path.join(os.path.dirname(HERE), "harness"))
import common  # noqa: E402
import gen_run  # noqa: E402
import run_cases  # noqa: E402

STRUCTS = [dict(s) for s in gen_run.STRUCTS]


def task(name, body, ins=()):
    return {"name": name, "ins": list(ins), "body": body, "outs": []}


def svc(n, ins=(), outs=()):
    return ("service", n, list(ins), list(outs))


def call(n, ins=()):
    return ("call", n, list(ins), [])


def ploop(v, lim, callee, ins=()):
    return ("count", True, v, lim, [call(callee, ins)])


def loop(v, lim, body):
    return ("count", False, v, lim, body)


D_OUT = [("d", ("plain", "Data"))]
ITEM_I = lambda v: ("path", "d", [("f", "items"), ("iv", v)])  # noqa: E731


def val(**kw):
    v = dict(gen_run.FINAL_VALUATION["*"])
    v["inner"] = dict(v["inner"])
    v.update(kw)
    return {"*": v}


CASES = {
    # ---- known findings: the parallel-loop special case of evaluate_petri_net (D7) ----
    "D7a-parloop-shared-entry": dict(
        finding="D7-parloop-shared-entry", properties=["C06", "C01", "C02", "C03", "C07"],
        tasks=[task("productionTask", [svc("S0"), ("parallel", [("tA", [], []), ("tA", [], [])]), svc("S9")]),
               task("tA", [ploop("i", ("int", 2), "tB"), svc("S1")]),
               task("tB", [svc("S2")])],
        vals=[val()], order="fifo"),
    "D7c-parloop-inside-loop": dict(
        finding="D7-parloop-inside-loop", properties=["C06", "C01", "C02", "C05", "C07"],
        tasks=[task("productionTask", [loop("k", ("int", 2), [ploop("i", ("int", 2), "tB"), svc("S1")]), svc("S9")]),
               task("tB", [svc("S2")])],
        vals=[val()], order="fifo"),
    "D7d-parloop-tail-of-branch": dict(
        finding="D7-parloop-tail-of-branch", properties=["C06", "C07", "C03"],
        tasks=[task("productionTask", [("parallel", [("tA", [], []), ("tC", [], [])]), svc("S9")]),
               task("tA", [svc("S1"), ploop("i", ("int", 2), "tB")]),
               task("tB", [svc("S2")]),
               task("tC", [svc("S3"), svc("S4")])],
        vals=[val()], order="fifo"),
    "D20-reentrant-in-finished": dict(
        finding="D20-reentrant-in-finished", properties=["C07", "C01"],
        tasks=[task("productionTask", [("parallel", [("tA", [], []), ("tB", [], [])])]),
               task("tA", [svc("S1")]), task("tB", [svc("S2")])],
        vals=[val()], order="fifo", react=[None, None, None, None, None, 0] + [None] * 20, react_all=True),
    "D26-reentrant-extra-listener": dict(
        finding="D26-reentrant-extra-listener", properties=["C20", "C17", "C14"],
        tasks=[task("productionTask", [loop("i", ("int", 2), [svc("S1")])])],
        vals=[val()], order="fifo", imm=[True] + [False] * 39, pre_script=[("register", "SS", 1)]),
    # ---- defects repaired by fix: commits (a failure here is an ordinary violation) ----
    "D1-parloop-zero": dict(
        fixed="D1", properties=["C06", "C01", "C09"],
        tasks=[task("productionTask", [svc("S0"), ploop("i", ("int", 0), "tB"), svc("S9")]),
               task("tB", [svc("S2")])],
        vals=[val()], order="fifo"),
    "D2-running-sync": dict(
        fixed="D2", properties=["C01", "C08"],
        tasks=[task("productionTask", [("cond", ("bool", False), [svc("S1")], [])])],
        vals=[val()], order="fifo", extra_script=[("start",)]),
    "D3-counter-reset": dict(
        fixed="D3", properties=["C05", "C01"],
        tasks=[task("productionTask", [loop("a", ("int", 2), [loop("b", ("int", 2), [svc("S1")])])])],
        vals=[val()], order="fifo"),
    "D4-seq-index": dict(
        fixed="D4", properties=["C15"],
        tasks=[task("productionTask", [svc("S0", outs=D_OUT), loop("i", ("int", 2), [svc("S1", ins=[ITEM_I("i")]), call("tB", [ITEM_I("i")])])]),
               task("tB", [svc("S2", ins=[("var", "p0")])], ins=[("p0", ("plain", "Item"))])],
        vals=[val()], order="fifo"),
    "D5-parloop-index": dict(
        fixed="D5", properties=["C15", "C14"],
        tasks=[task("productionTask", [svc("S0", outs=D_OUT), ploop("i", ("int", 3), "tB", [ITEM_I("i")]), svc("S9")]),
               task("tB", [svc("S2", ins=[("var", "p0")])], ins=[("p0", ("plain", "Item"))])],
        vals=[val()], order="lifo", test_ids=False),
    "D6-mixed-params": dict(
        fixed="D6", properties=["C15", "C12"],
        tasks=[task("productionTask", [svc("S0", outs=D_OUT),
                                       svc("S1", ins=[("lit", "Item", ("obj", [("v", ("num", F(1)))])), ("var", "d"),
                                                      ("lit", "Item", ("obj", [("v", ("num", F(2)))])), ("path", "d", [("f", "inner")])])])],
        vals=[val()], order="fifo"),
    "D17-hostile-clear": dict(
        fixed="D17", properties=["C15"],
        tasks=[task("productionTask", [svc("S0", outs=D_OUT), loop("i", ("int", 3), [svc("S1", ins=[ITEM_I("i"), ("var", "d")])])])],
        vals=[val()], order="fifo", mutate="clear"),
    "D17b-hostile-empty-params": dict(
        fixed="D17b", properties=["C15"],
        tasks=[task("productionTask", [loop("i", ("int", 3), [svc("S1", outs=D_OUT)])])],
        vals=[val()], order="fifo", mutate="append"),
    "D19-parallel-in-called-task": dict(
        fixed="D19", properties=["C03", "C01", "C09"],
        tasks=[task("productionTask", [call("tA"), svc("S9")]),
               task("tA", [("parallel", [("tB", [], []), ("tB", [], [])]), svc("S1")]),
               task("tB", [svc("S2")])],
        vals=[val()], order="lifo"),
}


def build(name, spec):
    prog = {"structs": STRUCTS, "tasks": spec["tasks"]}
    case = {"prog": prog, "vals": spec["vals"] + [gen_run.FINAL_VALUATION], "imm": spec.get("imm", [False] * 40),
            "react": spec.get("react"), "react_all": spec.get("react_all", False)}
    test_ids = spec.get("test_ids", True)
    mutate = spec.get("mutate", False)
    # derive the script by driving the implementation: complete pending services fifo / lifo
    import impl_run
    text = run_cases.render(prog)
    run = impl_run.ImplRun(text, case["vals"], case["imm"], test_ids=test_ids, mutate=mutate,
                           react=case["react"], react_all=case["react_all"])
    assert run.valid, run.stdout
    script = list(spec.get("pre_script", [])) + [("start",)]
    pending = []
    exc = None

    def note(rec):
        for e in rec["log"]:
            if e[0] == "notif" and e[1] == 0 and e[2] == "SS":
                pending.append(e[5])
            if e[0] == "notif" and e[1] == 0 and e[2] == "SF" and e[5] in pending:
                pending.remove(e[5])
    try:
        for op in spec.get("pre_script", []):
            run.call(op)
        note(run.call(("start",)))
        n = 0
        while pending and n < 60:
            n += 1
            sid = pending[0] if spec["order"] == "fifo" else pending[-1]
            script.append(("finish", sid))
            rec = run.call(("finish", sid))
            if not rec["ret"]:
                pending.remove(sid)
            note(rec)
    except Exception as e:  # noqa: BLE001
        exc = type(e).__name__
    script += spec.get("extra_script", [])
    out = {"kind": "run", "properties": spec["properties"], "prog": prog, "vals": case["vals"], "imm": case["imm"],
           "script": script, "options": {"test_ids": test_ids, "mutate": mutate},
           "react": case["react"], "react_all": case["react_all"],
           "program_text": text, "note": "implementation raised %s while the script was derived" % exc if exc else ""}
    if "finding" in spec:
        out["finding"] = spec["finding"]
    if "fixed" in spec:
        out["fixed"] = spec["fixed"]
    path = os.path.join(common.VERIF, "corpus", name + ".json")
    with open(path, "w") as f:
        json.dump(common.enc(out), f, indent=1, sort_keys=True)
    return path, len(script), exc


if __name__ == "__main__":
    d = tempfile.mkdtemp(prefix="pfdl_corpus_")
    os.chdir(d)
    for name, spec in CASES.items():
        if len(sys.argv) > 1 and name not in sys.argv[1:]:
            continue
        print(name, build(name, spec))
    import shutil
    shutil.rmtree(d, ignore_errors=True)
