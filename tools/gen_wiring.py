#!/usr/bin/env python3
"""Translator for petri_net/generator.py: the ordered net-construction operations of every
generate_* method (create_place / create_transition / add_input / add_output / add_callback /
place_dict / API-object creation / recursive generation / for / if / return), with local
names replaced by v0, v1, ... in order of first occurrence (parameters first), are
regenerated into coq/Gen/Wiring.v as a Gallina term.  coq/Gen/ObligationsWiring.v proves it
equal to the table coq/NetWiring.v records (the table NetModel.v was transliterated from).
Also regenerated: digests of the normalised ASTs of the few control-flow functions that
NetModel.v transliterates by hand (evaluate_petri_net, both fire_event, start,
generate_statements).

Fail-closed: a statement shape that is neither translated nor on the explicit ignore list
raises Unrecognised."""
import ast
import hashlib
import os

REPO = os.environ.get("PFDL_REPO", "/repo")

METHODS = ["generate_petri_net", "generate_service", "generate_task_call", "generate_parallel",
           "generate_condition", "generate_counting_loop", "generate_parallel_loop",
           "generate_while_loop", "generate_empty_parallel_loop", "remove_place_on_runtime"]

DIGESTS = [("petri_net/logic.py", "PetriNetLogic", "evaluate_petri_net"),
           ("petri_net/logic.py", "PetriNetLogic", "fire_event"),
           ("petri_net/generator.py", "PetriNetGenerator", "generate_statements"),
           ("petri_net/generator.py", "PetriNetGenerator", "add_callback"),
           ("scheduler.py", "Scheduler", "fire_event"),
           ("scheduler.py", "Scheduler", "_fire_event"),
           ("scheduler.py", "Scheduler", "start"),
           ("scheduler.py", "Scheduler", "on_task_started"),
           ("scheduler.py", "Scheduler", "on_service_started"),
           ("scheduler.py", "Scheduler", "on_service_finished"),
           ("scheduler.py", "Scheduler", "on_task_finished"),
           ("scheduler.py", "Scheduler", "on_condition_started"),
           ("scheduler.py", "Scheduler", "on_while_loop_started"),
           ("scheduler.py", "Scheduler", "on_counting_loop_started"),
           ("scheduler.py", "Scheduler", "on_parallel_loop_started"),
           ("scheduler.py", "Scheduler", "substitute_loop_indexes"),
           ("scheduler.py", "Scheduler", "get_loop_limit"),
           ("scheduler.py", "Scheduler", "attach"),
           ("scheduler.py", "Scheduler", "detach"),
           ("scheduler.py", "Scheduler", "notify"),
           ("scheduler.py", "Scheduler", "register_callback_task_started"),
           ("scheduler.py", "Scheduler", "register_callback_service_started"),
           ("scheduler.py", "Scheduler", "register_callback_service_finished"),
           ("scheduler.py", "Scheduler", "register_callback_task_finished"),
           ("scheduler.py", "Scheduler", "register_variable_access_function"),
           ("scheduler.py", "Scheduler", "register_for_petrinet_callbacks"),
           ("scheduler.py", "Scheduler", "check_expression"),
           ("scheduler.py", "Scheduler", "execute_expression")]


class Unrecognised(Exception):
    pass


def strip_doc(body):
    if body and isinstance(body[0], ast.Expr) and isinstance(body[0].value, ast.Constant) \
            and isinstance(body[0].value.value, str):
        return body[1:]
    return body


def find_method(tree, cls, name):
    for n in tree.body:
        if isinstance(n, ast.ClassDef) and n.name == cls:
            for m in n.body:
                if isinstance(m, ast.FunctionDef) and m.name == name:
                    return m
    raise Unrecognised("%s.%s not found" % (cls, name))


class Namer:
    def __init__(self, params):
        self.tab = {}
        for p in params:
            self.get(p)

    def get(self, name):
        if name not in self.tab:
            self.tab[name] = "v%d" % len(self.tab)
        return self.tab[name]


def src(node, nm):
    """canonical text of a small expression: names renamed, attributes / constants kept"""
    if isinstance(node, ast.Name):
        return nm.get(node.id)
    if isinstance(node, ast.Attribute):
        if isinstance(node.value, ast.Name) and node.value.id == "self":
            return "self." + node.attr
        return src(node.value, nm) + "." + node.attr
    if isinstance(node, ast.Constant):
        return repr(node.value)
    if isinstance(node, ast.Subscript):
        return src(node.value, nm) + "[" + src(node.slice, nm) + "]"
    if isinstance(node, ast.List):
        return "[" + ",".join(src(e, nm) for e in node.elts) + "]"
    if isinstance(node, ast.BinOp) and isinstance(node.op, ast.Add):
        return "(" + src(node.left, nm) + "+" + src(node.right, nm) + ")"
    if isinstance(node, ast.Call):
        return src(node.func, nm) + "(" + ",".join(src(a, nm) for a in node.args) + ")"
    raise Unrecognised("expression " + ast.dump(node)[:120])


def is_call(node, *path):
    """node is a call to a.b.c (path given as names)"""
    if not isinstance(node, ast.Call):
        return False
    f = node.func
    parts = []
    while isinstance(f, ast.Attribute):
        parts.append(f.attr)
        f = f.value
    if isinstance(f, ast.Name):
        parts.append(f.id)
    return list(reversed(parts)) == list(path)


IGNORED_CALLS = {("str",), ("Node",), ("Cluster",), ("uuid", "uuid4")}


def ignorable_value(v):
    """right-hand sides without effect on the net: identifiers for drawing, clusters, nodes"""
    if isinstance(v, ast.Call):
        if is_call(v, "str") and len(v.args) == 1 and is_call(v.args[0], "uuid", "uuid4"):
            return True
        if is_call(v, "Node") or is_call(v, "Cluster"):
            return True
    if isinstance(v, ast.Constant) and isinstance(v.value, str):
        return True
    return False


def ops_of(body, nm, args_env):
    out = []
    for st in strip_doc(body):
        out.extend(op_of(st, nm, args_env))
    return out


def cb_args(call, nm, args_env):
    res = []
    for a in call.args[2:]:
        if isinstance(a, ast.Starred):
            if not (isinstance(a.value, ast.Name) and a.value.id in args_env):
                raise Unrecognised("starred callback arguments of unknown tuple")
            res.extend(args_env[a.value.id])
        else:
            res.append(src(a, nm))
    return res


def op_of(st, nm, args_env):
    # ---- assignments --------------------------------------------------------------
    if isinstance(st, ast.AnnAssign) and st.value is not None:
        st = ast.Assign(targets=[st.target], value=st.value)
    if isinstance(st, ast.Assign) and len(st.targets) == 1:
        tgt, v = st.targets[0], st.value
        if isinstance(tgt, ast.Name):
            if is_call(v, "create_place"):
                return [("WPlace", nm.get(tgt.id))]
            if is_call(v, "create_transition"):
                return [("WTrans", nm.get(tgt.id))]
            if is_call(v, "ServiceAPI"):
                kw = {k.arg: src(k.value, nm) for k in v.keywords}
                return [("WApi", nm.get(tgt.id), "service", kw.get("in_loop", "False"))]
            if is_call(v, "TaskAPI"):
                kw = {k.arg: src(k.value, nm) for k in v.keywords}
                kind = "task" if "task_call" in kw else "root"
                return [("WApi", nm.get(tgt.id), kind, kw.get("in_loop", "False"))]
            if is_call(v, "self", "generate_statements"):
                a = v.args
                inloop = src(a[5], nm) if len(a) > 5 else "False"
                return [("WBody", nm.get(tgt.id), src(a[1], nm), src(a[2], nm), src(a[3], nm), inloop)]
            if isinstance(v, ast.Tuple):          # args = (a, b, c) for a later add_callback(*args)
                args_env[tgt.id] = [src(e, nm) for e in v.elts]
                return []
            if ignorable_value(v):
                nm.get(tgt.id)
                return []
            if isinstance(v, ast.Subscript) or isinstance(v, ast.Attribute):
                # start_task = process.tasks[...], called_task = self.tasks[task_call.name], ...
                return [("WLet", nm.get(tgt.id), src(v, nm))]
        if isinstance(tgt, ast.Attribute):
            t = src(tgt, nm)
            if t.endswith(".cluster") or t in ("self.tree", "self.tasks"):
                return []
            if is_call(v, "create_place"):
                return [("WPlace", t)]
            if t.endswith(".uuid"):
                return [("WSet", t, src(v, nm))]
        if isinstance(tgt, ast.Subscript) and src(tgt.value, nm) == "self.place_dict":
            return [("WDict", src(tgt.slice, nm), src(v, nm))]
        raise Unrecognised("assignment " + ast.unparse(st)[:120])
    # ---- expression statements ------------------------------------------------------
    if isinstance(st, ast.Expr) and isinstance(st.value, ast.Call):
        c = st.value
        if is_call(c, "self", "net", "add_input"):
            return [("WIn", src(c.args[0], nm), src(c.args[1], nm))]
        if is_call(c, "self", "net", "add_output"):
            return [("WOut", src(c.args[0], nm), src(c.args[1], nm))]
        if is_call(c, "self", "add_callback"):
            k = c.args[1]
            if not (isinstance(k, ast.Attribute) and src(k.value, nm) == "self.callbacks"):
                raise Unrecognised("callback kind " + ast.unparse(k))
            return [("WCb", src(c.args[0], nm), k.attr, cb_args(c, nm, args_env))]
        if is_call(c, "self", "generate_statements"):
            a = c.args
            inloop = src(a[5], nm) if len(a) > 5 else "False"
            return [("WBody", "_", src(a[1], nm), src(a[2], nm), src(a[3], nm), inloop)]
        if is_call(c, "self", "generate_task_call"):
            a = c.args
            inloop = src(a[5], nm) if len(a) > 5 else "False"
            return [("WCall", src(a[0], nm), src(a[2], nm), src(a[3], nm), inloop)]
        if is_call(c, "self", "net", "remove_place"):
            return [("WRemove", src(c.args[0], nm))]
        f = ast.unparse(c.func)
        if f.endswith(".add_child") or f.endswith(".add_node") or f in ("draw_petri_net",):
            return []
        raise Unrecognised("call " + ast.unparse(st)[:120])
    # ---- control flow ---------------------------------------------------------------
    if isinstance(st, ast.For):
        if not isinstance(st.target, ast.Name) or st.orelse:
            raise Unrecognised("for " + ast.unparse(st)[:80])
        over = src(st.iter, nm)
        nm.get(st.target.id)
        return [("WFor", over, ops_of(st.body, nm, args_env))]
    if isinstance(st, ast.If):
        test = ast.unparse(st.test)
        if test == "self.draw_net":
            return []          # drawing: no effect on the net
        return [("WIf", src(st.test, nm), ops_of(st.body, nm, args_env), ops_of(st.orelse, nm, args_env))]
    if isinstance(st, ast.Return):
        v = st.value
        if v is None:
            return [("WRet", [])]
        if isinstance(v, ast.List):
            return [("WRet", [src(e, nm) for e in v.elts])]
        if is_call(v, "self", "generate_parallel_loop"):
            return [("WRetCall", "generate_parallel_loop")]
        return [("WRet", [src(v, nm)])]
    if isinstance(st, ast.With):
        return []              # file output of the drawing
    raise Unrecognised("statement " + ast.unparse(st)[:120])


def coq_str(s):
    return '"' + s.replace('"', '""') + '"'


def coq_list(xs):
    return "[" + "; ".join(xs) + "]"


def coq_op(op):
    k = op[0]
    if k in ("WPlace", "WTrans", "WRemove"):
        return "%s %s" % (k, coq_str(op[1]))
    if k in ("WIn", "WOut", "WLet", "WSet", "WDict"):
        return "%s %s %s" % (k, coq_str(op[1]), coq_str(op[2]))
    if k == "WCb":
        return "WCb %s %s %s" % (coq_str(op[1]), coq_str(op[2]), coq_list([coq_str(a) for a in op[3]]))
    if k == "WApi":
        return "WApi %s %s %s" % (coq_str(op[1]), coq_str(op[2]), coq_str(op[3]))
    if k == "WBody":
        return "WBody " + " ".join(coq_str(x) for x in op[1:])
    if k == "WCall":
        return "WCall " + " ".join(coq_str(x) for x in op[1:])
    if k == "WFor":
        return "WFor %s %s" % (coq_str(op[1]), coq_ops(op[2]))
    if k == "WIf":
        return "WIf %s %s %s" % (coq_str(op[1]), coq_ops(op[2]), coq_ops(op[3]))
    if k == "WRet":
        return "WRet %s" % coq_list([coq_str(a) for a in op[1]])
    if k == "WRetCall":
        return "WRetCall %s" % coq_str(op[1])
    raise Unrecognised(k)


def coq_ops(ops):
    return "[" + ";\n      ".join("(%s)" % coq_op(o) if " " in coq_op(o) else coq_op(o) for o in ops) + "]"


def digest_of(fn):
    body = strip_doc(fn.body)
    # docstrings of nested statements and logging do not occur in these functions
    text = "\n".join(ast.dump(s, annotate_fields=False, include_attributes=False) for s in body)
    args = ",".join(a.arg for a in fn.args.args)
    return hashlib.sha256((args + "\n" + text).encode()).hexdigest()[:32]


def generate():
    base = os.path.join(REPO, "pfdl_scheduler")
    gsrc = open(os.path.join(base, "petri_net", "generator.py")).read()
    gtree = ast.parse(gsrc)
    entries = []
    comments = []
    for m in METHODS:
        fn = find_method(gtree, "PetriNetGenerator", m)
        params = [a.arg for a in fn.args.args if a.arg != "self"]
        nm = Namer(params)
        ops = ops_of(fn.body, nm, {})
        entries.append("  (%s,\n     %s)" % (coq_str(m), coq_ops(ops)))
        comments.append("   %s: %s" % (m, ", ".join("%s=%s" % (v, k) for k, v in nm.tab.items())))
    trees = {}
    digs = []
    for rel, cls, name in DIGESTS:
        if rel not in trees:
            trees[rel] = ast.parse(open(os.path.join(base, rel)).read())
        digs.append("  (%s, %s)" % (coq_str("%s:%s.%s" % (rel, cls, name)), coq_str(digest_of(find_method(trees[rel], cls, name)))))
    text = ("(* GENERATED by tools/gen_wiring.py from pfdl_scheduler/petri_net/generator.py, logic.py and\n"
            "   scheduler.py - do not edit.  Names of the source (not compared):\n%s *)\n"
            "From Coq Require Import String List.\nImport ListNotations.\nFrom PFDL Require Import NetWiring.\n"
            "Local Open Scope string_scope.\n\n"
            "Definition wiring_from_source : list (string * list wop) :=\n[\n%s\n].\n\n"
            "Definition digests_from_source : list (string * string) :=\n[\n%s\n].\n"
            % ("\n".join(comments).replace("*)", "* )"), ";\n".join(entries), ";\n".join(digs)))
    return text


def record():
    """rewrite the recorded tables of coq/NetWiring.v from the current source (done by hand, after
    NetModel.v has been brought in line with an intended change of the code)"""
    verif = os.path.dirname(os.path.dirname(os.path.abspath(__file__)))
    path = os.path.join(verif, "coq", "NetWiring.v")
    t = generate()
    w = t[t.index("Definition wiring_from_source"):t.index("Definition digests_from_source")].replace(
        "wiring_from_source", "expected_wiring")
    d = t[t.index("Definition digests_from_source"):].replace("digests_from_source", "expected_digests")
    old = open(path).read()
    head = old[:old.index("Definition expected_wiring")]
    with open(path, "w") as f:
        f.write(head + w + "\n" + d)
    print("recorded", path)


if __name__ == "__main__":
    import sys
    if "--record" in sys.argv:
        record()
    else:
        print(generate())
