#!/usr/bin/env python3
"""Assembles /verif/DESIGN.md from docs/design_parts/*.md plus two generated sections:
§8 (defects and their disposition, from known_findings.json) and §12 (seeded changes and
which checks catch them, from seeded/*/meta.json)."""
import glob
import json
import os

V = os.path.dirname(os.path.dirname(os.path.abspath(__file__)))
P = os.path.join(V, "docs", "design_parts")


def sec8():
    kf = json.load(open(os.path.join(V, "known_findings.json")))["findings"]
    out = ["## 8. Defects found on the unchanged tree and their disposition\n",
           "Every entry was first exhibited by the machinery (a failing replay against the real code, and for the",
           "scheduler a net-model run reproducing it); `fixed` = one minimal unguarded `fix:` commit in /repo (the",
           "repository's suite stays green), `known` = recorded, reported as `KNOWN-FINDING`, with the reason it",
           "is not repaired.  Witnesses are corpus files replayed first on every run.\n",
           "| id | status | properties | what fails | commit / why not fixed |", "|---|---|---|---|---|"]
    for f in kf:
        tail = f.get("fix_commit") if f["status"] == "fixed" else f.get("why_not_fixed", "")
        out.append("| %s | %s | %s | %s | %s |" % (f["id"], f["status"], " ".join(f.get("properties", [])),
                                                   f["summary"].replace("|", "/"), (tail or "").replace("|", "/")))
    extra = os.path.join(P, "08_extra.md")
    if os.path.exists(extra):
        out.append("")
        out.append(open(extra).read())
    return "\n".join(out) + "\n\n---------------------------------------------------------------------------------\n\n"


def sec12():
    out = ["## 12. Seeded changes and which checks catch them\n",
           "Each change was written by a fresh sub-agent that saw only the property text and its own scratch",
           "worktree, was confirmed here in a scratch worktree (suite green with the change, demonstration fails",
           "with it and passes without it) and is kept under `seeded/<id>/` (patch.diff, demo.py, meta.json).  The",
           "checks were run against the changed worktree from a scratch copy of /verif (`tools/try_mutation.sh`).",
           "`caught` = the check exits 1 with a VIOLATION line; `(n)` = number of failing generated cases;",
           "`static` = reported through a broken table / digest obligation with no failing generated input.\n",
           "| seeded | property | what it needs to manifest | result of the property's own check | other checks run |",
           "|---|---|---|---|---|"]
    for d in sorted(glob.glob(os.path.join(V, "seeded", "*", "meta.json"))):
        m = json.load(open(d))
        sid = os.path.basename(os.path.dirname(d))
        own = m["property"]
        res = m.get("checks", {})

        def show(c):
            r = res.get(c)
            if not r:
                return "not run"
            if r["exit"] == 0:
                return "MISSED"
            s = r["summary"]
            import re
            mm = re.search(r"violations=(\d+)", s)
            n = int(mm.group(1)) if mm else 0
            st = "BROKEN" in s
            if st and n <= 1:
                return "caught (static)"
            return "caught (%d%s)" % (n, ", + static" if st else "")
        others = ", ".join("%s: %s" % (c, show(c)) for c in sorted(res) if c != own)
        out.append("| %s | %s | %s | %s | %s |" % (sid, own, (m.get("needs") or "").replace("|", "/").replace("\n", " ")[:260],
                                               show(own), others or "–"))
    extra = os.path.join(P, "12_extra.md")
    if os.path.exists(extra):
        out.append("")
        out.append(open(extra).read())
    return "\n".join(out) + "\n\n---------------------------------------------------------------------------------\n\n"


def main():
    parts = [open(os.path.join(P, "00_head.md")).read(), open(os.path.join(P, "01_sec1.md")).read(),
             open(os.path.join(P, "02_mid.md")).read(), sec8(), open(os.path.join(P, "09_props.md")).read(),
             "---------------------------------------------------------------------------------\n\n",
             open(os.path.join(P, "10_sec10.md")).read(), open(os.path.join(P, "11_notdone.md")).read(),
             "---------------------------------------------------------------------------------\n\n",
             sec12(), open(os.path.join(P, "99_appendix.md")).read()]
    with open(os.path.join(V, "DESIGN.md"), "w") as f:
        f.write("".join(parts))
    print("DESIGN.md written (%d lines)" % sum(p.count("\n") for p in parts))


if __name__ == "__main__":
    main()
