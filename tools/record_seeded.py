#!/usr/bin/env python3
"""usage: record_seeded.py <mutation dir> <seeded id> (<Cxx> [<Cyy> ...] | --log <output of try_mutation.sh>)
Confirms a seeded change in a scratch worktree (tools/try_mutation.sh) and, when it is
confirmed (suite green with the change, demonstration fails with it and passes without it),
records it under /verif/seeded/<id>/ with what was run and which checks reported it."""
import json
import os
import re
import shutil
import subprocess
import sys

VERIF = os.path.dirname(os.path.dirname(os.path.abspath(__file__)))


def main():
    mdir, sid, checks = sys.argv[1], sys.argv[2], sys.argv[3:]
    if checks and checks[0] == "--log":
        # the trial was already run: tools/try_mutation.sh <mdir> ... > <log>
        out = open(checks[1]).read()
    else:
        p = subprocess.run([os.path.join(VERIF, "tools", "try_mutation.sh"), mdir] + checks,
                           capture_output=True, text=True)
        out = p.stdout + p.stderr
    m0 = re.search(r"demo without change: exit (\d+)", out)
    m1 = re.search(r"demo with change: exit (\d+)", out)
    suite = re.search(r"(\d+) passed", out)
    applies = "patch does not apply" not in out
    confirmed = bool(applies and m0 and m1 and m0.group(1) == "0" and m1.group(1) != "0"
                     and suite and suite.group(1) == "117" and " failed" not in out)
    res = {}
    for c, ex, nv, tail in re.findall(r"check (C\d+): exit (\d+) :: (\d+) violation line\(s\) :: (.*)", out):
        res[c] = {"exit": int(ex), "violation_lines": int(nv), "summary": tail.strip()}
    print(sid, "confirmed" if confirmed else "NOT CONFIRMED", res)
    if not confirmed:
        print(out[-1500:])
        return 1
    dst = os.path.join(VERIF, "seeded", sid)
    os.makedirs(dst, exist_ok=True)
    shutil.copy(os.path.join(mdir, "patch.diff"), os.path.join(dst, "patch.diff"))
    shutil.copy(os.path.join(mdir, "demo.py"), os.path.join(dst, "demo.py"))
    meta = {}
    try:
        meta = json.load(open(os.path.join(mdir, "meta.json")))
    except Exception:  # noqa: BLE001
        pass
    head = subprocess.run(["git", "-C", "/repo", "log", "-1", "--format=%h"], capture_output=True, text=True).stdout.strip()
    rec = {"property": meta.get("property", sid.split("-")[0]), "summary": meta.get("summary", ""),
           "needs": meta.get("needs", ""), "files": meta.get("files", []),
           "author_ran": meta.get("ran", []),
           "confirmed_on": head,
           "confirmation": ["scratch worktree of /repo at %s" % head,
                            "demo.py without the change: exit 0", "demo.py with the change: exit %s" % m1.group(1),
                            "pytest with the change: 117 passed"],
           "checks": res}
    with open(os.path.join(dst, "meta.json"), "w") as f:
        json.dump(rec, f, indent=1)
    return 0


if __name__ == "__main__":
    sys.exit(main())
