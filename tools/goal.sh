#!/bin/sh
# usage: goal.sh File.v LINE  -- shows the proof state after line LINE of the file
f=$1; n=$2
head -n "$n" "$f" > /tmp/_goal_tmp.v
echo "Show. " >> /tmp/_goal_tmp.v
cd "$(dirname "$f")" && timeout 120 coqc -Q . PFDL /tmp/_goal_tmp.v 2>&1 | head -${3:-80}
rm -f /tmp/_goal_tmp.v /tmp/_goal_tmp.vo /tmp/_goal_tmp.glob /tmp/._goal_tmp.aux
