#!/bin/sh
# Build the framework from files on disk only (offline): regenerate the tables from
# /repo, then a clean full .vo build of the Coq development.
set -e
cd "$(dirname "$0")"
export PYTHONHASHSEED=0 PYTHONDONTWRITEBYTECODE=1
/venv/bin/python tools/gen_tables.py
cd coq
coq_makefile -f _CoqProject -o Makefile
timeout 3000 make -j16
echo "setup done"
