(* RefObs.v — observers (and additional registered functions) do not influence the order:
   a TWO-RUN simulation for the reference semantics.  Two bookkeeping states that agree "up
   to what is filtered away" (observers and their log entries; or the registered functions
   other than function 0 and their log entries) are taken by every interpreter function to
   two such states, with equal outcomes and equal state trees.  At the API level: erasing
   the attach / detach calls (resp. the registrations of additional functions) from a
   history leaves the records of all other calls unchanged up to the filtered entries.
   Proof file. *)
From PFDL Require Import RefSem RunCase Monitors RefBase RefClosure RefShape.
From Coq Require Import Lia.

(* ---- small list facts ---- *)
Lemma filter_rev' : forall A (p : A -> bool) l, filter p (rev l) = rev (filter p l).
Proof.
  intros A p l. induction l as [|x l IH]; cbn [rev filter]; [reflexivity|].
  rewrite filter_app, IH. cbn [filter]. destruct (p x); cbn [rev]; [reflexivity|apply app_nil_r].
Qed.

Lemma filter_idem : forall A (p : A -> bool) l, filter p (filter p l) = filter p l.
Proof.
  intros A p l. induction l as [|x l IH]; cbn [filter]; [reflexivity|].
  destruct (p x) eqn:E; cbn [filter]; [rewrite E, IH; reflexivity|exact IH].
Qed.

Definition res_map {A B} (f : A -> B) (r : res A) : res B :=
  match r with Ok a => Ok (f a) | Fuel => Fuel | Exn k => Exn k | Unsupported => Unsupported end.

(* ================================================================================== *)
(* The generic two-run simulation, parametrised by the entries that are kept and by   *)
(* how the registered functions / attached observers of the two runs are related.     *)
(* ================================================================================== *)
Section Sim.
  Variable keep : entry -> bool.
  Variable Rls : list (nkind * nat) -> list (nkind * nat) -> Prop.
  Variable Robs : list nat -> list nat -> Prop.
  (* what one notification logs in the two runs agrees on the kept entries *)
  Variable emit_compat : forall n fl r ls1 ls2 o1 o2,
      Rls ls1 ls2 -> Robs o1 o2 ->
      filter keep (render ls1 o1 (ANot n fl r)) = filter keep (render ls2 o2 (ANot n fl r)).

  Record geq (g1 g2 : G) : Prop := {
    q_tid : g_tid g1 = g_tid g2;
    q_sid : g_sid g1 = g_sid g2;
    q_q : g_q g1 = g_q g2;
    q_ss : g_ss g1 = g_ss g2;
    q_aw : g_awaited g1 = g_awaited g2;
    q_run : g_running g1 = g_running g2;
    q_ls : Rls (g_ls g1) (g_ls g2);
    q_obs : Robs (g_obs g1) (g_obs g2);
    q_log : filter keep (g_log g1) = filter keep (g_log g2)
  }.

  (* same kind of outcome; on success equal results and related final states *)
  Definition rrel {A} (r1 r2 : res (A * G)) : Prop :=
    match r1, r2 with
    | Ok (a1, g1), Ok (a2, g2) => a1 = a2 /\ geq g1 g2
    | Fuel, Fuel => True
    | Exn k1, Exn k2 => k1 = k2
    | Unsupported, Unsupported => True
    | _, _ => False
    end.

  Definition sim {A} (m : M A) : Prop := forall g1 g2, geq g1 g2 -> rrel (m g1) (m g2).

  Lemma sim_ret : forall A (a : A), sim (ret a).
  Proof. intros A a g1 g2 H. cbn. split; [reflexivity|exact H]. Qed.

  Lemma sim_bind : forall A B (m : M A) (k : A -> M B),
      sim m -> (forall a, sim (k a)) -> sim (bind m k).
  Proof.
    intros A B m k Hm Hk g1 g2 H. specialize (Hm g1 g2 H). unfold bind.
    destruct (m g1) as [[a1 g1']| | |], (m g2) as [[a2 g2']| | |]; cbn in Hm; try contradiction; cbn; auto.
    destruct Hm as [-> Hg]. apply Hk. exact Hg.
  Qed.

  Lemma sim_fail_fuel : forall A, sim (@fail_fuel A).
  Proof. intros A g1 g2 H. exact I. Qed.

  Lemma sim_unsupported : forall A, sim (@lift A Unsupported).
  Proof. intros A g1 g2 H. exact I. Qed.

  (* ---- primitives ---- *)
  Lemma sim_fresh_t : sim fresh_t.
  Proof. intros g1 g2 []. unfold fresh_t. cbn. split; [assumption|]. constructor; cbn; congruence. Qed.

  Lemma sim_fresh_s : sim fresh_s.
  Proof. intros g1 g2 []. unfold fresh_s. cbn. split; [assumption|]. constructor; cbn; congruence. Qed.

  Lemma sim_tick_ss : sim tick_ss.
  Proof. intros g1 g2 []. unfold tick_ss. cbn. split; [assumption|]. constructor; cbn; congruence. Qed.

  Lemma sim_set_q : forall k, sim (set_q k).
  Proof. intros k g1 g2 []. unfold set_q. cbn. split; [reflexivity|]. constructor; cbn; congruence. Qed.

  Lemma sim_set_running : forall b, sim (set_running b).
  Proof. intros b g1 g2 []. unfold set_running. cbn. split; [reflexivity|]. constructor; cbn; congruence. Qed.

  Lemma sim_await : forall id, sim (await id).
  Proof.
    intros id g1 g2 []. unfold await, set_awaited. cbn. split; [reflexivity|].
    constructor; cbn; congruence.
  Qed.

  Lemma sim_unawait : forall id, sim (unawait id).
  Proof.
    intros id g1 g2 []. unfold unawait. rewrite q_aw0.
    destruct (remove_first (Nat.eqb id) (g_awaited g2)) as [l|]; [|reflexivity].
    unfold set_awaited. cbn. split; [reflexivity|]. constructor; cbn; congruence.
  Qed.

  (* logging the same entries in both runs *)
  Lemma sim_log_entries : forall es, sim (log_entries es).
  Proof.
    intros es g1 g2 []. unfold log_entries. cbn. split; [reflexivity|].
    constructor; cbn; try congruence. rewrite !filter_app. congruence.
  Qed.

  Lemma sim_log_entry : forall e, sim (log_entry e).
  Proof. intro e. apply sim_log_entries. Qed.

  (* one notification: every registered function, then every observer *)
  Lemma sim_emit_gen : forall n fl, sim (emit_gen n fl).
  Proof.
    intros n fl g1 g2 []. unfold emit_gen, log_entries. cbn. split; [reflexivity|].
    constructor; cbn; try congruence.
    rewrite !filter_app, !filter_rev'. rewrite q_log0. f_equal. f_equal.
    rewrite q_run0.
    exact (emit_compat n fl (g_running g2) _ _ _ _ q_ls0 q_obs0).
  Qed.

  Lemma sim_emit : forall n, sim (emit n).
  Proof. intro n. apply sim_emit_gen. Qed.

  Lemma sim_log_queries : forall vs ctx, sim (log_queries vs ctx).
  Proof.
    induction vs as [|v vs IH]; intro ctx; cbn [log_queries].
    - apply sim_ret.
    - apply sim_bind; [apply sim_log_entry|intros _; apply IH].
  Qed.

  Section WithEnv.
    Variable orc : oracle.
    Variable imm : nat -> bool.

    Lemma sim_decide_m : forall e ctx, sim (decide_m orc e ctx).
    Proof.
      intros e ctx g1 g2 H. unfold decide_m. rewrite (q_q _ _ H).
      destruct (decide expected_ops orc e (g_q g2)) as [[b k']| | |]; try exact I; [|reflexivity].
      assert (S : sim (log_queries (expr_vars e) ctx ;;; set_q k' ;;; ret b)).
      { apply sim_bind; [apply sim_log_queries|intros _].
        apply sim_bind; [apply sim_set_q|intros _]. apply sim_ret. }
      exact (S g1 g2 H).
    Qed.

    Lemma sim_read_limit : forall l ctx, sim (read_limit orc l ctx).
    Proof.
      intros [n|v p] ctx; cbn [read_limit]; [apply sim_ret|].
      intros g1 g2 H. rewrite (q_q _ _ H). set (kq := g_q g2). clearbody kq.
      destruct (orc kq v) as [x|]; [|exact I].
      destruct (resolve x p) as [[q|b|s|fs]| | |]; try exact I; [|reflexivity].
      destruct (Pos.eqb (Qden q) 1); [|exact I].
      assert (S : sim (log_entry (EQuery v ctx) ;;; set_q (S kq) ;;; ret (Qnum q))).
      { apply sim_bind; [apply sim_log_entry|intros _].
        apply sim_bind; [apply sim_set_q|intros _]. apply sim_ret. }
      exact (S g1 g2 H).
    Qed.

    (* ---- the seven interpreter functions ---- *)
    Ltac sim_prim :=
      first [ apply sim_ret | apply sim_fail_fuel | apply sim_unsupported
            | apply sim_fresh_t | apply sim_fresh_s | apply sim_tick_ss | apply sim_set_q
            | apply sim_set_running | apply sim_await | apply sim_unawait
            | apply sim_emit | apply sim_emit_gen | apply sim_decide_m | apply sim_read_limit
            | solve [auto] ].

    Ltac sim_step :=
      match goal with
      | |- sim (bind _ _) => apply sim_bind; [|intro; cbv beta]
      | |- sim (if ?b then _ else _) => destruct b
      | |- sim (match ?r with _ => _ end) => destruct r
      | |- sim _ => sim_prim
      end.

    Lemma start_sim : forall f,
        (forall ctx ie s, sim (start_stmt orc imm f ctx ie s)) /\
        (forall ctx ie ss i, sim (run_block orc imm f ctx ie ss i)) /\
        (forall ctx l, sim (start_list orc imm f ctx l)) /\
        (forall ctx ie s k, sim (loop_test orc imm f ctx ie s k)).
    Proof.
      induction f as [|f IH]; [repeat split; intros; apply sim_fail_fuel|].
      destruct IH as (IHs & IHb & IHl & IHt).
      split; [|split; [|split]].
      - intros ctx ie s. cbn [start_stmt].
        destruct s as [n at_ ins|t at_ ins body|bs|e p fl|e b|v lim b|v lim c]; repeat sim_step.
      - intros ctx ie ss i. cbn [run_block]. repeat sim_step.
      - intros ctx l. cbn [start_list]. repeat sim_step.
      - intros ctx ie s k. cbn [loop_test].
        destruct s as [n at_ ins|t at_ ins body|bs|e p fl|e b|v lim b|v lim c]; repeat sim_step.
    Qed.

    Lemma deliver_sim : forall f,
        (forall ctx ie s st id, sim (deliver orc imm f ctx ie s st id)) /\
        (forall ctx ie ss i sti id, sim (deliver_block orc imm f ctx ie ss i sti id)) /\
        (forall ctx l sts id, sim (deliver_list orc imm f ctx l sts id)).
    Proof.
      induction f as [|f IH]; [repeat split; intros; apply sim_fail_fuel|].
      destruct IH as (IHd & IHb & IHl).
      pose proof (proj1 (proj2 (start_sim f))) as Sb.
      pose proof (proj2 (proj2 (proj2 (start_sim f)))) as St.
      split; [|split].
      - intros ctx ie s st id. cbn [deliver].
        destruct s as [n at_ ins|t at_ ins body|bs|e p fl|e b|v lim b|v lim c];
          destruct st as [|id'|cid i sti|sts|bb i sti|k i sti|sts]; repeat sim_step.
      - intros ctx ie ss i sti id. cbn [deliver_block]. repeat sim_step.
      - intros ctx l sts id. cbn [deliver_list]. repeat sim_step.
    Qed.

    (* ---- the API layer ---- *)
    Variable body : list xstmt.

    Lemma geq_clear : forall g1 g2, geq g1 g2 -> geq (clear_log g1) (clear_log g2).
    Proof. intros g1 g2 []. constructor; cbn; auto. Qed.

    (* states between two calls: every call discards the log of its predecessor first *)
    Definition srel (s1 s2 : sched) : Prop :=
      sc_root s1 = sc_root s2 /\ geq (clear_log (sc_g s1)) (clear_log (sc_g s2)).

    Definition arel (r1 r2 : res (bool * sched)) : Prop :=
      match r1, r2 with
      | Ok (b1, s1), Ok (b2, s2) => b1 = b2 /\ sc_root s1 = sc_root s2 /\ geq (sc_g s1) (sc_g s2)
      | Fuel, Fuel => True
      | Exn k1, Exn k2 => k1 = k2
      | Unsupported, Unsupported => True
      | _, _ => False
      end.

    Lemma sim_finish_root : sim finish_root.
    Proof. unfold finish_root. repeat sim_step. Qed.

    Ltac run_both :=
      match goal with
      | Hg : geq ?g1 ?g2 |- arel (match ?m ?g1 with _ => _ end) (match ?m ?g2 with _ => _ end) =>
        let S := fresh "S" in
        assert (S : sim m);
        [|specialize (S g1 g2 Hg);
          destruct (m g1) as [[? ?]| | |], (m g2) as [[? ?]| | |]; cbn in S; try contradiction; cbn; auto]
      end.

    (* the calls that touch neither the registered functions nor the observers *)
    Lemma api_core : forall f s1 s2 c,
        srel s1 s2 ->
        match c with AStart | AFinish _ | AJunk => True | _ => False end ->
        arel (api_call orc imm f body s1 c) (api_call orc imm f body s2 c).
    Proof.
      intros f [g1 r1] [g2 r2] c [Hr Hg] Hc. cbn [sc_root sc_g] in *. subst r2.
      pose proof (proj1 (proj2 (start_sim f))) as Sb.
      pose proof (proj1 (proj2 (deliver_sim f))) as Db.
      destruct c as [|id| |k l|o|o]; try contradiction; cbn [api_call sc_root sc_g].
      - destruct r1 as [r|].
        + cbn. auto.
        + run_both.
          * repeat sim_step. apply sim_finish_root.
          * destruct S as [-> S]. auto.
      - rewrite (q_aw _ _ Hg). destruct (mem id (g_awaited (clear_log g2))).
        + destruct r1 as [[|id'|cid i sti|sts|bb i sti|k i sti|sts]|]; try exact I.
          run_both.
          * repeat sim_step. apply sim_finish_root.
          * destruct S as [-> S]. auto.
        + cbn. auto.
      - cbn. auto.
    Qed.

    (* ---- whole histories: erasing the calls that only change what is filtered away ---- *)
    Variable erased : apicall -> bool.
    Variable erased_step : forall f s1 s2 c b s1',
        erased c = true -> srel s1 s2 -> api_call orc imm f body s1 c = Ok (b, s1') -> srel s1' s2.
    Variable kept_step : forall f s1 s2 c,
        erased c = false -> srel s1 s2 ->
        arel (api_call orc imm f body s1 c) (api_call orc imm f body s2 c).
    (* the second run logs nothing that is filtered away *)
    Variable Clean : sched -> Prop.
    Variable clean_step : forall f s c b s',
        erased c = false -> Clean s -> api_call orc imm f body s c = Ok (b, s') ->
        Clean s' /\ filter keep (rev (g_log (sc_g s'))) = rev (g_log (sc_g s')).

    Definition strip_rec (r : callrec) : callrec :=
      {| cr_ret := cr_ret r; cr_log := filter keep (cr_log r); cr_running := cr_running r;
         cr_awaited := cr_awaited r; cr_final := cr_final r |}.

    Definition erase_calls (cs : list apicall) : list apicall :=
      filter (fun c => negb (erased c)) cs.

    Fixpoint erase_recs (cs : list apicall) (tr : list callrec) : list callrec :=
      match cs, tr with
      | c :: cs', r :: tr' =>
        if erased c then erase_recs cs' tr' else strip_rec r :: erase_recs cs' tr'
      | _, _ => []
      end.

    Theorem erase_sim : forall f cs s1 s2 tr,
        srel s1 s2 -> Clean s2 ->
        run_script orc imm f body s1 cs = Ok tr ->
        run_script orc imm f body s2 (erase_calls cs) = Ok (erase_recs cs tr).
    Proof.
      intros f cs. induction cs as [|c cs IH]; intros s1 s2 tr Hs Hc H; cbn [run_script] in H.
      - inv H. reflexivity.
      - destruct (api_call orc imm f body s1 c) as [[b s1']| | |] eqn:E; try discriminate.
        cbn [rbind] in H.
        destruct (run_script orc imm f body s1' cs) as [t| | |] eqn:E2; try discriminate.
        cbn [rbind] in H. inv H.
        unfold erase_calls. cbn [filter erase_recs]. destruct (erased c) eqn:Ec; cbn [negb].
        + apply (IH s1' s2 t); [|exact Hc|exact E2]. eapply erased_step; eassumption.
        + pose proof (kept_step f s1 s2 c Ec Hs) as K. rewrite E in K.
          destruct (api_call orc imm f body s2 c) as [[b2 s2']| | |] eqn:E3; cbn in K; try contradiction.
          destruct K as (<- & Kr & Kg).
          destruct (clean_step f s2 c b s2' Ec Hc E3) as [Hc' Hl].
          cbn [run_script]. rewrite E3. cbn [rbind].
          fold (erase_calls cs). rewrite (IH s1' s2' t); [|split; [exact Kr|apply geq_clear; exact Kg]|exact Hc'|exact E2].
          cbn [rbind]. f_equal. f_equal.
          unfold observe, strip_rec. cbn [cr_ret cr_log cr_running cr_awaited cr_final].
          rewrite Kr, (q_run _ _ Kg), (q_aw _ _ Kg). f_equal.
          rewrite <- Hl, !filter_rev', (q_log _ _ Kg). reflexivity.
    Qed.

    (* ---- the same for all outcomes: provided no erased call fails in the first run, the
            second run ends in the same kind of outcome (success / out of fuel / the same
            exception / unsupported) ---- *)
    Fixpoint erased_succeed (f : nat) (s1 : sched) (cs : list apicall) : Prop :=
      match cs with
      | [] => True
      | c :: r =>
        match api_call orc imm f body s1 c with
        | Ok (_, s1') => erased_succeed f s1' r
        | _ => erased c = false
        end
      end.

    Theorem erase_sim_total : forall f cs s1 s2,
        srel s1 s2 -> Clean s2 -> erased_succeed f s1 cs ->
        run_script orc imm f body s2 (erase_calls cs)
        = res_map (erase_recs cs) (run_script orc imm f body s1 cs).
    Proof.
      intros f cs. induction cs as [|c cs IH]; intros s1 s2 Hs Hc He; [reflexivity|].
      cbn [run_script erased_succeed] in *. unfold erase_calls. cbn [filter].
      destruct (api_call orc imm f body s1 c) as [[b s1']| | |] eqn:E; cbn [rbind res_map].
      - destruct (erased c) eqn:Ec; cbn [negb].
        + fold (erase_calls cs). rewrite (IH s1' s2); [|eapply erased_step; eassumption|exact Hc|exact He].
          destruct (run_script orc imm f body s1' cs) as [t| | |]; cbn [rbind res_map erase_recs]; try reflexivity.
          rewrite Ec. reflexivity.
        + pose proof (kept_step f s1 s2 c Ec Hs) as K. rewrite E in K.
          destruct (api_call orc imm f body s2 c) as [[b2 s2']| | |] eqn:E3; cbn in K; try contradiction.
          destruct K as (<- & Kr & Kg).
          destruct (clean_step f s2 c b s2' Ec Hc E3) as [Hc' Hl].
          cbn [run_script]. rewrite E3. cbn [rbind]. fold (erase_calls cs).
          rewrite (IH s1' s2'); [|split; [exact Kr|apply geq_clear; exact Kg]|exact Hc'|exact He].
          destruct (run_script orc imm f body s1' cs) as [t| | |]; cbn [rbind res_map erase_recs]; try reflexivity.
          rewrite Ec. f_equal. f_equal.
          unfold observe, strip_rec. cbn [cr_ret cr_log cr_running cr_awaited cr_final].
          rewrite Kr, (q_run _ _ Kg), (q_aw _ _ Kg). f_equal.
          rewrite <- Hl, !filter_rev', (q_log _ _ Kg). reflexivity.
      - rewrite He. cbn [negb run_script].
        pose proof (kept_step f s1 s2 c He Hs) as K. rewrite E in K.
        destruct (api_call orc imm f body s2 c) as [[b2 s2']| | |]; cbn in K; try contradiction. reflexivity.
      - rewrite He. cbn [negb run_script].
        pose proof (kept_step f s1 s2 c He Hs) as K. rewrite E in K.
        destruct (api_call orc imm f body s2 c) as [[b2 s2']| | |]; cbn in K; try contradiction.
        subst. reflexivity.
      - rewrite He. cbn [negb run_script].
        pose proof (kept_step f s1 s2 c He Hs) as K. rewrite E in K.
        destruct (api_call orc imm f body s2 c) as [[b2 s2']| | |]; cbn in K; try contradiction. reflexivity.
    Qed.
  End WithEnv.
End Sim.

(* ================================================================================== *)
(* Instance 1: observers.                                                             *)
(* ================================================================================== *)
Definition not_obs (e : entry) : bool :=
  match e with EObs _ _ _ _ _ => false | _ => true end.

(* the log without the observers' entries *)
Definition strip (l : list entry) : list entry := filter not_obs l.

(* equal up to the attached observers and the observers' log entries *)
Record obs_eq (g1 g2 : G) : Prop := {
  oe_tid : g_tid g1 = g_tid g2;
  oe_sid : g_sid g1 = g_sid g2;
  oe_q : g_q g1 = g_q g2;
  oe_ss : g_ss g1 = g_ss g2;
  oe_aw : g_awaited g1 = g_awaited g2;
  oe_run : g_running g1 = g_running g2;
  oe_ls : g_ls g1 = g_ls g2;
  oe_log : strip (g_log g1) = strip (g_log g2)
}.

(* same kind of outcome; on success the same result (state tree) and obs_eq final states *)
Definition res_rel {A} (r1 r2 : res (A * G)) : Prop :=
  match r1, r2 with
  | Ok (a1, g1), Ok (a2, g2) => a1 = a2 /\ obs_eq g1 g2
  | Fuel, Fuel => True
  | Exn k1, Exn k2 => k1 = k2
  | Unsupported, Unsupported => True
  | _, _ => False
  end.

Definition any_obs (o1 o2 : list nat) : Prop := True.

Lemma obs_eq_geq : forall g1 g2, obs_eq g1 g2 <-> geq not_obs eq any_obs g1 g2.
Proof.
  intros g1 g2. split; intros []; constructor; auto. exact I.
Qed.

Lemma rrel_res_rel : forall A (r1 r2 : res (A * G)),
    rrel not_obs eq any_obs r1 r2 <-> res_rel r1 r2.
Proof.
  intros A [[a1 g1]| | |] [[a2 g2]| | |]; cbn; try tauto. rewrite obs_eq_geq. tauto.
Qed.

Lemma filter_notif_not_obs : forall n r ls,
    filter not_obs (map (fun l => ENotif l n r) ls) = map (fun l => ENotif l n r) ls.
Proof. intros n r ls. induction ls as [|l ls IH]; cbn; [reflexivity|]. rewrite IH. reflexivity. Qed.

Lemma filter_obs_not_obs : forall k nm id fl os,
    filter not_obs (map (fun o => EObs o k nm id fl) os) = [].
Proof. intros k nm id fl os. induction os as [|o os IH]; cbn; [reflexivity|exact IH]. Qed.

Lemma emit_compat_obs : forall n fl r ls1 ls2 o1 o2,
    ls1 = ls2 -> any_obs o1 o2 ->
    filter not_obs (render ls1 o1 (ANot n fl r)) = filter not_obs (render ls2 o2 (ANot n fl r)).
Proof.
  intros n fl r ls1 ls2 o1 o2 -> _. cbn [render].
  rewrite !filter_app, !filter_notif_not_obs, !filter_obs_not_obs. reflexivity.
Qed.

Section ObsInterp.
  Variable orc : oracle.
  Variable imm : nat -> bool.

  Let SS := start_sim not_obs eq any_obs emit_compat_obs orc imm.
  Let DS := deliver_sim not_obs eq any_obs emit_compat_obs orc imm.

  Theorem start_stmt_obs : forall f ctx ie s g1 g2,
      obs_eq g1 g2 -> res_rel (start_stmt orc imm f ctx ie s g1) (start_stmt orc imm f ctx ie s g2).
  Proof. intros. apply rrel_res_rel. apply (proj1 (SS f)). apply obs_eq_geq. assumption. Qed.

  Theorem run_block_obs : forall f ctx ie ss i g1 g2,
      obs_eq g1 g2 -> res_rel (run_block orc imm f ctx ie ss i g1) (run_block orc imm f ctx ie ss i g2).
  Proof. intros. apply rrel_res_rel. apply (proj1 (proj2 (SS f))). apply obs_eq_geq. assumption. Qed.

  Theorem start_list_obs : forall f ctx l g1 g2,
      obs_eq g1 g2 -> res_rel (start_list orc imm f ctx l g1) (start_list orc imm f ctx l g2).
  Proof. intros. apply rrel_res_rel. apply (proj1 (proj2 (proj2 (SS f)))). apply obs_eq_geq. assumption. Qed.

  Theorem loop_test_obs : forall f ctx ie s k g1 g2,
      obs_eq g1 g2 -> res_rel (loop_test orc imm f ctx ie s k g1) (loop_test orc imm f ctx ie s k g2).
  Proof. intros. apply rrel_res_rel. apply (proj2 (proj2 (proj2 (SS f)))). apply obs_eq_geq. assumption. Qed.

  Theorem deliver_obs : forall f ctx ie s st id g1 g2,
      obs_eq g1 g2 ->
      res_rel (deliver orc imm f ctx ie s st id g1) (deliver orc imm f ctx ie s st id g2).
  Proof. intros. apply rrel_res_rel. apply (proj1 (DS f)). apply obs_eq_geq. assumption. Qed.

  Theorem deliver_block_obs : forall f ctx ie ss i sti id g1 g2,
      obs_eq g1 g2 ->
      res_rel (deliver_block orc imm f ctx ie ss i sti id g1) (deliver_block orc imm f ctx ie ss i sti id g2).
  Proof. intros. apply rrel_res_rel. apply (proj1 (proj2 (DS f))). apply obs_eq_geq. assumption. Qed.

  Theorem deliver_list_obs : forall f ctx l sts id g1 g2,
      obs_eq g1 g2 ->
      res_rel (deliver_list orc imm f ctx l sts id g1) (deliver_list orc imm f ctx l sts id g2).
  Proof. intros. apply rrel_res_rel. apply (proj2 (proj2 (DS f))). apply obs_eq_geq. assumption. Qed.
End ObsInterp.

(* ---- API level ---- *)
Definition is_obs_call (c : apicall) : bool :=
  match c with AAttach _ | ADetach _ => true | _ => false end.

(* the history without the attach / detach calls *)
Definition erase_obs_calls (cs : list apicall) : list apicall :=
  filter (fun c => negb (is_obs_call c)) cs.

(* a record with the observers' entries removed from its log *)
Definition strip_obs_rec (r : callrec) : callrec :=
  {| cr_ret := cr_ret r; cr_log := strip (cr_log r); cr_running := cr_running r;
     cr_awaited := cr_awaited r; cr_final := cr_final r |}.

(* the trace of [cs] without the records of the attach / detach calls, every remaining
   record stripped of the observers' entries *)
Fixpoint erase_obs_recs (cs : list apicall) (tr : list callrec) : list callrec :=
  match cs, tr with
  | c :: cs', r :: tr' =>
    if is_obs_call c then erase_obs_recs cs' tr' else strip_obs_rec r :: erase_obs_recs cs' tr'
  | _, _ => []
  end.

Lemma erase_obs_recs_generic : forall cs tr, erase_obs_recs cs tr = erase_recs not_obs is_obs_call cs tr.
Proof. induction cs as [|c cs IH]; intros [|r tr]; cbn; try reflexivity; rewrite IH; reflexivity. Qed.

Lemma render_no_obs : forall ls evs,
    filter not_obs (flat_map (render ls []) evs) = flat_map (render ls []) evs.
Proof.
  intros ls evs. induction evs as [|a evs IH]; cbn [flat_map]; [reflexivity|].
  rewrite filter_app, IH. f_equal. destruct a as [n fl r|v c]; cbn [render map]; [|reflexivity].
  rewrite app_nil_r. apply filter_notif_not_obs.
Qed.

Section ObsApi.
  Variable orc : oracle.
  Variable imm : nat -> bool.
  Variable body : list xstmt.

  Let srel_o := srel not_obs eq any_obs.
  Let arel_o := arel not_obs eq any_obs.

  Lemma obs_erased_step : forall f s1 s2 c b s1',
      is_obs_call c = true -> srel_o s1 s2 -> api_call orc imm f body s1 c = Ok (b, s1') -> srel_o s1' s2.
  Proof.
    intros f [g1 r1] [g2 r2] c b s1' Ec [Hr Hg] H. cbn [sc_root sc_g] in *. subst r2.
    destruct c as [|id| |k l|o|o]; try discriminate; cbn [api_call sc_g sc_root] in H.
    - inv H. split; [reflexivity|]. cbn [sc_g]. destruct Hg. constructor; cbn in *; auto; exact I.
    - destruct (remove_first (Nat.eqb o) (g_obs (clear_log g1))) as [l|]; [|discriminate]. inv H.
      split; [reflexivity|]. cbn [sc_g]. destruct Hg. constructor; cbn in *; auto; exact I.
  Qed.

  Lemma obs_kept_step : forall f s1 s2 c,
      is_obs_call c = false -> srel_o s1 s2 ->
      arel_o (api_call orc imm f body s1 c) (api_call orc imm f body s2 c).
  Proof.
    intros f s1 s2 c Ec Hs.
    destruct c as [|id| |k l|o|o]; try discriminate;
      try (apply (api_core not_obs eq any_obs emit_compat_obs); [exact Hs|exact I]).
    destruct s1 as [g1 r1], s2 as [g2 r2]. destruct Hs as [Hr Hg]. cbn [sc_root sc_g] in *.
    cbn [api_call sc_g sc_root]. rewrite (q_ls _ _ _ _ _ Hg).
    destruct (existsb _ (g_ls (clear_log g2))).
    - cbn. auto.
    - cbn. split; [reflexivity|]. split; [exact Hr|].
      destruct Hg. constructor; cbn in *; auto; congruence.
  Qed.

  Definition no_observers (s : sched) : Prop := g_obs (sc_g s) = [].

  Lemma obs_clean_step : forall f s c b s',
      is_obs_call c = false -> no_observers s -> api_call orc imm f body s c = Ok (b, s') ->
      no_observers s' /\ filter not_obs (rev (g_log (sc_g s'))) = rev (g_log (sc_g s')).
  Proof.
    intros f s c b s' Ec Hc H. unfold no_observers in *.
    destruct (api_shape orc imm body f s c b s' H) as (((evs & Hl & _) & _ & _) & _ & Ho).
    split.
    - rewrite Ho. destruct c; try discriminate; exact Hc.
    - cbn [observe cr_log] in Hl. rewrite Hl, Hc. apply render_no_obs.
  Qed.

  (* general form: two schedulers that agree up to observers, the second one without any *)
  Theorem observers_do_not_influence_from : forall f cs s1 s2 tr,
      sc_root s1 = sc_root s2 -> obs_eq (sc_g s1) (sc_g s2) -> g_obs (sc_g s2) = [] ->
      run_script orc imm f body s1 cs = Ok tr ->
      run_script orc imm f body s2 (erase_obs_calls cs) = Ok (erase_obs_recs cs tr).
  Proof.
    intros f cs s1 s2 tr Hr Hg Ho H. rewrite erase_obs_recs_generic.
    apply (erase_sim not_obs eq any_obs orc imm body is_obs_call obs_erased_step obs_kept_step
                     no_observers obs_clean_step f cs s1 s2 tr); [|exact Ho|exact H].
    split; [exact Hr|]. apply geq_clear. apply obs_eq_geq. exact Hg.
  Qed.

  Lemma obs_eq_refl : forall g, obs_eq g g.
  Proof. intro g. constructor; reflexivity. Qed.

  (* C18 / C17 for the reference semantics: attaching and detaching observers changes nothing
     but the observers' own entries *)
  Theorem observers_do_not_influence : forall f cs tr,
      run_script orc imm f body sched0 cs = Ok tr ->
      run_script orc imm f body sched0 (erase_obs_calls cs) = Ok (erase_obs_recs cs tr).
  Proof.
    intros f cs tr H. apply (observers_do_not_influence_from f cs sched0 sched0 tr); auto.
    apply obs_eq_refl.
  Qed.

  (* two histories that differ only in attach / detach calls *)
  Corollary same_up_to_observers : forall f cs1 cs2 tr1 tr2,
      erase_obs_calls cs1 = erase_obs_calls cs2 ->
      run_script orc imm f body sched0 cs1 = Ok tr1 ->
      run_script orc imm f body sched0 cs2 = Ok tr2 ->
      erase_obs_recs cs1 tr1 = erase_obs_recs cs2 tr2.
  Proof.
    intros f cs1 cs2 tr1 tr2 E H1 H2.
    apply observers_do_not_influence in H1. apply observers_do_not_influence in H2.
    rewrite E in H1. rewrite H1 in H2. inv H2. reflexivity.
  Qed.
End ObsApi.

(* ================================================================================== *)
(* Instance 2: additional registered functions (listener identifiers other than 0).   *)
(* ================================================================================== *)
Definition keep0 (e : entry) : bool :=
  match e with ENotif l _ _ => Nat.eqb l 0 | _ => true end.

(* the log as function 0 (and the observers, and the value provider) see it *)
Definition strip_l (l : list entry) : list entry := filter keep0 l.

Definition is0l (p : nkind * nat) : bool := Nat.eqb (snd p) 0.

(* the registrations of function 0 agree *)
Definition ls_eq0 (ls1 ls2 : list (nkind * nat)) : Prop := filter is0l ls1 = filter is0l ls2.

(* equal up to the registered functions other than 0 and their log entries *)
Record lst_eq (g1 g2 : G) : Prop := {
  le_tid : g_tid g1 = g_tid g2;
  le_sid : g_sid g1 = g_sid g2;
  le_q : g_q g1 = g_q g2;
  le_ss : g_ss g1 = g_ss g2;
  le_aw : g_awaited g1 = g_awaited g2;
  le_run : g_running g1 = g_running g2;
  le_ls : ls_eq0 (g_ls g1) (g_ls g2);
  le_obs : g_obs g1 = g_obs g2;
  le_log : strip_l (g_log g1) = strip_l (g_log g2)
}.

Definition res_rel_l {A} (r1 r2 : res (A * G)) : Prop :=
  match r1, r2 with
  | Ok (a1, g1), Ok (a2, g2) => a1 = a2 /\ lst_eq g1 g2
  | Fuel, Fuel => True
  | Exn k1, Exn k2 => k1 = k2
  | Unsupported, Unsupported => True
  | _, _ => False
  end.

Lemma lst_eq_geq : forall g1 g2, lst_eq g1 g2 <-> geq keep0 ls_eq0 eq g1 g2.
Proof. intros g1 g2. split; intros []; constructor; auto. Qed.

Lemma rrel_res_rel_l : forall A (r1 r2 : res (A * G)),
    rrel keep0 ls_eq0 eq r1 r2 <-> res_rel_l r1 r2.
Proof.
  intros A [[a1 g1]| | |] [[a2 g2]| | |]; cbn; try tauto. rewrite lst_eq_geq. tauto.
Qed.

Lemma filter_notif_keep0 : forall n r ls,
    filter keep0 (map (fun l => ENotif l n r) ls)
    = map (fun l => ENotif l n r) (filter (fun l => Nat.eqb l 0) ls).
Proof.
  intros n r ls. induction ls as [|l ls IH]; cbn [map filter keep0]; [reflexivity|].
  destruct (Nat.eqb l 0); cbn [map]; rewrite IH; reflexivity.
Qed.

Lemma filter_obs_keep0 : forall k nm id fl os,
    filter keep0 (map (fun o => EObs o k nm id fl) os) = map (fun o => EObs o k nm id fl) os.
Proof. intros k nm id fl os. induction os as [|o os IH]; cbn; [reflexivity|]. rewrite IH. reflexivity. Qed.

Lemma listeners_of_filter0 : forall k ls,
    filter (fun l => Nat.eqb l 0) (listeners_of k ls) = listeners_of k (filter is0l ls).
Proof.
  intros k ls. unfold listeners_of. induction ls as [|[k' l] ls IH]; [reflexivity|].
  cbn. destruct (nkind_eqb k' k) eqn:Ek, (Nat.eqb l 0) eqn:El; cbn; rewrite ?Ek, ?El; cbn;
    rewrite ?El, ?IH; reflexivity.
Qed.

Lemma emit_compat_l : forall n fl r ls1 ls2 o1 o2,
    ls_eq0 ls1 ls2 -> o1 = o2 ->
    filter keep0 (render ls1 o1 (ANot n fl r)) = filter keep0 (render ls2 o2 (ANot n fl r)).
Proof.
  intros n fl r ls1 ls2 o1 o2 Hl ->. cbn [render].
  rewrite !filter_app, !filter_notif_keep0, !listeners_of_filter0, Hl. reflexivity.
Qed.

Section LstInterp.
  Variable orc : oracle.
  Variable imm : nat -> bool.

  Let SS := start_sim keep0 ls_eq0 eq emit_compat_l orc imm.
  Let DS := deliver_sim keep0 ls_eq0 eq emit_compat_l orc imm.

  Theorem start_stmt_lst : forall f ctx ie s g1 g2,
      lst_eq g1 g2 -> res_rel_l (start_stmt orc imm f ctx ie s g1) (start_stmt orc imm f ctx ie s g2).
  Proof. intros. apply rrel_res_rel_l. apply (proj1 (SS f)). apply lst_eq_geq. assumption. Qed.

  Theorem run_block_lst : forall f ctx ie ss i g1 g2,
      lst_eq g1 g2 -> res_rel_l (run_block orc imm f ctx ie ss i g1) (run_block orc imm f ctx ie ss i g2).
  Proof. intros. apply rrel_res_rel_l. apply (proj1 (proj2 (SS f))). apply lst_eq_geq. assumption. Qed.

  Theorem start_list_lst : forall f ctx l g1 g2,
      lst_eq g1 g2 -> res_rel_l (start_list orc imm f ctx l g1) (start_list orc imm f ctx l g2).
  Proof. intros. apply rrel_res_rel_l. apply (proj1 (proj2 (proj2 (SS f)))). apply lst_eq_geq. assumption. Qed.

  Theorem loop_test_lst : forall f ctx ie s k g1 g2,
      lst_eq g1 g2 -> res_rel_l (loop_test orc imm f ctx ie s k g1) (loop_test orc imm f ctx ie s k g2).
  Proof. intros. apply rrel_res_rel_l. apply (proj2 (proj2 (proj2 (SS f)))). apply lst_eq_geq. assumption. Qed.

  Theorem deliver_lst : forall f ctx ie s st id g1 g2,
      lst_eq g1 g2 ->
      res_rel_l (deliver orc imm f ctx ie s st id g1) (deliver orc imm f ctx ie s st id g2).
  Proof. intros. apply rrel_res_rel_l. apply (proj1 (DS f)). apply lst_eq_geq. assumption. Qed.

  Theorem deliver_block_lst : forall f ctx ie ss i sti id g1 g2,
      lst_eq g1 g2 ->
      res_rel_l (deliver_block orc imm f ctx ie ss i sti id g1) (deliver_block orc imm f ctx ie ss i sti id g2).
  Proof. intros. apply rrel_res_rel_l. apply (proj1 (proj2 (DS f))). apply lst_eq_geq. assumption. Qed.

  Theorem deliver_list_lst : forall f ctx l sts id g1 g2,
      lst_eq g1 g2 ->
      res_rel_l (deliver_list orc imm f ctx l sts id g1) (deliver_list orc imm f ctx l sts id g2).
  Proof. intros. apply rrel_res_rel_l. apply (proj2 (proj2 (DS f))). apply lst_eq_geq. assumption. Qed.
End LstInterp.

(* ---- API level ---- *)
Definition is_extra_reg (c : apicall) : bool :=
  match c with ARegister _ (S _) => true | _ => false end.

(* the history without the registrations of additional functions *)
Definition erase_reg_calls (cs : list apicall) : list apicall :=
  filter (fun c => negb (is_extra_reg c)) cs.

Definition strip_l_rec (r : callrec) : callrec :=
  {| cr_ret := cr_ret r; cr_log := strip_l (cr_log r); cr_running := cr_running r;
     cr_awaited := cr_awaited r; cr_final := cr_final r |}.

Fixpoint erase_reg_recs (cs : list apicall) (tr : list callrec) : list callrec :=
  match cs, tr with
  | c :: cs', r :: tr' =>
    if is_extra_reg c then erase_reg_recs cs' tr' else strip_l_rec r :: erase_reg_recs cs' tr'
  | _, _ => []
  end.

Lemma erase_reg_recs_generic : forall cs tr, erase_reg_recs cs tr = erase_recs keep0 is_extra_reg cs tr.
Proof. induction cs as [|c cs IH]; intros [|r tr]; cbn; try reflexivity; rewrite IH; reflexivity. Qed.

Definition only0 (ls : list (nkind * nat)) : Prop := Forall (fun p => snd p = 0) ls.

Lemma only0_filter : forall ls, only0 ls -> filter is0l ls = ls.
Proof.
  intros ls H. induction H as [|[k l] ls Hx H IH]; [reflexivity|]. cbn in Hx. subst l.
  cbn. rewrite IH. reflexivity.
Qed.

Lemma render_only0 : forall ls obs evs,
    only0 ls -> filter keep0 (flat_map (render ls obs) evs) = flat_map (render ls obs) evs.
Proof.
  intros ls obs evs H0. induction evs as [|a evs IH]; cbn [flat_map]; [reflexivity|].
  rewrite filter_app, IH. f_equal. destruct a as [n fl r|v c]; cbn [render]; [|reflexivity].
  rewrite filter_app, filter_notif_keep0, filter_obs_keep0, listeners_of_filter0, only0_filter by exact H0.
  reflexivity.
Qed.

Lemma existsb_filter0 : forall k ls,
    existsb (fun p : nkind * nat => nkind_eqb (fst p) k && Nat.eqb (snd p) 0) ls
    = existsb (fun p : nkind * nat => nkind_eqb (fst p) k && Nat.eqb (snd p) 0) (filter is0l ls).
Proof.
  intros k ls. induction ls as [|[k' l] ls IH]; [reflexivity|].
  cbn. destruct (Nat.eqb l 0) eqn:El; cbn; rewrite ?El, IH; [reflexivity|].
  rewrite andb_false_r. reflexivity.
Qed.

Section LstApi.
  Variable orc : oracle.
  Variable imm : nat -> bool.
  Variable body : list xstmt.

  Let srel_l := srel keep0 ls_eq0 eq.
  Let arel_l := arel keep0 ls_eq0 eq.

  Lemma lst_erased_step : forall f s1 s2 c b s1',
      is_extra_reg c = true -> srel_l s1 s2 -> api_call orc imm f body s1 c = Ok (b, s1') -> srel_l s1' s2.
  Proof.
    intros f [g1 r1] [g2 r2] c b s1' Ec [Hr Hg] H. cbn [sc_root sc_g] in *. subst r2.
    destruct c as [|id| |k [|l]|o|o]; try discriminate; cbn [api_call sc_g sc_root] in H.
    destruct (existsb _ (g_ls (clear_log g1))); inv H.
    - split; [reflexivity|]. cbn [sc_g]. destruct Hg. constructor; cbn in *; auto.
    - split; [reflexivity|]. cbn [sc_g]. destruct Hg. constructor; cbn in *; auto.
      unfold ls_eq0 in *. rewrite filter_app. cbn. rewrite app_nil_r. assumption.
  Qed.

  Lemma lst_kept_step : forall f s1 s2 c,
      is_extra_reg c = false -> srel_l s1 s2 ->
      arel_l (api_call orc imm f body s1 c) (api_call orc imm f body s2 c).
  Proof.
    intros f s1 s2 c Ec Hs.
    destruct c as [|id| |k [|l]|o|o]; try discriminate;
      try (apply (api_core keep0 ls_eq0 eq emit_compat_l); [exact Hs|exact I]);
      destruct s1 as [g1 r1], s2 as [g2 r2]; destruct Hs as [Hr Hg]; cbn [sc_root sc_g] in *; subst r2;
      cbn [api_call sc_g sc_root].
    - rewrite (existsb_filter0 k (g_ls (clear_log g1))), (existsb_filter0 k (g_ls (clear_log g2))).
      rewrite (q_ls _ _ _ _ _ Hg).
      destruct (existsb _ (filter is0l (g_ls (clear_log g2)))).
      + cbn. auto.
      + cbn. split; [reflexivity|]. split; [reflexivity|].
        destruct Hg. constructor; cbn in *; auto.
        unfold ls_eq0 in *. rewrite !filter_app. congruence.
    - cbn. split; [reflexivity|]. split; [reflexivity|].
      destruct Hg. constructor; cbn in *; auto. congruence.
    - rewrite (q_obs _ _ _ _ _ Hg).
      destruct (remove_first (Nat.eqb o) (g_obs (clear_log g2))) as [l|]; [|reflexivity].
      cbn. split; [reflexivity|]. split; [reflexivity|].
      destruct Hg. constructor; cbn in *; auto.
  Qed.

  Definition only_function0 (s : sched) : Prop := only0 (g_ls (sc_g s)).

  Lemma lst_clean_step : forall f s c b s',
      is_extra_reg c = false -> only_function0 s -> api_call orc imm f body s c = Ok (b, s') ->
      only_function0 s' /\ filter keep0 (rev (g_log (sc_g s'))) = rev (g_log (sc_g s')).
  Proof.
    intros f s c b s' Ec Hc H. unfold only_function0 in *.
    destruct (api_shape orc imm body f s c b s' H) as (((evs & Hl & _) & _ & _) & Hn & _).
    split.
    - rewrite Hn. destruct c as [|id| |k [|l]|o|o]; try discriminate; try exact Hc.
      cbn [next_ls]. destruct (existsb _ (g_ls (sc_g s))); [exact Hc|].
      apply Forall_app. split; [exact Hc|]. constructor; [reflexivity|constructor].
    - cbn [observe cr_log] in Hl. rewrite Hl. apply render_only0. exact Hc.
  Qed.

  Lemma lst_eq_refl : forall g, lst_eq g g.
  Proof. intro g. constructor; reflexivity. Qed.

  (* general form: two schedulers that agree up to additional functions, the second one
     with function 0 only *)
  Theorem extra_listeners_do_not_influence_from : forall f cs s1 s2 tr,
      sc_root s1 = sc_root s2 -> lst_eq (sc_g s1) (sc_g s2) -> only0 (g_ls (sc_g s2)) ->
      run_script orc imm f body s1 cs = Ok tr ->
      run_script orc imm f body s2 (erase_reg_calls cs) = Ok (erase_reg_recs cs tr).
  Proof.
    intros f cs s1 s2 tr Hr Hg Ho H. rewrite erase_reg_recs_generic.
    apply (erase_sim keep0 ls_eq0 eq orc imm body is_extra_reg lst_erased_step lst_kept_step
                     only_function0 lst_clean_step f cs s1 s2 tr); [|exact Ho|exact H].
    split; [exact Hr|]. apply geq_clear. apply lst_eq_geq. exact Hg.
  Qed.

  (* registering additional functions changes nothing in what function 0, the observers and
     the value provider are told, nor in the reported state *)
  Theorem extra_listeners_do_not_influence : forall f cs tr,
      run_script orc imm f body sched0 cs = Ok tr ->
      run_script orc imm f body sched0 (erase_reg_calls cs) = Ok (erase_reg_recs cs tr).
  Proof.
    intros f cs tr H. apply (extra_listeners_do_not_influence_from f cs sched0 sched0 tr); auto.
    - apply lst_eq_refl.
    - cbn. repeat constructor.
  Qed.

  Corollary same_up_to_extra_listeners : forall f cs1 cs2 tr1 tr2,
      erase_reg_calls cs1 = erase_reg_calls cs2 ->
      run_script orc imm f body sched0 cs1 = Ok tr1 ->
      run_script orc imm f body sched0 cs2 = Ok tr2 ->
      erase_reg_recs cs1 tr1 = erase_reg_recs cs2 tr2.
  Proof.
    intros f cs1 cs2 tr1 tr2 E H1 H2.
    apply extra_listeners_do_not_influence in H1. apply extra_listeners_do_not_influence in H2.
    rewrite E in H1. rewrite H1 in H2. inv H2. reflexivity.
  Qed.

  (* both at once: the view of function 0 of a history with observers and additional
     functions is the view of the history without either *)
  Corollary function0_view_independent : forall f cs tr,
      run_script orc imm f body sched0 cs = Ok tr ->
      run_script orc imm f body sched0 (erase_reg_calls (erase_obs_calls cs))
      = Ok (erase_reg_recs (erase_obs_calls cs) (erase_obs_recs cs tr)).
  Proof.
    intros f cs tr H. apply extra_listeners_do_not_influence.
    apply observers_do_not_influence. exact H.
  Qed.
End LstApi.

(* ---- the erased traces contain nothing of what was filtered ---- *)
Lemma erase_obs_recs_clean : forall cs tr,
    Forall (fun r => strip (cr_log r) = cr_log r) (erase_obs_recs cs tr).
Proof.
  induction cs as [|c cs IH]; intros [|r tr]; cbn [erase_obs_recs]; try constructor.
  destruct (is_obs_call c); [apply IH|]. constructor; [|apply IH].
  cbn [strip_obs_rec cr_log]. apply filter_idem.
Qed.

Lemma erase_reg_recs_clean : forall cs tr,
    Forall (fun r => strip_l (cr_log r) = cr_log r) (erase_reg_recs cs tr).
Proof.
  induction cs as [|c cs IH]; intros [|r tr]; cbn [erase_reg_recs]; try constructor.
  destruct (is_extra_reg c); [apply IH|]. constructor; [|apply IH].
  cbn [strip_l_rec cr_log]. apply filter_idem.
Qed.

(* one record per remaining call *)
Lemma erase_obs_recs_length : forall cs tr,
    List.length tr = List.length cs ->
    List.length (erase_obs_recs cs tr) = List.length (erase_obs_calls cs).
Proof.
  induction cs as [|c cs IH]; intros [|r tr] H; cbn in H; try discriminate; [reflexivity|].
  unfold erase_obs_calls. cbn [erase_obs_recs filter]. destruct (is_obs_call c); cbn [negb List.length].
  - apply IH. lia.
  - f_equal. apply IH. lia.
Qed.

(* ================================================================================== *)
(* All outcomes, not only successful runs.                                            *)
(* ================================================================================== *)

(* no detach of an observer that is not attached (Python: list.remove raises ValueError) *)
Fixpoint detach_ok (obs : list nat) (cs : list apicall) : Prop :=
  match cs with
  | [] => True
  | c :: r =>
    match c with ADetach o => mem o obs = true | _ => True end /\ detach_ok (next_obs obs c) r
  end.

Lemma mem_remove_first : forall o obs,
    mem o obs = true -> exists l, remove_first (Nat.eqb o) obs = Some l.
Proof.
  intros o obs. induction obs as [|x obs IH]; cbn; [discriminate|].
  destruct (Nat.eqb o x); [intros _; eexists; reflexivity|]. cbn. intro H.
  destruct (IH H) as [l ->]. eexists; reflexivity.
Qed.

Section Total.
  Variable orc : oracle.
  Variable imm : nat -> bool.
  Variable body : list xstmt.

  Lemma obs_erased_succeed : forall f cs s,
      detach_ok (g_obs (sc_g s)) cs -> erased_succeed orc imm body is_obs_call f s cs.
  Proof.
    intros f cs. induction cs as [|c cs IH]; intros s H; [exact I|]. destruct H as [H1 H2].
    cbn [erased_succeed].
    destruct (api_call orc imm f body s c) as [[b s']| | |] eqn:E.
    - apply IH. rewrite (proj2 (proj2 (api_shape orc imm body f s c b s' E))). exact H2.
    - destruct c as [|id| |kk l|o|o]; try reflexivity; exfalso; cbn [api_call] in E; [discriminate|].
      destruct (mem_remove_first _ _ H1) as [l Hl].
      change (g_obs (clear_log (sc_g s))) with (g_obs (sc_g s)) in E. rewrite Hl in E. discriminate.
    - destruct c as [|id| |kk l|o|o]; try reflexivity; exfalso; cbn [api_call] in E; [discriminate|].
      destruct (mem_remove_first _ _ H1) as [l Hl].
      change (g_obs (clear_log (sc_g s))) with (g_obs (sc_g s)) in E. rewrite Hl in E. discriminate.
    - destruct c as [|id| |kk l|o|o]; try reflexivity; exfalso; cbn [api_call] in E; [discriminate|].
      destruct (mem_remove_first _ _ H1) as [l Hl].
      change (g_obs (clear_log (sc_g s))) with (g_obs (sc_g s)) in E. rewrite Hl in E. discriminate.
  Qed.

  (* with valid detaches, the run without observers ends exactly like the run with them:
     success with the erased trace, or the same failure *)
  Theorem observers_do_not_influence_total : forall f cs,
      detach_ok [] cs ->
      run_script orc imm f body sched0 (erase_obs_calls cs)
      = res_map (erase_obs_recs cs) (run_script orc imm f body sched0 cs).
  Proof.
    intros f cs H.
    assert (X : run_script orc imm f body sched0 (erase_obs_calls cs)
                = res_map (erase_recs not_obs is_obs_call cs) (run_script orc imm f body sched0 cs)).
    { apply (erase_sim_total not_obs eq any_obs orc imm body is_obs_call
                             (obs_erased_step orc imm body) (obs_kept_step orc imm body)
                             no_observers (obs_clean_step orc imm body) f cs sched0 sched0).
      - split; [reflexivity|]. apply geq_clear. apply obs_eq_geq. apply obs_eq_refl.
      - reflexivity.
      - apply obs_erased_succeed. exact H. }
    rewrite X. destruct (run_script orc imm f body sched0 cs); cbn [res_map]; try reflexivity;
      rewrite erase_obs_recs_generic; reflexivity.
  Qed.

  (* in particular, attaching observers to a successful run cannot make it fail *)
  Corollary observers_cannot_break : forall f cs tr',
      detach_ok [] cs ->
      run_script orc imm f body sched0 (erase_obs_calls cs) = Ok tr' ->
      exists tr, run_script orc imm f body sched0 cs = Ok tr /\ tr' = erase_obs_recs cs tr.
  Proof.
    intros f cs tr' H E. rewrite (observers_do_not_influence_total f cs H) in E.
    destruct (run_script orc imm f body sched0 cs) as [tr| | |]; cbn [res_map] in E; try discriminate.
    inv E. eexists; split; reflexivity.
  Qed.

  Lemma lst_erased_succeed : forall f cs s, erased_succeed orc imm body is_extra_reg f s cs.
  Proof.
    intros f cs. induction cs as [|c cs IH]; intro s; [exact I|]. cbn [erased_succeed].
    destruct (api_call orc imm f body s c) as [[b s']| | |] eqn:E; [apply IH| | |];
      (destruct c as [|id| |kk [|l]|o|o]; try reflexivity; exfalso; cbn [api_call] in E;
       destruct (existsb _ (g_ls (clear_log (sc_g s)))); discriminate).
  Qed.

  (* registrations never fail: the two runs always end alike *)
  Theorem extra_listeners_do_not_influence_total : forall f cs,
      run_script orc imm f body sched0 (erase_reg_calls cs)
      = res_map (erase_reg_recs cs) (run_script orc imm f body sched0 cs).
  Proof.
    intros f cs.
    assert (X : run_script orc imm f body sched0 (erase_reg_calls cs)
                = res_map (erase_recs keep0 is_extra_reg cs) (run_script orc imm f body sched0 cs)).
    { apply (erase_sim_total keep0 ls_eq0 eq orc imm body is_extra_reg
                             (lst_erased_step orc imm body) (lst_kept_step orc imm body)
                             only_function0 (lst_clean_step orc imm body) f cs sched0 sched0).
      - split; [reflexivity|]. apply geq_clear. apply lst_eq_geq. apply lst_eq_refl.
      - cbn. repeat constructor.
      - apply lst_erased_succeed. }
    rewrite X. destruct (run_script orc imm f body sched0 cs); cbn [res_map]; try reflexivity;
      rewrite erase_reg_recs_generic; reflexivity.
  Qed.
End Total.

(* ---- a concrete history, by evaluation (the theorems are not vacuous) ---- *)
Module ObsExample.
  Definition orc0 : oracle := fun _ _ => None.
  Definition imm0 : nat -> bool := fun _ => false.
  Definition st1 : site := {| st_task := 0; st_path := [0] |}.
  Definition body0 : list xstmt := [XService 1 st1 []; XCall 2 st1 [] [XService 3 st1 []]].
  Definition cs0 : list apicall :=
    [AAttach 7; ARegister SS 5; AStart; AAttach 8; AFinish 0; ADetach 7; AFinish 1; ADetach 8].

  Definition has_obs_entry (r : callrec) : bool := existsb (fun e => negb (not_obs e)) (cr_log r).
  Definition has_extra_entry (r : callrec) : bool := existsb (fun e => negb (keep0 e)) (cr_log r).

  Example run_with_observers :
    match run_script orc0 imm0 50 body0 sched0 cs0 with
    | Ok tr =>
      existsb has_obs_entry tr = true /\ existsb has_extra_entry tr = true
      /\ List.length tr = 8 /\ List.length (erase_obs_recs cs0 tr) = 4
      /\ existsb has_obs_entry (erase_obs_recs cs0 tr) = false
      /\ run_script orc0 imm0 50 body0 sched0 (erase_obs_calls cs0) = Ok (erase_obs_recs cs0 tr)
      /\ run_script orc0 imm0 50 body0 sched0 (erase_reg_calls cs0) = Ok (erase_reg_recs cs0 tr)
    | _ => False
    end.
  Proof. vm_compute. repeat split; reflexivity. Qed.
End ObsExample.
