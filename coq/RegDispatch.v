(* Dispatch of the registered functions under RE-ENTRANT registration (property C20).

   pfdl_scheduler/scheduler.py, for each of the four kinds (task started / task finished /
   service started / service finished):

       def register_callback_<kind>(self, callback):
           if callback not in self.task_callbacks.<kind>:
               self.task_callbacks.<kind>.append(callback)
               return True
           print("The given Callback function is already registered!")
           return False

       def on_<kind>(self, api):
           ...
           for callback in self.task_callbacks.<kind>:
               callback(api)
           ... self.notify(NotificationType.LOG_EVENT, ...)

   There is no unregister.  A callback may itself call register_callback_* (for the kind being
   dispatched or for another kind), and the engine's callback (function 0) may report a
   completion from inside service_started, so that the rest of the order -- further
   notifications, also of the SAME kind -- is dispatched NESTED inside that invocation.
   RefSem.v / NetModel.v cover registration between API calls only; this file models the loop.

   The loop runs over the LIVE list: CPython's list iterator keeps an index
   (i := 0; while i < len(l): call l[i]; i += 1), and the lists only ever grow at the end.
   Hence a function registered for the kind that is being dispatched IS invoked for the
   current notification, after the functions registered before it (and for every enclosing
   notification of that kind that is still being dispatched); a function registered for
   another kind is in that kind's list from then on.  (Confirmed on the real code by the
   correspondence slice harness/kind_reg.py.)

   Functions are numbers; function 0 is the engine's callback, registered first for every
   kind.  A reaction [react f n] = the registrations function f makes when it is invoked for
   notification number n (preorder numbering: a notification is numbered when its dispatch
   starts).  A callback that registers a fresh function at every invocation makes the Python
   loop run for ever; hence the fuel ([None] = fuel exhausted).

   [run_deferred]: the variant of seeded change C20-r3m2 (registrations made during a dispatch
   are parked and appended when the outermost dispatch has returned; the duplicate test does
   not see the parked ones).

   Definitions only; stdlib only.  Theorems: RegDispatchProofs.v, restated in
   Properties/C20reg.v. *)
From Coq Require Import List Arith Bool.
Import ListNotations.

Inductive kind : Type := TS | TF | SS | SF.

Definition kind_eqb (a b : kind) : bool :=
  match a, b with
  | TS, TS | TF, TF | SS, SS | SF, SF => true
  | _, _ => false
  end.

(* the four callback lists: task started, task finished, service started, service finished *)
Definition cbs : Type := (list nat * list nat * list nat * list nat)%type.

Definition get (K : kind) (s : cbs) : list nat :=
  match s with
  | (a, b, c, d) => match K with TS => a | TF => b | SS => c | SF => d end
  end.

Definition set (K : kind) (l : list nat) (s : cbs) : cbs :=
  match s with
  | (a, b, c, d) =>
      match K with
      | TS => (l, b, c, d) | TF => (a, l, c, d) | SS => (a, b, l, d) | SF => (a, b, c, l)
      end
  end.

Definition memb (x : nat) (l : list nat) : bool := existsb (Nat.eqb x) l.

Definition add (K : kind) (g : nat) (s : cbs) : cbs := set K (get K s ++ [g]) s.

(* register_callback_<K>(g): return value and lists afterwards *)
Definition register (K : kind) (g : nat) (s : cbs) : bool * cbs :=
  if memb g (get K s) then (false, s) else (true, add K g s).

(* what can be seen of a run *)
Inductive event : Type :=
| EInv (n : nat) (K : kind) (g : nat)                (* g invoked for notification n (of kind K) *)
| EReg (n f : nat) (K : kind) (g : nat) (ok : bool)  (* inside that invocation of f: register_callback_K(g) returned ok *)
| EOut (K : kind) (g : nat) (ok : bool)              (* registration from outside, between API calls *)
| EEnd (n : nat) (K : kind) (l : list nat).          (* the loop of notification n has ended; l = the list of K then *)

Definition reaction := nat -> nat -> list (kind * nat).

Fixpoint do_regs (n f : nat) (regs : list (kind * nat)) (s : cbs) : list event * cbs :=
  match regs with
  | [] => ([], s)
  | (K, g) :: rest =>
      let (ok, s1) := register K g s in
      let (ev, s2) := do_regs n f rest s1 in
      (EReg n f K g ok :: ev, s2)
  end.

(* a notification and the notifications dispatched nested inside the invocation of function 0
   (the engine reports a completion from inside its callback, after its own registrations) *)
Inductive notif : Type := Notif (K : kind) (children : list notif).

(* result: events, next free notification number, lists afterwards *)
Fixpoint run_node (fuel : nat) (react : reaction) (nd : notif) (n : nat) (s : cbs) {struct fuel}
  : option (list event * nat * cbs) :=
  match fuel with
  | 0 => None
  | S f => match nd with Notif K ch => run_loop f react K ch n (S n) 0 s end
  end
(* the loop of notification n (kind K) from index i on; next = next free number *)
with run_loop (fuel : nat) (react : reaction) (K : kind) (ch : list notif) (n next i : nat) (s : cbs)
              {struct fuel} : option (list event * nat * cbs) :=
  match fuel with
  | 0 => None
  | S f =>
      match nth_error (get K s) i with
      | None => Some ([EEnd n K (get K s)], next, s)
      | Some g =>
          let (evr, s1) := do_regs n g (react g n) s in
          match (if Nat.eqb g 0 then run_forest f react ch next s1 else Some ([], next, s1)) with
          | None => None
          | Some (evc, next1, s2) =>
              match run_loop f react K ch n next1 (S i) s2 with
              | None => None
              | Some (ev', next2, s3) => Some (EInv n K g :: evr ++ evc ++ ev', next2, s3)
              end
          end
      end
  end
with run_forest (fuel : nat) (react : reaction) (ch : list notif) (next : nat) (s : cbs)
                {struct fuel} : option (list event * nat * cbs) :=
  match fuel with
  | 0 => None
  | S f =>
      match ch with
      | [] => Some ([], next, s)
      | nd :: rest =>
          match run_node f react nd next s with
          | None => None
          | Some (ev, nx, s1) =>
              match run_forest f react rest nx s1 with
              | None => None
              | Some (ev2, nx2, s2) => Some (ev ++ ev2, nx2, s2)
              end
          end
      end
  end.

(* a whole run: registrations from outside and top-level notifications *)
Inductive step : Type :=
| Out (K : kind) (g : nat)
| Top (nd : notif).

Fixpoint run_steps (fuel : nat) (react : reaction) (steps : list step) (n : nat) (s : cbs)
  : option (list event * nat * cbs) :=
  match steps with
  | [] => Some ([], n, s)
  | Out K g :: rest =>
      let (ok, s1) := register K g s in
      match run_steps fuel react rest n s1 with
      | None => None
      | Some (ev, n', s') => Some (EOut K g ok :: ev, n', s')
      end
  | Top nd :: rest =>
      match run_node fuel react nd n s with
      | None => None
      | Some (ev, n1, s1) =>
          match run_steps fuel react rest n1 s1 with
          | None => None
          | Some (ev2, n', s') => Some (ev ++ ev2, n', s')
          end
      end
  end.

(* ---- reading a run back from its events ---- *)
Definition apply_event (e : event) (s : cbs) : cbs :=
  match e with
  | EReg _ _ K g true => add K g s
  | EOut K g true => add K g s
  | _ => s
  end.

(* the lists after the events [ev], starting from s: every accepted registration appends *)
Definition replay (ev : list event) (s : cbs) : cbs := fold_left (fun s e => apply_event e s) ev s.

(* the functions accepted for kind K, in order of acceptance *)
Definition accepted (K : kind) (ev : list event) : list nat :=
  flat_map (fun e => match e with
                     | EReg _ _ K' g true => if kind_eqb K' K then [g] else []
                     | EOut K' g true => if kind_eqb K' K then [g] else []
                     | _ => []
                     end) ev.

(* the functions invoked for notification m, in order *)
Definition invoked (m : nat) (ev : list event) : list nat :=
  flat_map (fun e => match e with EInv n _ g => if Nat.eqb n m then [g] else [] | _ => [] end) ev.

(* every return value and every end-of-loop list agrees with the lists as reconstructed from
   the events before it *)
Definition ok_event (s : cbs) (e : event) : Prop :=
  match e with
  | EInv _ _ _ => True
  | EReg _ _ K g ok => ok = negb (memb g (get K s))
  | EOut K g ok => ok = negb (memb g (get K s))
  | EEnd _ K l => l = get K s
  end.

Fixpoint sound (s : cbs) (ev : list event) : Prop :=
  match ev with
  | [] => True
  | e :: rest => ok_event s e /\ sound (apply_event e s) rest
  end.

Definition nodup (s : cbs) : Prop := forall K, NoDup (get K s).

(* ---- the deferred variant (seeded change C20-r3m2), without nesting ----
   during a dispatch a registration is tested against the list only and parked; the parked
   registrations are appended when the dispatch has returned *)
Definition register_deferred (K : kind) (g : nat) (s : cbs) (pending : list (kind * nat))
  : bool * list (kind * nat) :=
  if memb g (get K s) then (false, pending) else (true, pending ++ [(K, g)]).

Fixpoint do_regs_deferred (n f : nat) (regs : list (kind * nat)) (s : cbs) (pending : list (kind * nat))
  : list event * list (kind * nat) :=
  match regs with
  | [] => ([], pending)
  | (K, g) :: rest =>
      let (ok, p1) := register_deferred K g s pending in
      let (ev, p2) := do_regs_deferred n f rest s p1 in
      (EReg n f K g ok :: ev, p2)
  end.

Fixpoint loop_deferred (react : reaction) (n : nat) (K : kind) (fs : list nat) (s : cbs)
         (pending : list (kind * nat)) : list event * list (kind * nat) :=
  match fs with
  | [] => ([], pending)
  | g :: rest =>
      let (evr, p1) := do_regs_deferred n g (react g n) s pending in
      let (ev, p2) := loop_deferred react n K rest s p1 in
      (EInv n K g :: evr ++ ev, p2)
  end.

Definition flush (pending : list (kind * nat)) (s : cbs) : cbs :=
  fold_left (fun s r => add (fst r) (snd r) s) pending s.

Inductive dstep : Type :=
| DOut (K : kind) (g : nat)
| DNotify (K : kind).

Fixpoint run_deferred (react : reaction) (steps : list dstep) (n : nat) (s : cbs) : list event * cbs :=
  match steps with
  | [] => ([], s)
  | DOut K g :: rest =>
      let (ok, s1) := register K g s in
      let (ev, s') := run_deferred react rest n s1 in
      (EOut K g ok :: ev, s')
  | DNotify K :: rest =>
      let (ev1, pending) := loop_deferred react n K (get K s) s [] in
      let s1 := flush pending s in
      let (ev2, s') := run_deferred react rest (S n) s1 in
      (ev1 ++ EEnd n K (get K s1) :: ev2, s')
  end.

(* ---- for the harness: reactions as a table, results as numbers ---- *)
Fixpoint react_of_table (t : list (nat * nat * list (kind * nat))) (f n : nat) : list (kind * nat) :=
  match t with
  | [] => []
  | (f', n', regs) :: rest =>
      if Nat.eqb f f' && Nat.eqb n n' then regs else react_of_table rest f n
  end.

Definition kind_code (K : kind) : nat := match K with TS => 0 | TF => 1 | SS => 2 | SF => 3 end.
Definition bool_code (b : bool) : nat := if b then 1 else 0.

Definition event_code (e : event) : list nat :=
  match e with
  | EInv n K g => [0; n; kind_code K; g]
  | EReg n f K g ok => [1; n; f; kind_code K; g; bool_code ok]
  | EOut K g ok => [2; kind_code K; g; bool_code ok]
  | EEnd n K l => 3 :: n :: kind_code K :: l
  end.

Definition run_coded (fuel : nat) (t : list (nat * nat * list (kind * nat))) (steps : list step) (s : cbs)
  : option (list (list nat) * nat * cbs) :=
  match run_steps fuel (react_of_table t) steps 0 s with
  | None => None
  | Some (ev, n, s') => Some (map event_code ev, n, s')
  end.

(* ---- computation examples ---- *)
(* notification 0 (task started): function 1 registers 5 for the kind being dispatched and 6 for
   service started; 5 is invoked in the same notification, after 0, 1, 2; function 2's attempt
   to register 5 again is refused *)
Example ex_same_kind :
  run_steps 20 (react_of_table [((1, 0), [(TS, 5); (SS, 6)]); ((2, 0), [(TS, 5)])])
            [Top (Notif TS [])] 0 ([0; 1; 2], [0], [0], [0])
  = Some ([EInv 0 TS 0; EInv 0 TS 1; EReg 0 1 TS 5 true; EReg 0 1 SS 6 true;
           EInv 0 TS 2; EReg 0 2 TS 5 false; EInv 0 TS 5; EEnd 0 TS [0; 1; 2; 5]],
          1, ([0; 1; 2; 5], [0], [0; 6], [0])).
Proof. reflexivity. Qed.

(* the engine (function 0) registers 4 for task finished inside service started (notification 0)
   and then completes the service at once: service finished (1) and task finished (2) are
   dispatched nested, and 4 receives the task finished notification *)
Example ex_nested :
  run_steps 20 (react_of_table [((0, 0), [(TF, 4)])])
            [Top (Notif SS [Notif SF []; Notif TF []])] 0 ([0], [0], [0; 1], [0])
  = Some ([EInv 0 SS 0; EReg 0 0 TF 4 true;
             EInv 1 SF 0; EEnd 1 SF [0];
             EInv 2 TF 0; EInv 2 TF 4; EEnd 2 TF [0; 4];
           EInv 0 SS 1; EEnd 0 SS [0; 1]],
          3, ([0], [0; 4], [0; 1], [0])).
Proof. reflexivity. Qed.

(* the deferred variant: both registrations of 5 are accepted, 5 fires twice from then on *)
Example ex_deferred :
  run_deferred (react_of_table [((1, 0), [(TS, 5)]); ((2, 0), [(TS, 5)])])
               [DNotify TS; DNotify TS] 0 ([0; 1; 2], [0], [0], [0])
  = ([EInv 0 TS 0; EInv 0 TS 1; EReg 0 1 TS 5 true; EInv 0 TS 2; EReg 0 2 TS 5 true;
      EEnd 0 TS [0; 1; 2; 5; 5];
      EInv 1 TS 0; EInv 1 TS 1; EInv 1 TS 2; EInv 1 TS 5; EInv 1 TS 5; EEnd 1 TS [0; 1; 2; 5; 5]],
     ([0; 1; 2; 5; 5], [0], [0], [0])).
Proof. reflexivity. Qed.
