(* NetC08Erase.v — "behaves exactly as if the rejected event had never been sent", on the
   FAITHFUL model (NetModel.v): a rejected call (junk, a completion that is not awaited, a
   repeated start) can be erased from ANY history of API calls; the records of all later
   calls are the same, and the record of the rejected call itself shows the state before
   it with an empty log.  Also for a whole burst of rejected calls.  Proof file. *)
From PFDL Require Import NetModel NetRun NetC08.

Section Erase.
  Variable tasks : list task.
  Variable env : envcfg.

  Definition net_rejected (s : NS) (c : apicall) : bool :=
    match c with
    | AFinish id => negb (existsb (event_eqb (EvFinish (ITest id))) (ns_awaited s))
    | AJunk => true
    | AStart => negb (existsb (event_eqb EvStart) (ns_awaited s))
    | _ => false
    end.

  Definition rejected_ret (c : apicall) : bool := match c with AStart => true | _ => false end.

  Lemma net_api_call_cleared : forall f s c,
      net_api_call tasks env f (cleared s) c = net_api_call tasks env f s c.
  Proof. intros f s c. destruct s; reflexivity. Qed.

  Lemma net_run_script_cleared : forall f cs s,
      net_run_script tasks env f (cleared s) cs = net_run_script tasks env f s cs.
  Proof.
    intros f cs s. destruct cs as [|c cs]; [reflexivity|].
    cbn [net_run_script]. rewrite net_api_call_cleared. reflexivity.
  Qed.

  Lemma net_rejected_call : forall f s c,
      net_rejected s c = true ->
      net_api_call tasks env (S f) s c = Ok (rejected_ret c, cleared s).
  Proof.
    intros f s c H. destruct c as [|id| |k l|o|o]; cbn [net_rejected] in H; try discriminate H.
    - apply net_api_start_again. apply Bool.negb_true_iff. exact H.
    - apply net_api_reject_finish. apply Bool.negb_true_iff. exact H.
    - apply net_api_reject_junk.
  Qed.

  (* erasing one rejected call from a history *)
  Theorem net_erase_rejected : forall f s c cs,
      net_rejected s c = true ->
      net_run_script tasks env (S f) s (c :: cs) =
      rbind (net_run_script tasks env (S f) s cs)
            (fun t => Ok (net_observe (rejected_ret c) (cleared s) :: t)).
  Proof.
    intros f s c cs H. cbn [net_run_script]. rewrite (net_rejected_call f s c H).
    cbn [rbind]. rewrite net_run_script_cleared. reflexivity.
  Qed.

  Lemma net_rejected_cleared : forall s c, net_rejected (cleared s) c = net_rejected s c.
  Proof. intros s c. destruct s; reflexivity. Qed.

  (* a burst of rejected calls: every one of them is answered like the first, and the rest
     of the history runs as if none of them had been sent *)
  Theorem net_erase_rejected_burst : forall f s bs cs,
      forallb (net_rejected s) bs = true ->
      net_run_script tasks env (S f) s (bs ++ cs) =
      rbind (net_run_script tasks env (S f) s cs)
            (fun t => Ok (map (fun c => net_observe (rejected_ret c) (cleared s)) bs ++ t)).
  Proof.
    intros f s bs. induction bs as [|b bs IH]; intros cs H.
    - cbn [app map]. destruct (net_run_script tasks env (S f) s cs); reflexivity.
    - cbn [forallb] in H. apply Bool.andb_true_iff in H. destruct H as [Hb Hbs].
      change ((b :: bs) ++ cs) with (b :: (bs ++ cs)).
      rewrite (net_erase_rejected f s b (bs ++ cs) Hb). rewrite (IH cs Hbs).
      destruct (net_run_script tasks env (S f) s cs) as [t| | |]; reflexivity.
  Qed.

  (* the record of a rejected call: empty log, everything else as before the call *)
  Theorem net_rejected_record : forall s c,
      cr_log (net_observe (rejected_ret c) (cleared s)) = []
      /\ cr_running (net_observe (rejected_ret c) (cleared s)) = ns_running s
      /\ cr_awaited (net_observe (rejected_ret c) (cleared s)) = cr_awaited (net_observe false s)
      /\ cr_final (net_observe (rejected_ret c) (cleared s)) = cr_final (net_observe false s).
  Proof. intros s c. destruct s; repeat split. Qed.
End Erase.

(* ---- the premises are met by a non-trivial reachable state ------------------------------
   the example of Examples.v after start(): the order runs, a completion is awaited; junk, a
   completion nobody awaits, a second start and more junk are all rejected there, while the
   awaited completion is not *)
From PFDL Require Import Examples.

Definition ex_after_start : res NS :=
  rbind (net_init (p_tasks (rc_prog ex_case)) true) (fun s =>
  match net_api_call (p_tasks (rc_prog ex_case)) (env_of ex_case) net_fuel s AStart with
  | Ok (_, s') => Ok s' | Fuel => Fuel | Exn k => Exn k | Unsupported => Unsupported end).

Example erase_premise_inhabited :
  exists s, ex_after_start = Ok s
            /\ ns_running s = true
            /\ ns_awaited s <> []
            /\ forallb (net_rejected s) [AJunk; AFinish 77; AStart; AJunk; AFinish 78] = true
            /\ existsb (fun id => negb (net_rejected s (AFinish id))) (seq 0 4) = true.
Proof.
  eexists. split; [vm_compute; reflexivity|].
  split; [reflexivity|]. split; [discriminate|]. split; vm_compute; reflexivity.
Qed.
