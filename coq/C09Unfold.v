(* C09Unfold.v — the run-time half of C09, first step: the call-tree unfolding of a program the
   validator accepts (more generally: of a sched_safe program) succeeds as soon as the fuel is at
   least (number of tasks) * (maximal nesting depth of a statement).  No KeyError (every visited
   call names a defined task), no Unsupported (parallel loops are single calls), no RecursionError
   (no visited call leads back to an ancestor of the calling task).  Proof file. *)
From PFDL Require Import Base Syntax Unfold C09UnfoldBase.
From PFDL.Check Require Import CheckModel CheckProofsBase CheckProofsC10 CheckProofsC09
     CheckProofsC11 TypingProofs.

(* ------------------------------------------------------------------------------ *)
(* the bound                                                                       *)
(* ------------------------------------------------------------------------------ *)
Definition lmax (l : list nat) : nat := fold_right Nat.max 0 l.

(* nesting depth of a statement: the fuel unfold_stmt spends below it inside its own task *)
Fixpoint sdepth (s : stmt) : nat :=
  match s with
  | SService _ _ _ => 1
  | SCall _ => 1
  | SParallel _ => 1
  | SWhile _ b => S (lmax (map sdepth b))
  | SCount _ _ _ b => S (lmax (map sdepth b))
  | SCond _ p f => S (Nat.max (lmax (map sdepth p)) (lmax (map sdepth f)))
  end.

Definition max_depth (p : program) : nat :=
  lmax (map (fun t => lmax (map sdepth (t_body t))) (p_tasks p)).

Definition unfold_bound (p : program) : nat := length (p_tasks p) * max_depth p.

Lemma lmax_ge : forall l x, In x l -> x <= lmax l.
Proof.
  induction l as [|y r IH]; intros x H; [destruct H|]. cbn [lmax fold_right].
  destruct H as [->|H]; [lia|]. apply IH in H. unfold lmax in H. lia.
Qed.

Lemma lmax_map_ge : forall A (g : A -> nat) l x, In x l -> g x <= lmax (map g l).
Proof. intros A g l x H. apply lmax_ge. apply in_map. exact H. Qed.

Lemma sdepth_le_max_depth : forall p t s,
  In t (p_tasks p) -> In s (t_body t) -> sdepth s <= max_depth p.
Proof.
  intros p t s Ht Hs. unfold max_depth.
  pose proof (lmax_map_ge _ (fun t => lmax (map sdepth (t_body t))) _ _ Ht) as H1. cbn beta in H1.
  pose proof (lmax_map_ge _ sdepth _ _ Hs) as H2. lia.
Qed.

(* ------------------------------------------------------------------------------ *)
(* small list facts                                                                *)
(* ------------------------------------------------------------------------------ *)
Lemma existsb_false_in : forall A (g : A -> bool) l, existsb g l = false -> forall x, In x l -> g x = false.
Proof.
  intros A g l H x Hin. destruct (g x) eqn:Hg; [|reflexivity].
  assert (existsb g l = true) by (apply existsb_exists; exists x; auto). congruence.
Qed.

Lemma find_task_In : forall n ts t, find_task n ts = Some t -> In t ts /\ t_name t = n.
Proof. intros n ts t H. destruct (find_task_in _ _ _ H) as [H1 H2]. auto. Qed.

Lemma find_task_none_assoc : forall l i n,
  find_task n l = None ->
  assoc n (map (fun ix => (t_name (snd ix), visit_task (fst ix) (snd ix))) (index_from i l)) = None.
Proof.
  induction l as [|x r IH]; intros i n H; [reflexivity|]. cbn [find_task] in H.
  cbn [index_from map fst snd assoc]. destruct (Nat.eqb n (t_name x)); [discriminate|]. apply IH. exact H.
Qed.

(* dict lookups do not see the dropped duplicates *)
Lemma assoc_dedup_first : forall V (l : list (name * V)) seen n,
  mem n seen = false -> assoc n (dedup_first seen l) = assoc n l.
Proof.
  intros V l. induction l as [|[k v] r IH]; intros seen n Hn; [reflexivity|].
  cbn [dedup_first assoc]. destruct (mem k seen) eqn:Hk.
  - destruct (Nat.eqb n k) eqn:Hnk.
    + apply Nat.eqb_eq in Hnk. subst. congruence.
    + apply IH. exact Hn.
  - cbn [assoc]. destruct (Nat.eqb n k) eqn:Hnk; [reflexivity|].
    apply IH. cbn [mem]. rewrite Hnk, Hn. reflexivity.
Qed.

Lemma dedup_first_length : forall V (l : list (name * V)) seen, length (dedup_first seen l) <= length l.
Proof.
  intros V l. induction l as [|[k v] r IH]; intro seen; [apply le_n|].
  cbn [dedup_first]. destruct (mem k seen); cbn [length].
  - specialize (IH seen). lia.
  - specialize (IH (k :: seen)). lia.
Qed.

Lemma index_from_length : forall A (l : list A) i, length (index_from i l) = length l.
Proof. intros A l. induction l as [|x r IH]; intro i; [reflexivity|]. cbn. rewrite IH. reflexivity. Qed.

(* ------------------------------------------------------------------------------ *)
(* the bridge between find_task on p_tasks and the task dict of the visitor         *)
(* ------------------------------------------------------------------------------ *)
Lemma e_tasks_length : forall p, length (e_tasks (visit_env p)) <= length (p_tasks p).
Proof.
  intro p. unfold visit_env. cbn [e_tasks].
  eapply Nat.le_trans; [apply dedup_first_length|]. rewrite map_length, index_from_length. apply le_n.
Qed.

Lemma find_task_tdef : forall p n t,
  find_task n (p_tasks p) = Some t ->
  exists i, assoc n (e_tasks (visit_env p)) = Some (visit_task i t)
            /\ In (n, visit_task i t) (e_tasks (visit_env p)).
Proof.
  intros p n t H. destruct (assoc_indexed_task (p_tasks p) 0 n t H) as (i & Hi).
  exists i. assert (Ha : assoc n (e_tasks (visit_env p)) = Some (visit_task i t)).
  { unfold visit_env. cbn [e_tasks]. rewrite assoc_dedup_first; [exact Hi | reflexivity]. }
  split; [exact Ha | apply assoc_In; exact Ha].
Qed.

Lemma find_task_none_tdef : forall p n,
  find_task n (p_tasks p) = None -> assoc n (e_tasks (visit_env p)) = None.
Proof.
  intros p n H. unfold visit_env. cbn [e_tasks]. rewrite assoc_dedup_first; [|reflexivity].
  apply find_task_none_assoc. exact H.
Qed.

Lemma find_task_has_key : forall p n t,
  find_task n (p_tasks p) = Some t -> has_key n (e_tasks (visit_env p)) = true.
Proof.
  intros p n t H. destruct (find_task_tdef p n t H) as (i & Ha & _). unfold has_key. rewrite Ha. reflexivity.
Qed.

Lemma has_key_find_task : forall p n,
  has_key n (e_tasks (visit_env p)) = true -> exists t, find_task n (p_tasks p) = Some t.
Proof.
  intros p n H. destruct (find_task n (p_tasks p)) as [t|] eqn:Hf; [eauto|].
  apply find_task_none_tdef in Hf. unfold has_key in H. rewrite Hf in H. discriminate.
Qed.

Lemma calls_of_task_find_task : forall p n t,
  find_task n (p_tasks p) = Some t ->
  calls_of_task (visit_env p) n = flat_map stmt_calls (t_body t).
Proof.
  intros p n t H. destruct (find_task_tdef p n t H) as (i & Ha & _).
  unfold calls_of_task, find_tdef. rewrite Ha. reflexivity.
Qed.

(* ------------------------------------------------------------------------------ *)
(* the calls the unfolding visits (the traversal of visible_exists)                 *)
(* ------------------------------------------------------------------------------ *)
Fixpoint vis_calls (s : stmt) : list call :=
  match s with
  | SService _ _ _ => []
  | SCall c => [c]
  | SParallel cs => cs
  | SWhile _ b => flat_map vis_calls b
  | SCount false _ _ b => flat_map vis_calls b
  | SCount true _ _ b => match b with [SCall c] => [c] | _ => [] end
  | SCond _ p f => flat_map vis_calls p ++ flat_map vis_calls f
  end.

Lemma vis_calls_stmt_calls : forall s c, In c (vis_calls s) -> In (c_name c) (stmt_calls s).
Proof.
  intro s. induction s as [n ins outs|c0|cs|e b IHb|par v l b IHb|e p f IHp IHf] using stmt_ind';
    intros c H; cbn [vis_calls stmt_calls] in *.
  - destruct H.
  - destruct H as [->|[]]. left. reflexivity.
  - apply in_map. exact H.
  - apply in_flat_map in H. destruct H as (s1 & Hin & H). apply in_flat_map. exists s1. split; [exact Hin|].
    rewrite Forall_forall in IHb. apply IHb; assumption.
  - destruct par.
    + destruct b as [|[] []]; cbn in H; try contradiction. destruct H as [->|[]]. cbn. left. reflexivity.
    + apply in_flat_map in H. destruct H as (s1 & Hin & H). apply in_flat_map. exists s1. split; [exact Hin|].
      rewrite Forall_forall in IHb. apply IHb; assumption.
  - rewrite Forall_forall in IHp, IHf. apply in_app_iff in H. apply in_app_iff.
    destruct H as [H|H]; [left|right]; apply in_flat_map in H; destruct H as (s1 & Hin & H);
      apply in_flat_map; exists s1; (split; [exact Hin|]); auto.
Qed.

(* a local defect of calls that is nowhere visible holds of no visited call *)
Lemma vis_calls_no_fault : forall (P : stmt -> bool) (Pc : call -> bool),
  (forall c, P (SCall c) = Pc c) -> (forall cs, P (SParallel cs) = existsb Pc cs) ->
  forall s, visible_exists P s = false -> forall c, In c (vis_calls s) -> Pc c = false.
Proof.
  intros P Pc HPc HPp s.
  induction s as [n ins outs|c0|cs|e b IHb|par v l b IHb|e p f IHp IHf] using stmt_ind';
    intros Hv c H; cbn [vis_calls visible_exists] in *; apply orb_false_iff in Hv; destruct Hv as [Hv1 Hv2].
  - destruct H.
  - destruct H as [->|[]]. rewrite <- HPc. exact Hv1.
  - rewrite HPp in Hv1. eapply existsb_false_in; eassumption.
  - apply in_flat_map in H. destruct H as (s1 & Hin & H). rewrite Forall_forall in IHb.
    eapply IHb; [exact Hin| |exact H]. eapply (existsb_false_in _ _ _ Hv2). exact Hin.
  - destruct par.
    + destruct b as [|[] []]; cbn in H; try contradiction. destruct H as [->|[]]. rewrite <- HPc. exact Hv2.
    + apply in_flat_map in H. destruct H as (s1 & Hin & H). rewrite Forall_forall in IHb.
      eapply IHb; [exact Hin| |exact H]. eapply (existsb_false_in _ _ _ Hv2). exact Hin.
  - apply orb_false_iff in Hv2. destruct Hv2 as [Hp Hf]. rewrite Forall_forall in IHp, IHf.
    apply in_app_iff in H. destruct H as [H|H]; apply in_flat_map in H; destruct H as (s1 & Hin & H).
    + eapply IHp; [exact Hin| |exact H]. eapply (existsb_false_in _ _ _ Hp). exact Hin.
    + eapply IHf; [exact Hin| |exact H]. eapply (existsb_false_in _ _ _ Hf). exact Hin.
Qed.

(* ------------------------------------------------------------------------------ *)
(* one statement: it unfolds when its visited calls do (at a fuel level G) and the   *)
(* fuel exceeds G by the nesting depth                                              *)
(* ------------------------------------------------------------------------------ *)
Lemma unfold_stmt_ok : forall tasks G s,
  visible_exists f_bad_parloop s = false ->
  (forall c, In c (vis_calls s) ->
     forall g tn pth, G <= g -> exists x, udo_call tasks g tn pth c = Ok x) ->
  forall f tn path, sdepth s + G <= f -> exists x, unfold_stmt tasks f tn path s = Ok x.
Proof.
  intros tasks G s.
  induction s as [n ins outs|c0|cs|e b IHb|par v l b IHb|e p fl IHp IHf] using stmt_ind';
    intros Hv Hc f tn path Hf; cbn [sdepth] in Hf; (destruct f as [|f']; [lia|]);
    cbn [vis_calls visible_exists] in *; apply orb_false_iff in Hv; destruct Hv as [Hv1 Hv2].
  - rewrite unfold_stmt_S_service. eexists; reflexivity.
  - rewrite unfold_stmt_S_call. apply Hc; [left; reflexivity | lia].
  - rewrite unfold_stmt_S_par.
    destruct (ucalls_ok tasks f' tn path cs 0) as (xs & ->); [|cbn [rbind]; eexists; reflexivity].
    intros c j Hin. apply Hc; [exact Hin | lia].
  - rewrite unfold_stmt_S_while. rewrite Forall_forall in IHb.
    destruct (ublock_ok tasks f' tn path b 0) as (xs & ->); [|cbn [rbind]; eexists; reflexivity].
    intros s1 j Hin. apply IHb; [exact Hin | exact (existsb_false_in _ _ _ Hv2 _ Hin) | |].
    + intros c Hcin. apply Hc. apply in_flat_map. exists s1. auto.
    + pose proof (lmax_map_ge _ sdepth _ _ Hin). lia.
  - destruct par.
    + rewrite unfold_stmt_S_parloop. cbn [f_bad_parloop] in Hv1. apply negb_false_iff in Hv1.
      destruct b as [|[] []]; try discriminate Hv1.
      destruct (Hc c (or_introl eq_refl) f' tn (path ++ [0])) as (x & ->); [cbn in Hf; lia|].
      cbn [rbind]. eexists; reflexivity.
    + rewrite unfold_stmt_S_count. rewrite Forall_forall in IHb.
      destruct (ublock_ok tasks f' tn path b 0) as (xs & ->); [|cbn [rbind]; eexists; reflexivity].
      intros s1 j Hin. apply IHb; [exact Hin | exact (existsb_false_in _ _ _ Hv2 _ Hin) | |].
      * intros c Hcin. apply Hc. apply in_flat_map. exists s1. auto.
      * pose proof (lmax_map_ge _ sdepth _ _ Hin). lia.
  - rewrite unfold_stmt_S_cond. rewrite Forall_forall in IHp, IHf.
    apply orb_false_iff in Hv2. destruct Hv2 as [Hp Hfl].
    destruct (ublock_ok tasks f' tn (path ++ [0]) p 0) as (xp & ->).
    { intros s1 j Hin. apply IHp; [exact Hin | exact (existsb_false_in _ _ _ Hp _ Hin) | |].
      - intros c Hcin. apply Hc. apply in_app_iff. left. apply in_flat_map. exists s1. auto.
      - pose proof (lmax_map_ge _ sdepth _ _ Hin). lia. }
    cbn [rbind].
    destruct (ublock_ok tasks f' tn (path ++ [1]) fl 0) as (xf & ->).
    { intros s1 j Hin. apply IHf; [exact Hin | exact (existsb_false_in _ _ _ Hfl _ Hin) | |].
      - intros c Hcin. apply Hc. apply in_app_iff. right. apply in_flat_map. exists s1. auto.
      - pose proof (lmax_map_ge _ sdepth _ _ Hin). lia. }
    cbn [rbind]. eexists; reflexivity.
Qed.

(* ------------------------------------------------------------------------------ *)
(* call chains and task_reaches                                                    *)
(* ------------------------------------------------------------------------------ *)
Section Chains.
  Variable E : env.

  (* a chain of k calls through defined tasks *)
  Inductive chain : nat -> name -> name -> Prop :=
  | chain_0 : forall n, has_key n (e_tasks E) = true -> chain 0 n n
  | chain_S : forall k n m t, has_key n (e_tasks E) = true -> In m (calls_of_task E n) ->
                              chain k m t -> chain (S k) n t.

  Lemma chain_has_key : forall k n t, chain k n t -> has_key n (e_tasks E) = true.
  Proof. intros k n t H. destruct H; assumption. Qed.

  Lemma chain_snoc : forall k n t m, chain k n t -> In m (calls_of_task E t) ->
    has_key m (e_tasks E) = true -> chain (S k) n m.
  Proof.
    intros k n t m H. induction H as [n Hn|k n m' t Hn Hin Hc IH]; intros Hm Hk.
    - eapply chain_S; [exact Hn | exact Hm | apply chain_0; exact Hk].
    - eapply chain_S; [exact Hn | exact Hin | apply IH; assumption].
  Qed.

  Lemma chain_reaches : forall k n t, chain k n t -> forall fuel, k <= fuel -> task_reaches E fuel n t = true.
  Proof.
    intros k n t H. induction H as [n Hn|k n m t Hn Hin Hc IH]; intros fuel Hf.
    - destruct fuel; cbn [task_reaches]; rewrite Hn, Nat.eqb_refl; reflexivity.
    - destruct fuel as [|fuel]; [lia|]. cbn [task_reaches]. rewrite Hn. cbn [andb].
      apply orb_true_iff. right. apply existsb_exists. exists m. split; [exact Hin|]. apply IH. lia.
  Qed.

  Lemma has_key_in_keys : forall n, has_key n (e_tasks E) = true -> In n (map fst (e_tasks E)).
  Proof. intros n H. rewrite has_key_mem in H. apply mem_In. exact H. Qed.
End Chains.

(* ------------------------------------------------------------------------------ *)
(* what sched_safe gives the unfolding, per task and visited call                   *)
(* ------------------------------------------------------------------------------ *)
Lemma fault_somewhere_false : forall P p n t i s,
  fault_somewhere P p = false -> In (n, visit_task i t) (e_tasks (visit_env p)) -> In s (t_body t) ->
  visible_exists (P (visit_env p) (visit_task i t)) s = false.
Proof.
  intros P p n t i s H Hin Hs. unfold fault_somewhere in H. cbn zeta in H.
  pose proof (existsb_false_in _ _ _ H _ Hin) as H1. cbn beta in H1. cbn [snd] in H1.
  exact (existsb_false_in _ _ _ H1 s Hs).
Qed.

Lemma sched_safe_start : forall p, sched_safe p = true ->
  exists t, find_task production_task (p_tasks p) = Some t.
Proof.
  intros p H. unfold sched_safe in H. repeat rewrite andb_true_iff in H.
  destruct H as ((((((H1 & _) & _) & _) & _) & _) & _).
  apply negb_true_iff in H1. unfold has_fault_no_start_task in H1. apply negb_false_iff in H1.
  apply mem_find_task. exact H1.
Qed.

(* parallel loops the unfolding visits are single calls *)
Lemma sched_safe_parloops : forall p n t s, sched_safe p = true ->
  find_task n (p_tasks p) = Some t -> In s (t_body t) -> visible_exists f_bad_parloop s = false.
Proof.
  intros p n t s H Hf Hs. unfold sched_safe in H. repeat rewrite andb_true_iff in H.
  destruct H as ((((((_ & _) & _) & H4) & _) & _) & _). apply negb_true_iff in H4.
  destruct (find_task_tdef p n t Hf) as (i & _ & Hin).
  exact (fault_somewhere_false (fun _ _ => f_bad_parloop) p n t i s H4 Hin Hs).
Qed.

(* every call the unfolding visits names a defined task that does not lead back to the caller *)
Lemma sched_safe_calls : forall p n t s c, sched_safe p = true ->
  find_task n (p_tasks p) = Some t -> In s (t_body t) -> In c (vis_calls s) ->
  has_key (c_name c) (e_tasks (visit_env p)) = true
  /\ task_reaches (visit_env p) (length (e_tasks (visit_env p))) (c_name c) n = false.
Proof.
  intros p n t s c H Hf Hs Hc. unfold sched_safe in H. repeat rewrite andb_true_iff in H.
  destruct H as ((((((_ & H2) & _) & _) & _) & H6) & _).
  apply negb_true_iff in H2. apply negb_true_iff in H6.
  destruct (find_task_tdef p n t Hf) as (i & _ & Hin).
  pose proof (fault_somewhere_false (fun E _ => f_unknown_task E) p n t i s H2 Hin Hs) as Hu. cbn beta in Hu.
  pose proof (fault_somewhere_false (fun E T => f_recursive_call E T) p n t i s H6 Hin Hs) as Hr. cbn beta in Hr.
  assert (Hk : has_key (c_name c) (e_tasks (visit_env p)) = true).
  { pose proof (vis_calls_no_fault (f_unknown_task (visit_env p)) (unknown_call (visit_env p))
                  (fun _ => eq_refl) (fun _ => eq_refl) s Hu c Hc) as H0.
    unfold unknown_call in H0. apply negb_false_iff in H0. exact H0. }
  split; [exact Hk|].
  pose proof (vis_calls_no_fault (f_recursive_call (visit_env p) (visit_task i t))
                (recursive_call (visit_env p) (visit_task i t))
                (fun _ => eq_refl) (fun _ => eq_refl) s Hr c Hc) as H0.
  unfold recursive_call in H0. rewrite Hk in H0. cbn [andb visit_task td_name] in H0.
  destruct (find_task_In _ _ _ Hf) as [_ Hn]. rewrite Hn in H0. exact H0.
Qed.

(* ------------------------------------------------------------------------------ *)
(* termination: the ancestors of a call are pairwise distinct defined tasks         *)
(* ------------------------------------------------------------------------------ *)
Section Safe.
  Variable p : program.
  Hypothesis Hsafe : sched_safe p = true.

  Let E := visit_env p.
  Let N := length (e_tasks E).
  Let D := max_depth p.

  (* every ancestor reaches the current task by a chain shorter than the list *)
  Definition anc_inv (anc : list name) (tn : name) : Prop :=
    forall a, In a anc -> exists k, k < length anc /\ chain E k a tn.

  Lemma anc_length : forall anc tn, NoDup anc -> anc_inv anc tn -> length anc <= N.
  Proof.
    intros anc tn Hnd Hinv. unfold N. rewrite <- (map_length fst (e_tasks E)).
    apply NoDup_incl_length; [exact Hnd|]. intros a Ha. destruct (Hinv a Ha) as (k & _ & Hc).
    apply has_key_in_keys. eapply chain_has_key. exact Hc.
  Qed.

  Lemma call_extends : forall anc tn T s c,
    find_task tn (p_tasks p) = Some T -> NoDup anc -> anc_inv anc tn ->
    In s (t_body T) -> In c (vis_calls s) ->
    exists T', find_task (c_name c) (p_tasks p) = Some T'
               /\ NoDup (c_name c :: anc) /\ anc_inv (c_name c :: anc) (c_name c).
  Proof.
    intros anc tn T s c HT Hnd Hinv Hs Hc.
    destruct (sched_safe_calls p tn T s c Hsafe HT Hs Hc) as [Hk Hr]. fold E in Hk, Hr. fold N in Hr.
    destruct (has_key_find_task p _ Hk) as (T' & HT'). exists T'. split; [exact HT'|].
    assert (Hcall : In (c_name c) (calls_of_task E tn)).
    { unfold E. rewrite (calls_of_task_find_task p tn T HT). apply in_flat_map. exists s.
      split; [exact Hs | apply vis_calls_stmt_calls; exact Hc]. }
    split.
    - constructor; [|exact Hnd]. intro Hin. destruct (Hinv _ Hin) as (k & Hlt & Hch).
      pose proof (anc_length anc tn Hnd Hinv) as Hlen.
      rewrite (chain_reaches E k _ _ Hch N) in Hr; [discriminate | lia].
    - intros a [<-|Ha].
      + exists 0. split; [cbn [length]; lia | apply chain_0; exact Hk].
      + destruct (Hinv a Ha) as (k & Hlt & Hch). exists (S k). split; [cbn [length]; lia|].
        eapply chain_snoc; eassumption.
  Qed.

  (* r = number of defined task names that are not ancestors *)
  Lemma tasks_unfold : forall r anc tn T,
    find_task tn (p_tasks p) = Some T -> NoDup anc -> anc_inv anc tn -> N <= r + length anc ->
    forall f, D + r * D <= f ->
    forall s, In s (t_body T) -> forall tn' path, exists x, unfold_stmt (p_tasks p) f tn' path s = Ok x.
  Proof.
    induction r as [|r IH]; intros anc tn T HT Hnd Hinv HN f Hf s Hs tn' path.
    - apply (unfold_stmt_ok (p_tasks p) 0 s).
      + exact (sched_safe_parloops p tn T s Hsafe HT Hs).
      + intros c Hc g tn2 pth _.
        destruct (call_extends anc tn T s c HT Hnd Hinv Hs Hc) as (T' & _ & Hnd' & Hinv').
        pose proof (anc_length _ _ Hnd' Hinv') as Hlen. cbn [length] in Hlen. lia.
      + destruct (find_task_In _ _ _ HT) as [HinT _].
        pose proof (sdepth_le_max_depth p T s HinT Hs). fold D in H. lia.
    - apply (unfold_stmt_ok (p_tasks p) (D + r * D) s).
      + exact (sched_safe_parloops p tn T s Hsafe HT Hs).
      + intros c Hc g tn2 pth Hg.
        destruct (call_extends anc tn T s c HT Hnd Hinv Hs Hc) as (T' & HT' & Hnd' & Hinv').
        unfold udo_call. rewrite HT'.
        destruct (ucall_blk_ok (p_tasks p) g (t_name T') (t_body T') 0) as (xs & ->);
          [|cbn [rbind]; eexists; reflexivity].
        intros s1 j Hs1. apply (IH (c_name c :: anc) (c_name c) T' HT' Hnd' Hinv'); [cbn [length]; lia | exact Hg | exact Hs1].
      + destruct (find_task_In _ _ _ HT) as [HinT _].
        pose proof (sdepth_le_max_depth p T s HinT Hs). fold D in H. cbn [Nat.mul] in Hf. lia.
  Qed.

  Lemma safe_unfolds : forall fu, unfold_bound p <= fu ->
    exists body, unfold_program (p_tasks p) fu = Ok body.
  Proof.
    intros fu Hfu. destruct (sched_safe_start p Hsafe) as (t0 & Ht0).
    rewrite unfold_program_eq, Ht0. apply ucall_blk_ok. intros s j Hs.
    pose proof (find_task_has_key p _ _ Ht0) as Hk. fold E in Hk.
    assert (Hinv : anc_inv [production_task] production_task).
    { intros a [<-|[]]. exists 0. split; [cbn; lia | apply chain_0; exact Hk]. }
    assert (Hnd : NoDup [production_task]) by (constructor; [intros []|constructor]).
    pose proof (anc_length _ _ Hnd Hinv) as H1. cbn [length] in H1.
    pose proof (e_tasks_length p) as H2. fold E in H2. fold N in H2.
    apply (tasks_unfold (N - 1) [production_task] production_task t0 Ht0 Hnd Hinv);
      [cbn [length]; lia | | exact Hs].
    unfold unfold_bound in Hfu. fold D in Hfu.
    assert (D + (N - 1) * D = N * D) by (destruct N; [lia | cbn; rewrite Nat.sub_0_r; reflexivity]).
    assert (N * D <= length (p_tasks p) * D) by (apply Nat.mul_le_mono_r; exact H2). lia.
  Qed.
End Safe.

(* ------------------------------------------------------------------------------ *)
(* the theorems                                                                    *)
(* ------------------------------------------------------------------------------ *)
Theorem sched_safe_unfolds : forall p fu,
  sched_safe p = true -> unfold_bound p <= fu -> exists body, unfold_program (p_tasks p) fu = Ok body.
Proof. intros p fu Hs Hb. exact (safe_unfolds p Hs fu Hb). Qed.

Theorem accepted_unfolds : forall p fu,
  validate p = Ok [] -> unfold_bound p <= fu -> exists body, unfold_program (p_tasks p) fu = Ok body.
Proof. intros p fu Ha Hb. apply sched_safe_unfolds; [apply accepted_sched_safe; exact Ha | exact Hb]. Qed.

Print Assumptions sched_safe_unfolds.
Print Assumptions accepted_unfolds.
