(* RefSem.v — structured reference semantics of a PFDL order: an executable,
   fuel-indexed big-step interpreter over the call-tree unfolding.  It knows nothing
   about places, transitions, scans or callback tables.  Model support file. *)
From PFDL Require Export Unfold Expr.
From RecordUpdate Require Export RecordSet.
Export RecordSetNotations.

(* ---- observable log ---- *)
Inductive nkind := TS | TF | SS | SF.

Definition nkind_eqb (a b : nkind) : bool :=
  match a, b with TS, TS | TF, TF | SS, SS | SF, SF => true | _, _ => false end.

Record notif := {
  n_kind : nkind;
  n_name : name;            (* task or service name *)
  n_site : site;            (* call site in the source *)
  n_id : nat;               (* identifier delivered *)
  n_ctx : option nat;       (* identifier of the enclosing task instance *)
  n_params : list param     (* delivered input parameters (loop indices resolved) *)
}.

Inductive entry :=
| ENotif (l : nat) (n : notif) (running : bool)
    (* registered function l invoked with notification n; [running] sampled inside it *)
| EObs (o : nat) (k : nkind) (nm : name) (id : nat) (order_finished : bool)
    (* observer o received the LOG_EVENT entry for a notification *)
| EQuery (v : name) (ctx : nat)         (* variable_access_function(v, ctx) *)
| EFireIn (id : nat)                    (* the engine calls fire_event(finish id) from inside a notification ... *)
| EFireOut (id : nat) (ret : bool).     (* ... and that nested call returned [ret] *)

(* ---- run-time state of one statement occurrence ---- *)
Inductive rst :=
| RDone
| RAwait (id : nat)
| RCall (id : nat) (i : nat) (st : rst)
| RPar (sts : list rst)
| RCond (b : bool) (i : nat) (st : rst)
| RLoop (k : nat) (i : nat) (st : rst)
| RParLoop (sts : list rst).

Definition is_done (s : rst) : bool := match s with RDone => true | _ => false end.

(* ---- scheduler bookkeeping ---- *)
Record G := mkG {
  g_tid : nat;              (* next task identifier *)
  g_sid : nat;              (* next service identifier *)
  g_q : nat;                (* oracle calls so far *)
  g_ss : nat;               (* service starts so far *)
  g_awaited : list nat;     (* identifiers of announced, uncompleted services *)
  g_running : bool;
  g_ls : list (nkind * nat);(* registered functions, in registration order *)
  g_obs : list nat;         (* attached observers, in attachment order *)
  g_log : list entry        (* newest first *)
}.
#[export] Instance etaG : Settable _ :=
  settable! mkG <g_tid; g_sid; g_q; g_ss; g_awaited; g_running; g_ls; g_obs; g_log>.

Definition M (A : Type) := G -> res (A * G).
Definition ret {A} (a : A) : M A := fun g => Ok (a, g).
Definition bind {A B} (m : M A) (f : A -> M B) : M B :=
  fun g => match m g with
           | Ok (a, g') => f a g'
           | Fuel => Fuel
           | Exn k => Exn k
           | Unsupported => Unsupported
           end.
Definition lift {A} (r : res A) : M A := fun g => rbind r (fun a => Ok (a, g)).
Definition fail_fuel {A} : M A := fun _ => Fuel.

Notation "x <- m ;; k" := (bind m (fun x => k)) (at level 61, m at next level, right associativity).
Notation "m ;;; k" := (bind m (fun _ => k)) (at level 61, right associativity).

Definition log_entries (es : list entry) : M unit :=
  fun g => Ok (tt, g <| g_log := rev es ++ g_log g |>).
Definition log_entry (e : entry) : M unit := log_entries [e].

Definition listeners_of (k : nkind) (ls : list (nkind * nat)) : list nat :=
  map snd (filter (fun p => nkind_eqb (fst p) k) ls).

(* on_task_started / on_service_started / on_service_finished / on_task_finished:
   every registered function of that kind, in registration order, then one LOG_EVENT
   entry to every attached observer, in attachment order *)
Definition emit_gen (n : notif) (order_finished : bool) : M unit :=
  fun g =>
    log_entries
      (map (fun l => ENotif l n (g_running g)) (listeners_of (n_kind n) (g_ls g))
       ++ map (fun o => EObs o (n_kind n) (n_name n) (n_id n) order_finished) (g_obs g)) g.
Definition emit (n : notif) : M unit := emit_gen n false.

Definition fresh_t : M nat := fun g => Ok (g_tid g, g <| g_tid := S (g_tid g) |>).
Definition fresh_s : M nat := fun g => Ok (g_sid g, g <| g_sid := S (g_sid g) |>).
Definition tick_ss : M nat := fun g => Ok (g_ss g, g <| g_ss := S (g_ss g) |>).
Definition set_q (k : nat) : M unit := fun g => Ok (tt, g <| g_q := k |>).
Definition set_awaited (l : list nat) : M unit := fun g => Ok (tt, g <| g_awaited := l |>).
Definition set_running (b : bool) : M unit := fun g => Ok (tt, g <| g_running := b |>).
Definition await (id : nat) : M unit := fun g => set_awaited (g_awaited g ++ [id]) g.
Definition unawait (id : nat) : M unit :=
  fun g => match remove_first (Nat.eqb id) (g_awaited g) with
           | Some l => set_awaited l g
           | None => Exn ValueError
           end.

(* ---- loop-index substitution in delivered parameters ---- *)
Definition ienv := list (name * nat).

Definition subst_pelem (ie : ienv) (e : pelem) : pelem :=
  match e with
  | PIdxVar v => match assoc v ie with Some k => PIdxLit k | None => e end
  | _ => e
  end.
Definition subst_param (ie : ienv) (p : param) : param :=
  match p with
  | PPath v l => PPath v (map (subst_pelem ie) l)
  | _ => p
  end.
Definition subst_params (ie : ienv) (ps : list param) : list param := map (subst_param ie) ps.

(* ---- environment: value oracle and the "complete immediately" bits ---- *)
Section Sem.
  Variable orc : oracle.
  Variable imm : nat -> bool.     (* k-th service start is completed from inside its
                                     own service-started notification *)

  (* queries made by one evaluation are logged with the context identifier *)
  Fixpoint expr_vars (e : expr) : list name :=
    match e with
    | EPath v _ => [v]
    | ENot e1 | EParen e1 => expr_vars e1
    | EBin _ l r => expr_vars l ++ expr_vars r
    | _ => []
    end.

  Fixpoint log_queries (vs : list name) (ctx : nat) : M unit :=
    match vs with
    | [] => ret tt
    | v :: r => log_entry (EQuery v ctx) ;;; log_queries r ctx
    end.

  (* on_condition_started / on_while_loop_started: check_expression *)
  Definition decide_m (e : expr) (ctx : nat) : M bool :=
    fun g =>
      match decide expected_ops orc e (g_q g) with
      | Ok (b, k') => (log_queries (expr_vars e) ctx ;;; set_q k' ;;; ret b) g
      | Fuel => Fuel | Exn k => Exn k | Unsupported => Unsupported
      end.

  (* get_loop_limit; limits are integers (env_ok), negative ones count as 0 iterations *)
  Definition read_limit (l : limit) (ctx : nat) : M Z :=
    match l with
    | LimInt n => ret (Z.of_nat n)
    | LimPath v p =>
      fun g =>
        match orc (g_q g) v with
        | None => Unsupported
        | Some x =>
          match resolve x p with
          | Ok (VNum q) =>
            if Pos.eqb (Qden q) 1
            then (log_entry (EQuery v ctx) ;;; set_q (S (g_q g)) ;;; ret (Qnum q)) g
            else Unsupported
          | Ok _ => Unsupported
          | Fuel => Fuel | Exn k => Exn k | Unsupported => Unsupported
          end
        end
    end.

  Definition mk (k : nkind) (n : name) (s : site) (id : nat) (ctx : option nat) (ps : list param) :=
    {| n_kind := k; n_name := n; n_site := s; n_id := id; n_ctx := ctx; n_params := ps |}.

  Fixpoint all_done (l : list rst) : bool :=
    match l with [] => true | s :: r => is_done s && all_done r end.

  (* instance i of a parallel loop sees the counting variable bound to i *)
  Definition insts (ie : ienv) (v : name) (c : xstmt) (n : nat) : list (ienv * xstmt) :=
    map (fun i => ((v, i) :: ie, c)) (seq 0 n).

  (* start one statement occurrence in task instance [ctx]; result RDone when it
     completed synchronously *)
  Fixpoint start_stmt (f : nat) (ctx : nat) (ie : ienv) (s : xstmt) {struct f} : M rst :=
    match f with
    | O => fail_fuel
    | S f' =>
      match s with
      | XService n at_ ins =>
        id <- fresh_s ;;
        await id ;;;
        emit (mk SS n at_ id (Some ctx) (subst_params ie ins)) ;;;
        k <- tick_ss ;;
        if imm k
        then unawait id ;;; emit (mk SF n at_ id (Some ctx) (subst_params ie ins)) ;;; ret RDone
        else ret (RAwait id)
      | XCall t at_ ins body =>
        id <- fresh_t ;;
        emit (mk TS t at_ id (Some ctx) (subst_params ie ins)) ;;;
        r <- run_block f' id [] body 0 ;;
        match r with
        | None => emit (mk TF t at_ id (Some ctx) (subst_params ie ins)) ;;; ret RDone
        | Some (i, st) => ret (RCall id i st)
        end
      | XParallel bs =>
        sts <- start_list f' ctx (map (fun b => (ie, b)) bs) ;;
        if all_done sts then ret RDone else ret (RPar sts)
      | XCond e p fl =>
        b <- decide_m e ctx ;;
        r <- run_block f' ctx ie (if b then p else fl) 0 ;;
        match r with
        | None => ret RDone
        | Some (i, st) => ret (RCond b i st)
        end
      | XWhile _ _ | XCount _ _ _ => loop_test f' ctx ie s 0
      | XParLoop v lim c =>
        n <- read_limit lim ctx ;;
        sts <- start_list f' ctx (insts ie v c (Z.to_nat n)) ;;
        if all_done sts then ret RDone else ret (RParLoop sts)
      end
    end

  (* run the block [ss] from statement [i] on, through statements that complete
     synchronously; None = block complete, Some (j, st) = waiting inside statement j *)
  with run_block (f : nat) (ctx : nat) (ie : ienv) (ss : list xstmt) (i : nat) {struct f}
      : M (option (nat * rst)) :=
    match f with
    | O => fail_fuel
    | S f' =>
      match nth_error ss i with
      | None => ret None
      | Some s1 =>
        st <- start_stmt f' ctx ie s1 ;;
        if is_done st then run_block f' ctx ie ss (S i) else ret (Some (i, st))
      end
    end

  (* start the statements of a list one after the other, each with its own loop-index
     environment: the branches of a Parallel, or the instances of a parallel loop *)
  with start_list (f : nat) (ctx : nat) (l : list (ienv * xstmt)) {struct f} : M (list rst) :=
    match f with
    | O => fail_fuel
    | S f' =>
      match l with
      | [] => ret []
      | (ie, b) :: r =>
        st <- start_stmt f' ctx ie b ;;
        sts <- start_list f' ctx r ;;
        ret (st :: sts)
      end
    end

  (* the test before iteration k of a sequential loop *)
  with loop_test (f : nat) (ctx : nat) (ie : ienv) (s : xstmt) (k : nat) {struct f} : M rst :=
    match f with
    | O => fail_fuel
    | S f' =>
      match s with
      | XWhile e body =>
        b <- decide_m e ctx ;;
        if b then
          r <- run_block f' ctx ie body 0 ;;
          match r with
          | None => loop_test f' ctx ie s (S k)
          | Some (i, st) => ret (RLoop k i st)
          end
        else ret RDone
      | XCount v lim body =>
        n <- read_limit lim ctx ;;
        if (Z.of_nat k <? n)%Z then
          r <- run_block f' ctx ((v, k) :: ie) body 0 ;;
          match r with
          | None => loop_test f' ctx ie s (S k)
          | Some (i, st) => ret (RLoop k i st)
          end
        else ret RDone
      | _ => lift Unsupported
      end
    end.

  (* deliver the completion of service [id] into the state [st] of statement [s];
     None = [id] is not awaited inside this statement (nothing changes) *)
  Fixpoint deliver (f : nat) (ctx : nat) (ie : ienv) (s : xstmt) (st : rst) (id : nat) {struct f}
      : M (option rst) :=
    match f with
    | O => fail_fuel
    | S f' =>
      match s, st with
      | XService n at_ ins, RAwait id' =>
        if Nat.eqb id id'
        then emit (mk SF n at_ id (Some ctx) (subst_params ie ins)) ;;; ret (Some RDone)
        else ret None
      | XCall t at_ ins body, RCall cid i sti =>
        r <- deliver_block f' cid [] body i sti id ;;
        match r with
        | None => ret None
        | Some None => emit (mk TF t at_ cid (Some ctx) (subst_params ie ins)) ;;; ret (Some RDone)
        | Some (Some (j, st')) => ret (Some (RCall cid j st'))
        end
      | XParallel bs, RPar sts =>
        r <- deliver_list f' ctx (map (fun b => (ie, b)) bs) sts id ;;
        match r with
        | None => ret None
        | Some sts' => if all_done sts' then ret (Some RDone) else ret (Some (RPar sts'))
        end
      | XCond e p fl, RCond b i sti =>
        r <- deliver_block f' ctx ie (if b then p else fl) i sti id ;;
        match r with
        | None => ret None
        | Some None => ret (Some RDone)
        | Some (Some (j, st')) => ret (Some (RCond b j st'))
        end
      | XWhile e body, RLoop k i sti =>
        r <- deliver_block f' ctx ie body i sti id ;;
        match r with
        | None => ret None
        | Some None => st' <- loop_test f' ctx ie s (S k) ;; ret (Some st')
        | Some (Some (j, st')) => ret (Some (RLoop k j st'))
        end
      | XCount v lim body, RLoop k i sti =>
        r <- deliver_block f' ctx ((v, k) :: ie) body i sti id ;;
        match r with
        | None => ret None
        | Some None => st' <- loop_test f' ctx ie s (S k) ;; ret (Some st')
        | Some (Some (j, st')) => ret (Some (RLoop k j st'))
        end
      | XParLoop v lim c, RParLoop sts =>
        r <- deliver_list f' ctx (insts ie v c (List.length sts)) sts id ;;
        match r with
        | None => ret None
        | Some sts' => if all_done sts' then ret (Some RDone) else ret (Some (RParLoop sts'))
        end
      | _, _ => ret None
      end
    end

  (* deliver into statement i of a block, then continue the block if it completed;
     Some None = the block is complete *)
  with deliver_block (f : nat) (ctx : nat) (ie : ienv) (ss : list xstmt) (i : nat) (sti : rst)
         (id : nat) {struct f} : M (option (option (nat * rst))) :=
    match f with
    | O => fail_fuel
    | S f' =>
      match nth_error ss i with
      | None => ret None
      | Some s1 =>
        r <- deliver f' ctx ie s1 sti id ;;
        match r with
        | None => ret None
        | Some st' =>
          if is_done st'
          then r' <- run_block f' ctx ie ss (S i) ;; ret (Some r')
          else ret (Some (Some (i, st')))
        end
      end
    end

  (* deliver into the first branch that awaits [id] *)
  with deliver_list (f : nat) (ctx : nat) (l : list (ienv * xstmt)) (sts : list rst)
         (id : nat) {struct f} : M (option (list rst)) :=
    match f with
    | O => fail_fuel
    | S f' =>
      match l, sts with
      | (ie, b) :: br, st :: sr =>
        r <- deliver f' ctx ie b st id ;;
        match r with
        | Some st' => ret (Some (st' :: sr))
        | None =>
          r' <- deliver_list f' ctx br sr id ;;
          match r' with
          | Some sr' => ret (Some (st :: sr'))
          | None => ret None
          end
        end
      | _, _ => ret None
      end
    end.

  (* ---- the public API of one scheduler ---- *)

  (* state between API calls: None = the order has not been started;
     Some (RCall 0 i st) = production task running; Some RDone = finished *)
  Record sched := { sc_g : G; sc_root : option rst }.

  Definition root_site : site := {| st_task := production_task; st_path := [] |}.

  Definition default_listeners : list (nkind * nat) := [(TS, 0); (TF, 0); (SS, 0); (SF, 0)].
  Definition g0 : G :=
    {| g_tid := 0; g_sid := 0; g_q := 0; g_ss := 0; g_awaited := []; g_running := false;
       g_ls := default_listeners; g_obs := []; g_log := [] |}.
  Definition sched0 : sched := {| sc_g := g0; sc_root := None |}.

  Definition clear_log (g : G) : G := g <| g_log := [] |>.

  Inductive apicall :=
  | AStart                      (* Scheduler.start() *)
  | AFinish (id : nat)          (* fire_event(service_finished, id) *)
  | AJunk                       (* any other event: unknown / internal type / malformed *)
  | ARegister (k : nkind) (l : nat)   (* register_callback_<k>(function l) *)
  | AAttach (o : nat)
  | ADetach (o : nat).

  (* what a caller can observe about one API call *)
  Record callrec := {
    cr_ret : bool;
    cr_log : list entry;          (* oldest first *)
    cr_running : bool;            (* Scheduler.running after the call *)
    cr_awaited : list nat;        (* service identifiers awaited after the call *)
    cr_final : bool               (* the order is complete *)
  }.

  Definition root_done (r : option rst) : bool :=
    match r with Some RDone => true | _ => false end.

  Definition observe (ret_ : bool) (s : sched) : callrec :=
    {| cr_ret := ret_; cr_log := rev (g_log (sc_g s)); cr_running := g_running (sc_g s);
       cr_awaited := g_awaited (sc_g s); cr_final := root_done (sc_root s) |}.

  Definition finish_root : M unit :=
    (* on_task_finished(production task): user callbacks run while running is still True *)
    emit_gen (mk TF production_task root_site 0 None []) true ;;; set_running false.

  Definition api_call (f : nat) (body : list xstmt) (s : sched) (c : apicall)
      : res (bool * sched) :=
    let g := clear_log (sc_g s) in
    match c with
    | AStart =>
      match sc_root s with
      | Some _ => Ok (true, {| sc_g := g; sc_root := sc_root s |})   (* already started: no effect *)
      | None =>
        match (set_running true ;;;
               id <- fresh_t ;;
               emit (mk TS production_task root_site id None []) ;;;
               r <- run_block f id [] body 0 ;;
               match r with
               | None => finish_root ;;; ret RDone
               | Some (i, st) => ret (RCall id i st)
               end) g with
        | Ok (st, g') => Ok (true, {| sc_g := g'; sc_root := Some st |})
        | Fuel => Fuel | Exn k => Exn k | Unsupported => Unsupported
        end
      end
    | AFinish id =>
      if mem id (g_awaited g) then
        match sc_root s with
        | Some (RCall cid i sti) =>
          match (unawait id ;;;
                 r <- deliver_block f cid [] body i sti id ;;
                 match r with
                 | None => lift Unsupported    (* awaited but not in the tree: impossible *)
                 | Some None => finish_root ;;; ret RDone
                 | Some (Some (j, st')) => ret (RCall cid j st')
                 end) g with
          | Ok (st, g') => Ok (true, {| sc_g := g'; sc_root := Some st |})
          | Fuel => Fuel | Exn k => Exn k | Unsupported => Unsupported
          end
        | _ => Unsupported
        end
      else Ok (false, {| sc_g := g; sc_root := sc_root s |})
    | AJunk => Ok (false, {| sc_g := g; sc_root := sc_root s |})
    | ARegister k l =>
      if existsb (fun p => nkind_eqb (fst p) k && Nat.eqb (snd p) l) (g_ls g)
      then Ok (false, {| sc_g := g; sc_root := sc_root s |})
      else Ok (true, {| sc_g := g <| g_ls := g_ls g ++ [(k, l)] |>; sc_root := sc_root s |})
    | AAttach o => Ok (true, {| sc_g := g <| g_obs := g_obs g ++ [o] |>; sc_root := sc_root s |})
    | ADetach o =>
      match remove_first (Nat.eqb o) (g_obs g) with
      | Some l => Ok (true, {| sc_g := g <| g_obs := l |>; sc_root := sc_root s |})
      | None => Exn ValueError
      end
    end.

  (* run a whole script of API calls; one record per call *)
  Fixpoint run_script (f : nat) (body : list xstmt) (s : sched) (cs : list apicall)
      : res (list callrec) :=
    match cs with
    | [] => Ok []
    | c :: r =>
      rbind (api_call f body s c) (fun '(b, s') =>
      rbind (run_script f body s' r) (fun t => Ok (observe b s' :: t)))
    end.
End Sem.
