(* Gen/ObligationsRegister.v — Scheduler.register_callback_*, register_variable_access_function, register_for_petrinet_callbacks: what tools/gen_wiring.py regenerates from the current source
   equals what coq/NetWiring.v records.  Re-checked by the kernel on every run. *)
From Coq Require Import String List Bool.
Import ListNotations.
From PFDL Require Import NetWiring.
From PFDL.Gen Require Import Wiring.

Definition pick (keys : list string) (t : list (string * string)) : list (string * string) :=
  filter (fun kv => existsb (String.eqb (fst kv)) keys) t.

(* the normalised ASTs of Scheduler.register_callback_*, register_variable_access_function, register_for_petrinet_callbacks are the ones the models were transliterated from *)
Lemma digests_tied :
  pick [ "scheduler.py:Scheduler.register_callback_task_started"; "scheduler.py:Scheduler.register_callback_service_started"; "scheduler.py:Scheduler.register_callback_service_finished"; "scheduler.py:Scheduler.register_callback_task_finished"; "scheduler.py:Scheduler.register_variable_access_function"; "scheduler.py:Scheduler.register_for_petrinet_callbacks" ]%string digests_from_source = pick [ "scheduler.py:Scheduler.register_callback_task_started"; "scheduler.py:Scheduler.register_callback_service_started"; "scheduler.py:Scheduler.register_callback_service_finished"; "scheduler.py:Scheduler.register_callback_task_finished"; "scheduler.py:Scheduler.register_variable_access_function"; "scheduler.py:Scheduler.register_for_petrinet_callbacks" ]%string expected_digests.
Proof. vm_compute. reflexivity. Qed.

(* and they are present at all (an empty selection would make the equation above trivial) *)
Lemma digests_present : length (pick [ "scheduler.py:Scheduler.register_callback_task_started"; "scheduler.py:Scheduler.register_callback_service_started"; "scheduler.py:Scheduler.register_callback_service_finished"; "scheduler.py:Scheduler.register_callback_task_finished"; "scheduler.py:Scheduler.register_variable_access_function"; "scheduler.py:Scheduler.register_for_petrinet_callbacks" ]%string digests_from_source) = 6.
Proof. vm_compute. reflexivity. Qed.
