(* Gen/ObligationsEvents.v — scheduling/event.py and PetriNetLogic.fire_event: the event
   kinds, the fields Event.__eq__ compares and the table each kind is resolved through are the
   ones NetModel.event / event_eqb / logic_fire_event implement. *)
From PFDL.Gen Require Import Events.
From Coq Require Import String List.
Import ListNotations.

Lemma event_constants_tied :
  event_constants =
  [ ("START_PRODUCTION_TASK", "start_production_task"); ("SET_PLACE", "loc_started");
    ("SERVICE_FINISHED", "service_finished") ]%string.
Proof. reflexivity. Qed.

Lemma event_eq_fields_tied : event_eq_fields = [ "event_type"; "data" ]%string.
Proof. reflexivity. Qed.

Lemma fire_event_dispatch_tied :
  fire_event_dispatch =
  [ ("START_PRODUCTION_TASK", ResolveStartPlace); ("SET_PLACE", ResolvePlaceUuid);
    ("SERVICE_FINISHED", ResolveServicePlace) ]%string.
Proof. reflexivity. Qed.
