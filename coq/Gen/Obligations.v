(* Gen/Obligations.v — the tables regenerated from /repo on every run are the tables the
   hand-written models are stated against.  A changed source table breaks one of these
   kernel-checked equalities. *)
From PFDL Require Import Expr.
From PFDL.Gen Require Import Operators Events.
From Coq Require Import String List.
Import ListNotations.

(* helpers.parse_operator *)
Lemma operators_tied : ops_from_source = expected_ops.
Proof. reflexivity. Qed.

(* scheduling/event.py: the three event kinds and the fields Event.__eq__ compares *)
Lemma event_constants_tied :
  event_constants =
  [ ("START_PRODUCTION_TASK", "start_production_task"); ("SET_PLACE", "loc_started");
    ("SERVICE_FINISHED", "service_finished") ]%string.
Proof. reflexivity. Qed.

Lemma event_eq_fields_tied : event_eq_fields = [ "event_type"; "data" ]%string.
Proof. reflexivity. Qed.

(* petri_net/logic.py::fire_event: which table each event kind is resolved through *)
Lemma fire_event_dispatch_tied :
  fire_event_dispatch =
  [ ("START_PRODUCTION_TASK", ResolveStartPlace); ("SET_PLACE", ResolvePlaceUuid);
    ("SERVICE_FINISHED", ResolveServicePlace) ]%string.
Proof. reflexivity. Qed.
