(* Gen/ObligationsOps.v — helpers.parse_operator: the operator table regenerated from the
   source is the table the expression model is stated against. *)
From PFDL Require Import Expr.
From PFDL.Gen Require Import Operators.

Lemma operators_tied : ops_from_source = expected_ops.
Proof. reflexivity. Qed.
