(* Gen/ObligationsGate.v — both fire_event and start: what tools/gen_wiring.py regenerates from the current source
   equals what coq/NetWiring.v records.  Re-checked by the kernel on every run. *)
From Coq Require Import String List Bool.
Import ListNotations.
From PFDL Require Import NetWiring.
From PFDL.Gen Require Import Wiring.

Definition pick (keys : list string) (t : list (string * string)) : list (string * string) :=
  filter (fun kv => existsb (String.eqb (fst kv)) keys) t.

(* the normalised ASTs of both fire_event and start are the ones NetModel.v was transliterated from *)
Lemma digests_tied :
  pick [ "petri_net/logic.py:PetriNetLogic.fire_event"; "scheduler.py:Scheduler.fire_event"; "scheduler.py:Scheduler._fire_event"; "scheduler.py:Scheduler.start" ]%string digests_from_source = pick [ "petri_net/logic.py:PetriNetLogic.fire_event"; "scheduler.py:Scheduler.fire_event"; "scheduler.py:Scheduler._fire_event"; "scheduler.py:Scheduler.start" ]%string expected_digests.
Proof. vm_compute. reflexivity. Qed.
