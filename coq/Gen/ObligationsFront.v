(* Gen/ObligationsFront.v — the tables regenerated from the grammar files and the generated
   parser on every run are the tables the Front model is stated against.  A changed lexer
   rule, precedence level or operator set breaks one of these kernel-checked equalities. *)
From PFDL.Front Require Import Lexemes Parser.
From PFDL.Gen Require Import Keywords Precedence.
From Coq Require Import String List.
Import ListNotations.

(* pfdl_grammar/PFDLLexer.g4 (cross-read with PFDLLexer.py by the translator) *)
Lemma lexer_rules_tied : lexer_rules_from_source = lexer_rules.
Proof. reflexivity. Qed.

Lemma lexer_modes_tied : lexer_modes_from_source = lexer_modes.
Proof. reflexivity. Qed.

Lemma denter_tokens_tied : denter_tokens_from_source = denter_tokens.
Proof. reflexivity. Qed.

Lemma denter_ignore_eof_tied : denter_ignore_eof_from_source = denter_ignore_eof.
Proof. reflexivity. Qed.

(* the token vocabulary of the model against the (tied) rules *)
Lemma token_vocabulary_covers_rules : rules_covered = true.
Proof. vm_compute. reflexivity. Qed.

Lemma token_vocabulary_in_rules : toks_have_rules = true.
Proof. vm_compute. reflexivity. Qed.

Lemma json_mode_switches_tied : mode_switches_ok = true.
Proof. vm_compute. reflexivity. Qed.

(* pfdl_scheduler/parser/PFDLParser.py, rule expression (cross-read with PFDLParser.g4) *)
Lemma expression_levels_tied : expression_levels_from_source = impl_levels.
Proof. reflexivity. Qed.

Lemma not_level_tied : not_level_from_source = impl_not_level.
Proof. reflexivity. Qed.

Lemma paren_level_tied : paren_level_from_source = impl_paren_level.
Proof. reflexivity. Qed.

Lemma value_first_tied : value_first_from_source = impl_value_first.
Proof. reflexivity. Qed.

Lemma binop_tokens_tied : binop_tokens_from_source = impl_binop_tokens.
Proof. reflexivity. Qed.

(* the operator classes used by Parser.op_class are the token names of the tied tables *)
Lemma op_classes_tied :
  forallb (fun t =>
    match op_class t with
    | Some (_, c) =>
      let n := snd (tok_rule t) in
      orb (String.eqb c n)
          (andb (String.eqb c "binOperation") (existsb (String.eqb n) impl_binop_tokens))
    | None => negb (existsb (String.eqb (snd (tok_rule t)))
                      (map (fun x => fst (fst x)) impl_levels ++ impl_binop_tokens))
    end) all_toks = true.
Proof. vm_compute. reflexivity. Qed.
