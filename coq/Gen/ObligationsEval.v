(* Gen/ObligationsEval.v — evaluate_petri_net, generate_statements, add_callback: what tools/gen_wiring.py regenerates from the current source
   equals what coq/NetWiring.v records.  Re-checked by the kernel on every run. *)
From Coq Require Import String List Bool.
Import ListNotations.
From PFDL Require Import NetWiring.
From PFDL.Gen Require Import Wiring.

Definition pick (keys : list string) (t : list (string * string)) : list (string * string) :=
  filter (fun kv => existsb (String.eqb (fst kv)) keys) t.

(* the normalised ASTs of evaluate_petri_net, generate_statements, add_callback are the ones NetModel.v was transliterated from *)
Lemma digests_tied :
  pick [ "petri_net/logic.py:PetriNetLogic.evaluate_petri_net"; "petri_net/generator.py:PetriNetGenerator.generate_statements"; "petri_net/generator.py:PetriNetGenerator.add_callback" ]%string digests_from_source = pick [ "petri_net/logic.py:PetriNetLogic.evaluate_petri_net"; "petri_net/generator.py:PetriNetGenerator.generate_statements"; "petri_net/generator.py:PetriNetGenerator.add_callback" ]%string expected_digests.
Proof. vm_compute. reflexivity. Qed.
