(* Gen/ObligationsStarted.v — on_task_started, on_service_started: what tools/gen_wiring.py regenerates from the current source
   equals what coq/NetWiring.v records.  Re-checked by the kernel on every run. *)
From Coq Require Import String List Bool.
Import ListNotations.
From PFDL Require Import NetWiring.
From PFDL.Gen Require Import Wiring.

Definition pick (keys : list string) (t : list (string * string)) : list (string * string) :=
  filter (fun kv => existsb (String.eqb (fst kv)) keys) t.

(* the normalised ASTs of on_task_started, on_service_started are the ones NetModel.v was transliterated from *)
Lemma digests_tied :
  pick [ "scheduler.py:Scheduler.on_task_started"; "scheduler.py:Scheduler.on_service_started" ]%string digests_from_source = pick [ "scheduler.py:Scheduler.on_task_started"; "scheduler.py:Scheduler.on_service_started" ]%string expected_digests.
Proof. vm_compute. reflexivity. Qed.
