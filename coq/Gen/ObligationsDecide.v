(* Gen/ObligationsDecide.v — the Condition / loop handlers and get_loop_limit: what tools/gen_wiring.py regenerates from the current source
   equals what coq/NetWiring.v records.  Re-checked by the kernel on every run. *)
From Coq Require Import String List Bool.
Import ListNotations.
From PFDL Require Import NetWiring.
From PFDL.Gen Require Import Wiring.

Definition pick (keys : list string) (t : list (string * string)) : list (string * string) :=
  filter (fun kv => existsb (String.eqb (fst kv)) keys) t.

(* the normalised ASTs of the Condition / loop handlers and get_loop_limit are the ones NetModel.v was transliterated from *)
Lemma digests_tied :
  pick [ "scheduler.py:Scheduler.on_condition_started"; "scheduler.py:Scheduler.on_while_loop_started"; "scheduler.py:Scheduler.on_counting_loop_started"; "scheduler.py:Scheduler.get_loop_limit"; "scheduler.py:Scheduler.check_expression"; "scheduler.py:Scheduler.execute_expression" ]%string digests_from_source = pick [ "scheduler.py:Scheduler.on_condition_started"; "scheduler.py:Scheduler.on_while_loop_started"; "scheduler.py:Scheduler.on_counting_loop_started"; "scheduler.py:Scheduler.get_loop_limit"; "scheduler.py:Scheduler.check_expression"; "scheduler.py:Scheduler.execute_expression" ]%string expected_digests.
Proof. vm_compute. reflexivity. Qed.
