(* Gen/ObligationsWiring.v — the net-construction table of every generate_* method of petri_net/generator.py: what tools/gen_wiring.py regenerates from the current source
   equals what coq/NetWiring.v records.  Re-checked by the kernel on every run. *)
From Coq Require Import String List Bool.
Import ListNotations.
From PFDL Require Import NetWiring.
From PFDL.Gen Require Import Wiring.

Lemma wiring_tied : wiring_from_source = expected_wiring.
Proof. vm_compute. reflexivity. Qed.
