(* Gen/ObligationsNotify.v — Scheduler.attach, detach, notify (NetModel.notify_user / render_obs, ObsDispatch.dispatch_fixed): what tools/gen_wiring.py regenerates from the current source
   equals what coq/NetWiring.v records.  Re-checked by the kernel on every run. *)
From Coq Require Import String List Bool.
Import ListNotations.
From PFDL Require Import NetWiring.
From PFDL.Gen Require Import Wiring.

Definition pick (keys : list string) (t : list (string * string)) : list (string * string) :=
  filter (fun kv => existsb (String.eqb (fst kv)) keys) t.

(* the normalised ASTs of Scheduler.attach, detach, notify (NetModel.notify_user / render_obs, ObsDispatch.dispatch_fixed) are the ones the models were transliterated from *)
Lemma digests_tied :
  pick [ "scheduler.py:Scheduler.attach"; "scheduler.py:Scheduler.detach"; "scheduler.py:Scheduler.notify" ]%string digests_from_source = pick [ "scheduler.py:Scheduler.attach"; "scheduler.py:Scheduler.detach"; "scheduler.py:Scheduler.notify" ]%string expected_digests.
Proof. vm_compute. reflexivity. Qed.

(* and they are present at all (an empty selection would make the equation above trivial) *)
Lemma digests_present : length (pick [ "scheduler.py:Scheduler.attach"; "scheduler.py:Scheduler.detach"; "scheduler.py:Scheduler.notify" ]%string digests_from_source) = 3.
Proof. vm_compute. reflexivity. Qed.
