(* RefClosure.v — a closure principle for the reference semantics: a reflexive and
   transitive relation on scheduler bookkeeping that holds across each of the six
   "macro steps" the interpreter is made of (guard evaluation, limit read, service start
   block, task start, task finished, service finished) holds across every run of the seven
   mutually recursive functions.  Proof file. *)
From PFDL Require Import RefSem RefBase.

Section Closure.
  Variable orc : oracle.
  Variable imm : nat -> bool.
  Variable R : G -> G -> Prop.
  Variable R_refl : forall g, R g g.
  Variable R_trans : forall a b c, R a b -> R b c -> R a c.
  Variable R_decide : forall e ctx g b g', decide_m orc e ctx g = Ok (b, g') -> R g g'.
  Variable R_limit : forall l ctx g n g', read_limit orc l ctx g = Ok (n, g') -> R g g'.
  Variable R_service : forall n at_ ins ctx ie g st g',
      (id <- fresh_s ;;
       await id ;;;
       emit (mk SS n at_ id (Some ctx) (subst_params ie ins)) ;;;
       k <- tick_ss ;;
       if imm k
       then unawait id ;;; emit (mk SF n at_ id (Some ctx) (subst_params ie ins)) ;;; ret RDone
       else ret (RAwait id)) g = Ok (st, g') -> R g g'.
  Variable R_tstart : forall t at_ ctx ps g id g1 u g2,
      fresh_t g = Ok (id, g1) -> emit (mk TS t at_ id (Some ctx) ps) g1 = Ok (u, g2) -> R g g2.
  Variable R_tfin : forall t at_ id ctx ps g u g',
      emit (mk TF t at_ id (Some ctx) ps) g = Ok (u, g') -> R g g'.
  Variable R_sfin : forall n at_ id ctx ps g u g',
      emit (mk SF n at_ id (Some ctx) ps) g = Ok (u, g') -> R g g'.

  Ltac tr := eapply R_trans; [eassumption|].

  Lemma start_closed : forall f,
      (forall ctx ie s g st g', start_stmt orc imm f ctx ie s g = Ok (st, g') -> R g g') /\
      (forall ctx ie ss i g r g', run_block orc imm f ctx ie ss i g = Ok (r, g') -> R g g') /\
      (forall ctx l g sts g', start_list orc imm f ctx l g = Ok (sts, g') -> R g g') /\
      (forall ctx ie s k g st g', loop_test orc imm f ctx ie s k g = Ok (st, g') -> R g g').
  Proof.
    induction f as [|f IH]; [split; [|split; [|split]]; intros; discriminate|].
    destruct IH as (IHs & IHb & IHl & IHt).
    split; [|split; [|split]].
    - intros ctx ie s g st g' H. cbn [start_stmt] in H.
      destruct s as [n at_ ins|t at_ ins body|bs|e p fl|e b|v lim b|v lim c].
      + eapply R_service; eassumption.
      + mstep as id g1 E1. mstep as u2 g2 E2. pose proof (R_tstart _ _ _ _ _ _ _ _ _ E1 E2) as T1.
        mstep as r g3 E3. apply IHb in E3.
        destruct r as [[i sti]|].
        * mstep. tr. exact E3.
        * mstep as u4 g4 E4. apply R_tfin in E4. mstep. tr. tr. exact E4.
      + mstep as sts g1 E1. apply IHl in E1. destruct (all_done sts); mstep; exact E1.
      + mstep as b g1 E1. apply R_decide in E1. mstep as r g2 E2. apply IHb in E2.
        destruct r as [[i sti]|]; mstep; (tr; exact E2).
      + eapply IHt; eassumption.
      + eapply IHt; eassumption.
      + mstep as n g1 E1. apply R_limit in E1. mstep as sts g2 E2. apply IHl in E2.
        destruct (all_done sts); mstep; (tr; exact E2).
    - intros ctx ie ss i g r g' H. cbn [run_block] in H.
      destruct (nth_error ss i) as [s1|]; [|mstep; apply R_refl].
      mstep as st g1 E1. apply IHs in E1.
      destruct (is_done st).
      + apply IHb in H. tr. exact H.
      + mstep. exact E1.
    - intros ctx l g sts g' H. cbn [start_list] in H.
      destruct l as [|[ie b] r]; [mstep; apply R_refl|].
      mstep as st g1 E1. apply IHs in E1. mstep as sts1 g2 E2. apply IHl in E2.
      mstep. tr. exact E2.
    - intros ctx ie s k g st g' H. cbn [loop_test] in H.
      destruct s as [n at_ ins|t at_ ins body|bs|e p fl|e b|v lim b|v lim c]; try discriminate.
      + mstep as bb g1 E1. apply R_decide in E1. destruct bb; [|mstep; exact E1].
        mstep as r g2 E2. apply IHb in E2.
        destruct r as [[i sti]|]; [mstep; tr; exact E2|]. apply IHt in H. tr. tr. exact H.
      + mstep as n g1 E1. apply R_limit in E1. destruct (Z.of_nat k <? n)%Z; [|mstep; exact E1].
        mstep as r g2 E2. apply IHb in E2.
        destruct r as [[i sti]|]; [mstep; tr; exact E2|]. apply IHt in H. tr. tr. exact H.
  Qed.

  Lemma deliver_closed : forall f,
      (forall ctx ie s st id g r g', deliver orc imm f ctx ie s st id g = Ok (r, g') -> R g g') /\
      (forall ctx ie ss i sti id g r g', deliver_block orc imm f ctx ie ss i sti id g = Ok (r, g') -> R g g') /\
      (forall ctx l sts id g r g', deliver_list orc imm f ctx l sts id g = Ok (r, g') -> R g g').
  Proof.
    induction f as [|f IH]; [split; [|split]; intros; discriminate|].
    destruct IH as (IHd & IHb & IHl).
    split; [|split].
    - intros ctx ie s st id g r g' H. cbn [deliver] in H.
      destruct s as [n at_ ins|t at_ ins body|bs|e p fl|e b|v lim b|v lim c];
        destruct st as [|id'|cid i sti|sts|bb i sti|k i sti|sts];
        try (mstep; apply R_refl).
      + destruct (Nat.eqb id id'); [|mstep; apply R_refl].
        mstep as u g1 E1. apply R_sfin in E1. mstep. exact E1.
      + mstep as r1 g1 E1. apply IHb in E1.
        destruct r1 as [[[j st']|]|].
        * mstep. exact E1.
        * mstep as u g2 E2. apply R_tfin in E2. mstep. tr. exact E2.
        * mstep. exact E1.
      + mstep as r1 g1 E1. apply IHl in E1.
        destruct r1 as [sts'|]; [destruct (all_done sts')|]; mstep; exact E1.
      + mstep as r1 g1 E1. apply IHb in E1.
        destruct r1 as [[[j st']|]|]; mstep; exact E1.
      + mstep as r1 g1 E1. apply IHb in E1.
        destruct r1 as [[[j st']|]|].
        * mstep. exact E1.
        * mstep as st' g2 E2. apply (proj2 (proj2 (proj2 (start_closed f)))) in E2. mstep. tr. exact E2.
        * mstep. exact E1.
      + mstep as r1 g1 E1. apply IHb in E1.
        destruct r1 as [[[j st']|]|].
        * mstep. exact E1.
        * mstep as st' g2 E2. apply (proj2 (proj2 (proj2 (start_closed f)))) in E2. mstep. tr. exact E2.
        * mstep. exact E1.
      + mstep as r1 g1 E1. apply IHl in E1.
        destruct r1 as [sts'|]; [destruct (all_done sts')|]; mstep; exact E1.
    - intros ctx ie ss i sti id g r g' H. cbn [deliver_block] in H.
      destruct (nth_error ss i) as [s1|]; [|mstep; apply R_refl].
      mstep as r1 g1 E1. apply IHd in E1.
      destruct r1 as [st'|]; [|mstep; exact E1].
      destruct (is_done st').
      + mstep as r' g2 E2. apply (proj1 (proj2 (start_closed f))) in E2. mstep. tr. exact E2.
      + mstep. exact E1.
    - intros ctx l sts id g r g' H. cbn [deliver_list] in H.
      destruct l as [|[ie b] br]; [mstep; apply R_refl|].
      destruct sts as [|st sr]; [mstep; apply R_refl|].
      mstep as r1 g1 E1. apply IHd in E1.
      destruct r1 as [st'|].
      + mstep. exact E1.
      + mstep as r2 g2 E2. apply IHl in E2.
        destruct r2 as [sr'|]; mstep; (tr; exact E2).
  Qed.
End Closure.
