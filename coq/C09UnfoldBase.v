(* C09UnfoldBase.v — named copies of the local fixpoints of Unfold.unfold_stmt (all equations hold
   by reflexivity) and inversion lemmas for the blocks.  Support file of the run-time half of
   C09 (C09Unfold.v, C09Runtime.v).  Proof file. *)
From PFDL Require Import Base Syntax Unfold.

Section Copies.
  Variable tasks : list task.

  (* the statements of a called task (paths restart at [i]) *)
  Section UB.
    Variables (f : nat) (tn : name).
    Fixpoint ucall_blk (i : nat) (ss : list stmt) : res (list xstmt) :=
      match ss with
      | [] => Ok []
      | s1 :: r =>
        rbind (unfold_stmt tasks f tn [i] s1) (fun x =>
        rbind (ucall_blk (S i) r) (fun xs => Ok (x :: xs)))
      end.
  End UB.

  (* the statements of a nested block *)
  Section UBK.
    Variables (f : nat) (tn : name).
    Fixpoint ublock (pre : list nat) (i : nat) (ss : list stmt) : res (list xstmt) :=
      match ss with
      | [] => Ok []
      | s1 :: r =>
        rbind (unfold_stmt tasks f tn (pre ++ [i]) s1) (fun x =>
        rbind (ublock pre (S i) r) (fun xs => Ok (x :: xs)))
      end.
  End UBK.

  Definition udo_call (f : nat) (tn : name) (pth : list nat) (c : call) : res xstmt :=
    match find_task (c_name c) tasks with
    | None => Exn KeyError
    | Some t =>
      rbind (ucall_blk f (t_name t) 0 (t_body t))
            (fun body => Ok (XCall (c_name c) {| st_task := tn; st_path := pth |} (c_ins c) body))
    end.

  Section UC.
    Variables (f : nat) (tn : name) (path : list nat).
    Fixpoint ucalls (i : nat) (l : list call) : res (list xstmt) :=
      match l with
      | [] => Ok []
      | c :: r =>
        rbind (udo_call f tn (path ++ [i]) c) (fun x =>
        rbind (ucalls (S i) r) (fun xs => Ok (x :: xs)))
      end.
  End UC.

  Lemma unfold_stmt_O : forall tn path s, unfold_stmt tasks 0 tn path s = Exn RecursionError.
  Proof. reflexivity. Qed.
  Lemma unfold_stmt_S_service : forall f' tn path n ins o,
      unfold_stmt tasks (S f') tn path (SService n ins o)
      = Ok (XService n {| st_task := tn; st_path := path |} ins).
  Proof. reflexivity. Qed.
  Lemma unfold_stmt_S_call : forall f' tn path c,
      unfold_stmt tasks (S f') tn path (SCall c) = udo_call f' tn path c.
  Proof. reflexivity. Qed.
  Lemma unfold_stmt_S_par : forall f' tn path cs,
      unfold_stmt tasks (S f') tn path (SParallel cs)
      = rbind (ucalls f' tn path 0 cs) (fun bs => Ok (XParallel bs)).
  Proof. reflexivity. Qed.
  Lemma unfold_stmt_S_while : forall f' tn path e body,
      unfold_stmt tasks (S f') tn path (SWhile e body)
      = rbind (ublock f' tn path 0 body) (fun xb => Ok (XWhile e xb)).
  Proof. reflexivity. Qed.
  Lemma unfold_stmt_S_count : forall f' tn path v lim body,
      unfold_stmt tasks (S f') tn path (SCount false v lim body)
      = rbind (ublock f' tn path 0 body) (fun xb => Ok (XCount v lim xb)).
  Proof. reflexivity. Qed.
  Lemma unfold_stmt_S_parloop : forall f' tn path v lim body,
      unfold_stmt tasks (S f') tn path (SCount true v lim body)
      = match body with
        | [SCall c] => rbind (udo_call f' tn (path ++ [0]) c) (fun x => Ok (XParLoop v lim x))
        | _ => Unsupported
        end.
  Proof. reflexivity. Qed.
  Lemma unfold_stmt_S_cond : forall f' tn path e p fl,
      unfold_stmt tasks (S f') tn path (SCond e p fl)
      = rbind (ublock f' tn (path ++ [0]) 0 p) (fun xp =>
        rbind (ublock f' tn (path ++ [1]) 0 fl) (fun xf => Ok (XCond e xp xf))).
  Proof. reflexivity. Qed.
  Lemma unfold_program_eq : forall f,
      unfold_program tasks f =
      match find_task production_task tasks with
      | None => Exn KeyError
      | Some t => ucall_blk f production_task 0 (t_body t)
      end.
  Proof. reflexivity. Qed.
End Copies.

Lemma rbind_ok_inv : forall A B (r : res A) (f : A -> res B) y,
    rbind r f = Ok y -> exists a, r = Ok a /\ f a = Ok y.
Proof. intros A B [a| | |] f y H; try discriminate H. exists a. split; [reflexivity|exact H]. Qed.

(* a result of a block relates the statements to the unfolded statements one by one *)
Lemma ucall_blk_inv : forall tasks f tn ss i xs,
    ucall_blk tasks f tn i ss = Ok xs ->
    Forall2 (fun s x => exists j, unfold_stmt tasks f tn [j] s = Ok x) ss xs.
Proof.
  intros tasks f tn. induction ss as [|s r IH]; intros i xs H; cbn [ucall_blk] in H.
  - inversion H. constructor.
  - apply rbind_ok_inv in H. destruct H as (x & E1 & H).
    apply rbind_ok_inv in H. destruct H as (xs' & E2 & H). inversion H; subst.
    constructor; [exists i; exact E1|]. eapply IH. exact E2.
Qed.

Lemma ublock_inv : forall tasks f tn pre ss i xs,
    ublock tasks f tn pre i ss = Ok xs ->
    Forall2 (fun s x => exists j, unfold_stmt tasks f tn (pre ++ [j]) s = Ok x) ss xs.
Proof.
  intros tasks f tn pre. induction ss as [|s r IH]; intros i xs H; cbn [ublock] in H.
  - inversion H. constructor.
  - apply rbind_ok_inv in H. destruct H as (x & E1 & H).
    apply rbind_ok_inv in H. destruct H as (xs' & E2 & H). inversion H; subst.
    constructor; [exists i; exact E1|]. eapply IH. exact E2.
Qed.

Lemma ucalls_inv : forall tasks f tn path cs i xs,
    ucalls tasks f tn path i cs = Ok xs ->
    Forall2 (fun c x => exists j, udo_call tasks f tn (path ++ [j]) c = Ok x) cs xs.
Proof.
  intros tasks f tn path. induction cs as [|c r IH]; intros i xs H; cbn [ucalls] in H.
  - inversion H. constructor.
  - apply rbind_ok_inv in H. destruct H as (x & E1 & H).
    apply rbind_ok_inv in H. destruct H as (xs' & E2 & H). inversion H; subst.
    constructor; [exists i; exact E1|]. eapply IH. exact E2.
Qed.

Lemma udo_call_inv : forall tasks f tn pth c x,
    udo_call tasks f tn pth c = Ok x ->
    exists t body, find_task (c_name c) tasks = Some t
                   /\ ucall_blk tasks f (t_name t) 0 (t_body t) = Ok body
                   /\ x = XCall (c_name c) {| st_task := tn; st_path := pth |} (c_ins c) body.
Proof.
  intros tasks f tn pth c x H. unfold udo_call in H.
  destruct (find_task (c_name c) tasks) as [t|]; [|discriminate].
  apply rbind_ok_inv in H. destruct H as (body & E & H). inversion H; subst.
  exists t, body. auto.
Qed.

(* ---- every block succeeds when every statement does ---- *)
Lemma ucall_blk_ok : forall tasks f tn ss i,
    (forall s j, In s ss -> exists x, unfold_stmt tasks f tn [j] s = Ok x) ->
    exists xs, ucall_blk tasks f tn i ss = Ok xs.
Proof.
  intros tasks f tn. induction ss as [|s r IH]; intros i H; cbn [ucall_blk].
  - eexists; reflexivity.
  - destruct (H s i (or_introl eq_refl)) as (x & ->). cbn [rbind].
    destruct (IH (S i)) as (xs & ->); [intros; apply H; right; assumption|].
    cbn [rbind]. eexists; reflexivity.
Qed.

Lemma ublock_ok : forall tasks f tn pre ss i,
    (forall s j, In s ss -> exists x, unfold_stmt tasks f tn (pre ++ [j]) s = Ok x) ->
    exists xs, ublock tasks f tn pre i ss = Ok xs.
Proof.
  intros tasks f tn pre. induction ss as [|s r IH]; intros i H; cbn [ublock].
  - eexists; reflexivity.
  - destruct (H s i (or_introl eq_refl)) as (x & ->). cbn [rbind].
    destruct (IH (S i)) as (xs & ->); [intros; apply H; right; assumption|].
    cbn [rbind]. eexists; reflexivity.
Qed.

Lemma ucalls_ok : forall tasks f tn path cs i,
    (forall c j, In c cs -> exists x, udo_call tasks f tn (path ++ [j]) c = Ok x) ->
    exists xs, ucalls tasks f tn path i cs = Ok xs.
Proof.
  intros tasks f tn path. induction cs as [|c r IH]; intros i H; cbn [ucalls].
  - eexists; reflexivity.
  - destruct (H c i (or_introl eq_refl)) as (x & ->). cbn [rbind].
    destruct (IH (S i)) as (xs & ->); [intros; apply H; right; assumption|].
    cbn [rbind]. eexists; reflexivity.
Qed.
