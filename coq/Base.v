(* Base.v — result type with explicit failure outcomes, small list utilities.
   Stdlib only.  No proofs of properties here (model support file). *)
From Coq Require Export List Arith ZArith QArith Bool Lia.
Export ListNotations.
Close Scope Q_scope.
Close Scope Z_scope.

Set Implicit Arguments.

(* Python exception classes that the models make explicit. *)
Inductive exn :=
| KeyError | TypeError | AttributeError | ValueError | ZeroDivisionError
| RecursionError | IndexError.

(* Outcome of a model computation.
   [Fuel]        : the fuel parameter ran out (theorems exclude this case explicitly);
   [Exn k]       : the implementation raises Python exception class k at this point;
   [Unsupported] : the input lies outside what the model describes (the harness never
                   compares such cases; theorems exclude them explicitly). *)
Inductive res (A : Type) : Type :=
| Ok (a : A)
| Fuel
| Exn (k : exn)
| Unsupported.
Arguments Ok {A} a.
Arguments Fuel {A}.
Arguments Exn {A} k.
Arguments Unsupported {A}.

Definition rbind {A B} (r : res A) (f : A -> res B) : res B :=
  match r with
  | Ok a => f a
  | Fuel => Fuel
  | Exn k => Exn k
  | Unsupported => Unsupported
  end.

Definition name := nat.

Fixpoint assoc {V} (k : name) (l : list (name * V)) : option V :=
  match l with
  | [] => None
  | (k', v) :: t => if Nat.eqb k k' then Some v else assoc k t
  end.

Fixpoint mem (k : name) (l : list name) : bool :=
  match l with
  | [] => false
  | x :: t => Nat.eqb k x || mem k t
  end.

Fixpoint list_eqb {A} (eqb : A -> A -> bool) (l1 l2 : list A) : bool :=
  match l1, l2 with
  | [], [] => true
  | x :: t1, y :: t2 => eqb x y && list_eqb eqb t1 t2
  | _, _ => false
  end.

Definition option_eqb {A} (eqb : A -> A -> bool) (a b : option A) : bool :=
  match a, b with
  | None, None => true
  | Some x, Some y => eqb x y
  | _, _ => false
  end.

(* remove the first element satisfying p; None when there is none (Python list.remove
   raising ValueError) *)
Fixpoint remove_first {A} (p : A -> bool) (l : list A) : option (list A) :=
  match l with
  | [] => None
  | x :: t => if p x then Some t
              else match remove_first p t with
                   | Some t' => Some (x :: t')
                   | None => None
                   end
  end.

Fixpoint update_nth {A} (n : nat) (x : A) (l : list A) : list A :=
  match l, n with
  | [], _ => []
  | _ :: t, O => x :: t
  | y :: t, S n' => y :: update_nth n' x t
  end.

Fixpoint seq_from (start len : nat) : list nat :=
  match len with
  | O => []
  | S l => start :: seq_from (S start) l
  end.
