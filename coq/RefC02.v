(* RefC02.v — every run of the reference semantics satisfies the sequencing monitor
   holds_C02seq_with / holds_C02seq (MonitorsSeq.v), for all schedules: within a task
   instance statements are started in source order, siblings of a block are never in
   progress together, the next statement starts in the call that completes the previous one.
   The induction strengthens the one of RefC07.v (start_life / deliver_life are used as
   black boxes, as in RefC04.v).  Proof file. *)
From PFDL Require Import RefSem RunCase Monitors MonitorsSeq RefBase RefClosure RefShape RefC01 RefC07 RefC04
     RefProgress Examples.
From Coq Require Import Lia Permutation.

(* ===================================================================== *)
(* 1. index paths                                                          *)
(* ===================================================================== *)
Definition ext (q t : list nat) : Prop := exists rest, t = q ++ rest.

Lemma ext_refl : forall q, ext q q.
Proof. intro q. exists []. rewrite app_nil_r. reflexivity. Qed.

Lemma ext_app : forall q a t, ext (q ++ a) t -> ext q t.
Proof. intros q a t (r & ->). exists (a ++ r). rewrite app_assoc. reflexivity. Qed.

Lemma ext_trans : forall a b c, ext a b -> ext b c -> ext a c.
Proof. intros a b c (r1 & ->) (r2 & ->). exists (r1 ++ r2). rewrite app_assoc. reflexivity. Qed.

Lemma split3_spec : forall a b r u v, split3 a b = (r, u, v) -> a = r ++ u /\ b = r ++ v.
Proof.
  induction a as [|x a IH]; intros b r u v H.
  - cbn in H. inv H. split; reflexivity.
  - destruct b as [|y b]; cbn in H.
    + inv H. split; reflexivity.
    + destruct (Nat.eqb x y) eqn:E.
      * destruct (split3 a b) as [[r1 u1] v1] eqn:E1. inv H. apply Nat.eqb_eq in E. subst y.
        destruct (IH _ _ _ _ E1) as [-> ->]. split; reflexivity.
      * inv H. split; reflexivity.
Qed.

Lemma split3_app : forall p a b,
    split3 (p ++ a) (p ++ b) = let '(r, u, v) := split3 a b in (p ++ r, u, v).
Proof.
  induction p as [|x p IH]; intros a b; cbn [app].
  - destruct (split3 a b) as [[r u] v]. reflexivity.
  - cbn [split3]. rewrite Nat.eqb_refl, IH. destruct (split3 a b) as [[r u] v]. reflexivity.
Qed.

Lemma split3_diff : forall i j a b, i <> j -> split3 (i :: a) (j :: b) = ([], i :: a, j :: b).
Proof. intros i j a b H. cbn. apply Nat.eqb_neq in H. rewrite H. reflexivity. Qed.

Lemma split3_same : forall a, split3 a a = (a, [], []).
Proof. induction a as [|x a IH]; [reflexivity|]. cbn. rewrite Nat.eqb_refl, IH. reflexivity. Qed.

Lemma unsnoc_app : forall p j, unsnoc (p ++ [j]) = Some (p, j).
Proof. induction p as [|x p IH]; intro j; [reflexivity|]. cbn [app unsnoc]. rewrite IH. reflexivity. Qed.

Lemma unsnoc_spec : forall p q j, unsnoc p = Some (q, j) -> p = q ++ [j].
Proof.
  induction p as [|x p IH]; intros q j H; [discriminate|]. cbn [unsnoc] in H.
  destruct (unsnoc p) as [[q1 j1]|] eqn:E.
  - inv H. rewrite (IH _ _ eq_refl). reflexivity.
  - inv H. destruct p as [|y p]; [reflexivity|]. cbn in E. destruct (unsnoc p) as [[? ?]|]; discriminate.
Qed.

Lemma in_loop_app : forall K a b acc, in_loop K acc (a ++ b) = in_loop K acc a || in_loop K (acc ++ a) b.
Proof.
  intros K. induction a as [|x a IH]; intros b acc; cbn [app in_loop].
  - rewrite app_nil_r. reflexivity.
  - rewrite IH, <- app_assoc, orb_assoc. reflexivity.
Qed.

Lemma in_loop_snoc : forall K q x, is_loopk (K (q ++ [x])) = true -> in_loop K [] (q ++ [x]) = true.
Proof.
  intros K q x H. rewrite in_loop_app. cbn [in_loop app]. rewrite H. cbn. apply orb_true_r.
Qed.

Lemma in_loop_nonempty : forall K acc r, in_loop K acc r = true -> r <> [].
Proof. intros K acc [|x r] H; [discriminate H|discriminate]. Qed.

Lemma list_eqb_refl_nat : forall l, list_eqb Nat.eqb l l = true.
Proof. intro l. apply list_eqb_nat_eq. reflexivity. Qed.

(* ---- the program-free tests are implied by the tests with any classification ---- *)
Lemma is_nil_false : forall A (l : list A), l <> [] -> is_nil l = false.
Proof. intros A [|x l] H; [contradiction|reflexivity]. Qed.

Lemma okK_free : forall K t s, okK K t s = true -> ok_free t s = true.
Proof.
  intros K t s H. unfold okK in H. unfold ok_free. destruct (list_eqb Nat.eqb t s).
  - unfold same_ok in H. destruct (unsnoc s) as [[q j]|]; [|discriminate].
    apply orb_true_iff in H. destruct H as [H|H].
    + rewrite (is_nil_false _ _ (in_loop_nonempty _ _ _ H)). reflexivity.
    + apply andb_true_iff in H. apply H.
  - unfold diff_ok in H. destruct (split3 t s) as [[r u] v].
    apply orb_true_iff in H. destruct H as [H|H].
    + rewrite (is_nil_false _ _ (in_loop_nonempty _ _ _ H)). reflexivity.
    + destruct u as [|i u], v as [|j v]; try discriminate H.
      apply andb_true_iff in H. destruct H as [H _]. rewrite H. apply orb_true_r.
Qed.

Lemma sibK_free : forall K otk op ntk np, sibK K otk op ntk np = true -> sib_free otk op ntk np = true.
Proof.
  intros K otk op ntk np H. unfold sibK in H. unfold sib_free.
  destruct otk, ntk; cbn [andb] in *; try discriminate.
  destruct (unsnoc op) as [[q i]|]; [|discriminate]. destruct (unsnoc np) as [[q' j]|]; [|discriminate].
  apply andb_true_iff in H. apply H.
Qed.

Lemma sibK_inv : forall K otk op ntk np,
    sibK K otk op ntk np = true ->
    otk = true /\ ntk = true /\
    exists q i j, op = q ++ [i] /\ np = q ++ [j] /\
                  ((K q = Kparloop /\ i = j) \/ (K q = Kpar /\ i < j)).
Proof.
  intros K otk op ntk np H. unfold sibK in H.
  destruct otk, ntk; cbn [andb] in *; try discriminate. split; [reflexivity|]. split; [reflexivity|].
  destruct (unsnoc op) as [[q i]|] eqn:E1; [|discriminate]. destruct (unsnoc np) as [[q' j]|] eqn:E2; [|discriminate].
  apply andb_true_iff in H. destruct H as [H1 H2]. apply list_eqb_nat_eq in H1. subst q'.
  exists q, i, j. split; [apply unsnoc_spec; exact E1|]. split; [apply unsnoc_spec; exact E2|].
  destruct (K q); try discriminate.
  - right. split; [reflexivity|]. apply Nat.ltb_lt. exact H2.
  - left. split; [reflexivity|]. apply Nat.eqb_eq. exact H2.
Qed.

Lemma sibK_par : forall K q i j, K q = Kpar -> i < j -> sibK K true (q ++ [i]) true (q ++ [j]) = true.
Proof.
  intros K q i j HK Hlt. unfold sibK. rewrite !unsnoc_app, list_eqb_refl_nat, HK. cbn.
  apply Nat.ltb_lt. exact Hlt.
Qed.

Lemma sibK_parloop : forall K q i, K q = Kparloop -> sibK K true (q ++ [i]) true (q ++ [i]) = true.
Proof.
  intros K q i HK. unfold sibK. rewrite !unsnoc_app, list_eqb_refl_nat, HK. cbn. apply Nat.eqb_refl.
Qed.

(* ===================================================================== *)
(* 2. "before": every later position of the block may be started next     *)
(* ===================================================================== *)
Definition blockish (k : skind) : bool := match k with Kloop | Knone => true | _ => false end.

Lemma blockish_not_cond : forall k, blockish k = true -> is_condk k = false.
Proof. intros [] H; try discriminate; reflexivity. Qed.

Definition okopt (K : list nat -> skind) (t : option (list nat)) (s : list nat) : Prop :=
  match t with Some t' => okK K t' s = true | None => True end.

(* [t] was started last; statement [i] of the block with prefix [pre] is about to be executed *)
Definition Bef (K : list nat -> skind) (t : option (list nat)) (pre : list nat) (i : nat) : Prop :=
  forall j rest, i <= j -> okopt K t (pre ++ j :: rest).

Definition oext (q : list nat) (t : option (list nat)) : Prop :=
  exists t', t = Some t' /\ ext q t'.

Lemma Bef_mono : forall K t pre i i', Bef K t pre i -> i <= i' -> Bef K t pre i'.
Proof. intros K t pre i i' H Hle j rest Hj. apply H. lia. Qed.

Lemma Bef_none : forall K pre i, Bef K None pre i.
Proof. intros K pre i j rest _. exact I. Qed.

Lemma Bef_enter : forall K t pre i mid, Bef K t pre i -> Bef K t ((pre ++ [i]) ++ mid) 0.
Proof.
  intros K t pre i mid H j rest _. rewrite <- !app_assoc. cbn [app].
  replace (mid ++ j :: rest) with (mid ++ j :: rest) by reflexivity.
  apply (H i (mid ++ j :: rest)). lia.
Qed.

Lemma Bef_enter0 : forall K t pre i, Bef K t pre i -> Bef K t (pre ++ [i]) 0.
Proof. intros K t pre i H. rewrite <- (app_nil_r (pre ++ [i])). apply Bef_enter. exact H. Qed.

Lemma list_eqb_diff : forall p i j a b, i <> j -> list_eqb Nat.eqb (p ++ i :: a) (p ++ j :: b) = false.
Proof.
  intros p i j a b Hne. destruct (list_eqb Nat.eqb (p ++ i :: a) (p ++ j :: b)) eqn:E; [|reflexivity].
  apply list_eqb_nat_eq in E. apply app_inv_head in E. inv E. contradiction.
Qed.

Lemma unsnoc_some : forall l, l <> [] -> exists m x, unsnoc l = Some (m, x) /\ l = m ++ [x].
Proof.
  induction l as [|y l IH]; intro H; [contradiction|]. cbn [unsnoc]. destruct l as [|z l].
  - exists [], y. split; reflexivity.
  - destruct (IH ltac:(discriminate)) as (m & x & E1 & E2). rewrite E1. exists (y :: m), x. split; [reflexivity|].
    rewrite E2. reflexivity.
Qed.

Lemma unsnoc_app_cons : forall p a rest, exists m x, unsnoc (p ++ a :: rest) = Some (p ++ m, x).
Proof.
  intros p a rest. destruct (unsnoc_some (a :: rest) ltac:(discriminate)) as (m0 & x0 & _ & E0).
  destruct (unsnoc_some (p ++ a :: rest)) as (m & x & E1 & E2).
  { destruct p; discriminate. }
  rewrite E0, app_assoc in E2. apply app_inj_tail in E2. destruct E2 as [<- <-].
  exists m0, x0. exact E1.
Qed.

(* after a statement of the block: the next ones are later in source order *)
Lemma Bef_after : forall K t pre i,
    blockish (K pre) = true -> oext (pre ++ [i]) t -> Bef K t pre (S i).
Proof.
  intros K t pre i HB (t' & -> & (r & ->)) j rest Hj. cbn [okopt]. unfold okK.
  rewrite <- app_assoc. cbn [app]. rewrite list_eqb_diff by lia. unfold diff_ok.
  rewrite split3_app, split3_diff by lia.
  rewrite app_nil_r, (blockish_not_cond _ HB). cbn [negb andb].
  assert (Nat.ltb i j = true) as -> by (apply Nat.ltb_lt; lia). apply orb_true_r.
Qed.

(* a new iteration *)
Lemma Bef_loop : forall K t q x, K (q ++ [x]) = Kloop -> oext (q ++ [x]) t -> Bef K t (q ++ [x]) 0.
Proof.
  intros K t q x HK (t' & -> & (r & ->)) j rest _. cbn [okopt]. unfold okK.
  assert (HL : in_loop K [] (q ++ [x]) = true) by (apply in_loop_snoc; rewrite HK; reflexivity).
  destruct (list_eqb Nat.eqb ((q ++ [x]) ++ r) ((q ++ [x]) ++ j :: rest)).
  - unfold same_ok. destruct (unsnoc_app_cons (q ++ [x]) j rest) as (m & y & ->).
    rewrite in_loop_app, HL. reflexivity.
  - unfold diff_ok. rewrite split3_app. destruct (split3 r (j :: rest)) as [[r1 u] v].
    rewrite in_loop_app, HL. reflexivity.
Qed.

Lemma okK_next_branch : forall K q i j, K q = Kpar -> i < j -> okK K (q ++ [i]) (q ++ [j]) = true.
Proof.
  intros K q i j HK Hlt. unfold okK. rewrite list_eqb_diff by lia. unfold diff_ok.
  rewrite split3_app, split3_diff by lia. rewrite app_nil_r, HK. cbn [is_condk negb].
  assert (Nat.ltb i j = true) as -> by (apply Nat.ltb_lt; lia). apply orb_true_r.
Qed.

Lemma okK_next_instance : forall K q i, q <> [] -> K q = Kparloop -> okK K (q ++ [i]) (q ++ [i]) = true.
Proof.
  intros K q i Hq HK. unfold okK. rewrite list_eqb_refl_nat. unfold same_ok.
  rewrite unsnoc_app, HK, (is_nil_false _ _ Hq). apply orb_true_r.
Qed.

(* ===================================================================== *)
(* 3. the monitor: generic facts                                           *)
(* ===================================================================== *)
Lemma assoc_drop_same : forall k l, assoc k (drop_key k l) = None.
Proof.
  intros k l. induction l as [|[k' v] l IH]; [reflexivity|]. cbn [drop_key filter fst].
  destruct (Nat.eqb k' k) eqn:E; cbn [negb].
  - exact IH.
  - cbn [assoc]. rewrite Nat.eqb_sym, E. exact IH.
Qed.

Lemma assoc_drop_other : forall k k' l, k <> k' -> assoc k (drop_key k' l) = assoc k l.
Proof.
  intros k k' l Hne. induction l as [|[k1 v] l IH]; [reflexivity|]. cbn [drop_key filter fst].
  destruct (Nat.eqb k1 k') eqn:E; cbn [negb].
  - cbn [assoc]. apply Nat.eqb_eq in E. subst k1.
    assert (Nat.eqb k k' = false) as -> by (apply Nat.eqb_neq; exact Hne). exact IH.
  - cbn [assoc]. destruct (Nat.eqb k k1); [reflexivity|exact IH].
Qed.

Section GenFacts.
  Variable sib : name -> bool -> list nat -> bool -> list nat -> bool.
  Variable sok : name -> list nat -> list nat -> bool.

  Lemma seq_notifs_app : forall a b S,
      seq_notifs sib sok S (a ++ b) =
      match seq_notifs sib sok S a with Some S1 => seq_notifs sib sok S1 b | None => None end.
  Proof.
    induction a as [|n a IH]; intros b S; [reflexivity|]. cbn [app seq_notifs].
    destruct (seq_notif sib sok S n); [apply IH|reflexivity].
  Qed.
End GenFacts.

(* acceptance is monotone in the two tests *)
Section Mono.
  Variables sib sib' : name -> bool -> list nat -> bool -> list nat -> bool.
  Variables sok sok' : name -> list nat -> list nat -> bool.
  Hypothesis Hsib : forall tn a b c d, sib tn a b c d = true -> sib' tn a b c d = true.
  Hypothesis Hsok : forall tn a b, sok tn a b = true -> sok' tn a b = true.

  Lemma forallb_impl : forall A (p q : A -> bool) l,
      (forall x, p x = true -> q x = true) -> forallb p l = true -> forallb q l = true.
  Proof.
    intros A p q l Hpq H. rewrite forallb_forall in *. intros x Hx. apply Hpq. apply H. exact Hx.
  Qed.

  Lemma seq_start_mono : forall S tk n S', seq_start sib sok S tk n = Some S' -> seq_start sib' sok' S tk n = Some S'.
  Proof.
    intros S tk n S' H. unfold seq_start in *. destruct (n_ctx n) as [c|]; [|exact H].
    match type of H with (if ?X then _ else _) = _ => destruct X eqn:E end; [|discriminate].
    repeat (apply andb_true_iff in E; destruct E as [E ?]).
    match goal with |- (if ?X then _ else _) = _ => assert (X = true) as -> end; [|exact H].
    repeat (apply andb_true_iff; split); try assumption.
    - eapply forallb_impl; [|eassumption]. intros o Ho. apply orb_true_iff in Ho. apply orb_true_iff.
      destruct Ho as [Ho|Ho]; [left; exact Ho|right]. unfold kid_ok in *.
      apply andb_true_iff in Ho. destruct Ho as [Q1 Q2]. rewrite Q1. cbn. apply Hsib. exact Q2.
    - eapply forallb_impl; [|eassumption]. intros o Ho. apply orb_true_iff in Ho. apply orb_true_iff.
      destruct Ho as [Ho|Ho]; [left; exact Ho|right]. unfold kid_ok in *.
      apply andb_true_iff in Ho. destruct Ho as [Q1 Q2]. rewrite Q1. cbn. apply Hsib. exact Q2.
    - destruct (assoc c (sq_last S)); [apply Hsok; assumption|reflexivity].
  Qed.

  Lemma seq_notif_mono : forall S n S', seq_notif sib sok S n = Some S' -> seq_notif sib' sok' S n = Some S'.
  Proof.
    intros S n S' H. unfold seq_notif in *. destruct (n_kind n); try (apply seq_start_mono; exact H); exact H.
  Qed.

  Lemma seq_notifs_mono : forall ns S S', seq_notifs sib sok S ns = Some S' -> seq_notifs sib' sok' S ns = Some S'.
  Proof.
    induction ns as [|n ns IH]; intros S S' H; [exact H|]. cbn [seq_notifs] in *.
    destruct (seq_notif sib sok S n) as [S1|] eqn:E; [|discriminate].
    rewrite (seq_notif_mono _ _ _ E). apply IH. exact H.
  Qed.

  Lemma seq_run_mono : forall tr S, seq_run sib sok S tr = true -> seq_run sib' sok' S tr = true.
  Proof.
    induction tr as [|r tr IH]; intros S H; [reflexivity|]. cbn [seq_run] in *.
    destruct (seq_notifs sib sok (new_call S) (map fst (ee_notifs (cr_log r)))) as [S1|] eqn:E; [|discriminate].
    rewrite (seq_notifs_mono _ _ _ E). apply andb_true_iff in H. destruct H as [H1 H2].
    rewrite H1. cbn. apply IH. exact H2.
  Qed.
End Mono.

(* the monitor with any classification implies the program-free monitor *)
Theorem C02seq_with_free : forall K tr, holds_C02seq_with K tr = true -> holds_C02seq tr = true.
Proof.
  intros K tr H. unfold holds_C02seq_with in H. unfold holds_C02seq.
  eapply seq_run_mono; [| |exact H].
  - intros tn a b c d. apply sibK_free.
  - intros tn a b. apply okK_free.
Qed.

(* ===================================================================== *)
(* 4. programs whose sites are the positions of their statements           *)
(* ===================================================================== *)
Section AllFrom.
  Variable A : Type.
  Variable P : nat -> A -> Prop.
  Fixpoint all_from (i : nat) (l : list A) : Prop :=
    match l with
    | [] => True
    | x :: r => P i x /\ all_from (S i) r
    end.
End AllFrom.
Arguments all_from {A} P i l.

Lemma all_from_nth : forall A (P : nat -> A -> Prop) l i0 i x,
    all_from P i0 l -> nth_error l i = Some x -> P (i0 + i) x.
Proof.
  induction l as [|y l IH]; intros i0 i x H Hn; [destruct i; discriminate|].
  destruct H as [H1 H2]. destruct i as [|i]; cbn in Hn.
  - inv Hn. rewrite Nat.add_0_r. exact H1.
  - replace (i0 + S i) with (S i0 + i) by lia. eapply IH; eassumption.
Qed.

Lemma all_from_impl : forall A (P Q : nat -> A -> Prop) l i0,
    (forall i x, P i x -> Q i x) -> all_from P i0 l -> all_from Q i0 l.
Proof.
  induction l as [|y l IH]; intros i0 HPQ H; [exact I|]. destruct H as [H1 H2].
  split; [apply HPQ; exact H1|apply IH; assumption].
Qed.

Definition mksite (tn : name) (q : list nat) : site := {| st_task := tn; st_path := q |}.

Section Sited.
  Variable K : name -> list nat -> skind.

  (* the statement occurrence [s] stands at position [q] of task [tn]; [K] classifies the
     positions of loops, Parallel statements and parallel loops accordingly, and never takes
     the prefix of a block for a Parallel; the branches of a Parallel / the body of a parallel
     loop are task calls *)
  Fixpoint sited (tn : name) (q : list nat) (s : xstmt) {struct s} : Prop :=
    match s with
    | XService _ at_ _ => at_ = mksite tn q
    | XCall t at_ _ body =>
      at_ = mksite tn q /\ blockish (K t []) = true /\
      all_from (fun i s1 => sited t ([] ++ [i]) s1) 0 body
    | XParallel bs =>
      K tn q = Kpar /\ all_from (fun j b => is_call b = true /\ sited tn (q ++ [j]) b) 0 bs
    | XCond _ p f =>
      blockish (K tn (q ++ [0])) = true /\ blockish (K tn (q ++ [1])) = true /\
      all_from (fun i s1 => sited tn ((q ++ [0]) ++ [i]) s1) 0 p /\
      all_from (fun i s1 => sited tn ((q ++ [1]) ++ [i]) s1) 0 f
    | XWhile _ b => K tn q = Kloop /\ all_from (fun i s1 => sited tn (q ++ [i]) s1) 0 b
    | XCount _ _ b => K tn q = Kloop /\ all_from (fun i s1 => sited tn (q ++ [i]) s1) 0 b
    | XParLoop _ _ c => K tn q = Kparloop /\ is_call c = true /\ sited tn (q ++ [0]) c
    end.

  Definition sblock (tn : name) (pre : list nat) (ss : list xstmt) : Prop :=
    all_from (fun i s1 => sited tn (pre ++ [i]) s1) 0 ss.

  Definition sited_body (body : list xstmt) : Prop :=
    blockish (K production_task []) = true /\ sblock production_task [] body.

  Lemma sblock_nth : forall tn pre ss i s, sblock tn pre ss -> nth_error ss i = Some s -> sited tn (pre ++ [i]) s.
  Proof. intros tn pre ss i s H Hn. exact (all_from_nth _ _ _ 0 i s H Hn). Qed.
End Sited.

(* ===================================================================== *)
(* 5. the monitor next to the lifecycle monitor                            *)
(* ===================================================================== *)
Definition sibf (K : name -> list nat -> skind) : name -> bool -> list nat -> bool -> list nat -> bool :=
  fun tn => sibK (K tn).
Definition sokf (K : name -> list nat -> skind) : name -> list nat -> list nat -> bool :=
  fun tn => okK (K tn).

Definition opath (o : open_inst) : list nat := st_path (oi_site o).
Definition ssel (tk : bool) (S : seqst) : list open_inst := if tk then sq_tasks S else sq_svcs S.

Definition opens_eq (S : seqst) (L : life) : Prop := sq_tasks S = lf_tasks L /\ sq_svcs S = lf_svcs L.

Lemma opens_eq_sel : forall S L tk, opens_eq S L -> ssel tk S = sel tk L.
Proof. intros S L [|] [H1 H2]; assumption. Qed.

Lemma remove_first_in : forall A (p : A -> bool) l l' x, remove_first p l = Some l' -> In x l' -> In x l.
Proof.
  induction l as [|y l IH]; intros l' x H Hi; cbn in H; [discriminate|].
  destruct (p y).
  - inv H. right. exact Hi.
  - destruct (remove_first p l) as [t|]; [|discriminate]. inv H. destruct Hi as [->|Hi]; [left; reflexivity|].
    right. eapply IH; [reflexivity|exact Hi].
Qed.

Lemma ctx_is_true : forall c o, ctx_is c o = true <-> oi_ctx o = Some c.
Proof.
  intros c o. unfold ctx_is. destruct (oi_ctx o) as [c'|]; cbn; split; intro H; try discriminate.
  - apply Nat.eqb_eq in H. congruence.
  - inv H. apply Nat.eqb_refl.
Qed.

Lemma has_kid_false : forall c S,
    has_kid c S = false <-> (forall tk o, In o (ssel tk S) -> oi_ctx o <> Some c).
Proof.
  intros c S. unfold has_kid. split.
  - intros H tk o Hi Hc. apply orb_false_iff in H. destruct H as [H1 H2].
    assert (X : existsb (ctx_is c) (ssel tk S) = true).
    { apply existsb_exists. exists o. split; [exact Hi|]. apply ctx_is_true. exact Hc. }
    destruct tk; cbn [ssel] in X; congruence.
  - intro H. apply orb_false_iff. split.
    + destruct (existsb (ctx_is c) (sq_tasks S)) eqn:E; [|reflexivity]. exfalso.
      apply existsb_exists in E. destruct E as (o & Hi & Hc). apply (H true o Hi). apply ctx_is_true. exact Hc.
    + destruct (existsb (ctx_is c) (sq_svcs S)) eqn:E; [|reflexivity]. exfalso.
      apply existsb_exists in E. destruct E as (o & Hi & Hc). apply (H false o Hi). apply ctx_is_true. exact Hc.
Qed.

Section MonFacts.
  Variable K : name -> list nat -> skind.

  (* a statement in progress in an instance is the one started last in it, or an earlier
     branch of the Parallel whose branch was started last *)
  Definition JJ (S : seqst) : Prop :=
    forall tk o c, In o (ssel tk S) -> oi_ctx o = Some c ->
      exists t, assoc c (sq_last S) = Some t /\
                (opath o = t \/ exists ntk, sibf K (st_task (oi_site o)) tk (opath o) ntk t = true).

  Lemma JJ_start : forall S tk n S', JJ S -> seq_start (sibf K) (sokf K) S tk n = Some S' -> JJ S'.
  Proof.
    intros S tk n S' HJ H. unfold seq_start in H.
    set (last1 := if tk then drop_key (n_id n) (sq_last S) else sq_last S) in *.
    assert (Hold : forall tk' o, In o (ssel tk' S') ->
                     (n_ctx n = None -> True) ->
                     match n_ctx n with
                     | None => True
                     | Some _ => True
                     end) by (intros; destruct (n_ctx n); exact I).
    clear Hold.
    destruct (n_ctx n) as [c|] eqn:Hctx.
    - match type of H with (if ?X then _ else _) = _ => destruct X eqn:E end; [|discriminate]. inv H.
      repeat (apply andb_true_iff in E; destruct E as [E ?]).
      rename H into Hfresh. rename H0 into Hact. rename H1 into Hok. rename H2 into Hsv. rename H3 into Htk.
      intros tk' o c0 Hi Hc0. cbn [sq_last].
      assert (Hnew : o = oi_of n -> exists t, assoc c0 ((c, st_path (n_site n)) :: drop_key c last1) = Some t /\
                        (opath o = t \/ exists ntk, sibf K (st_task (oi_site o)) tk' (opath o) ntk t = true)).
      { intros ->. cbn in Hc0. rewrite Hctx in Hc0. inv Hc0. exists (st_path (n_site n)). cbn [assoc].
        rewrite Nat.eqb_refl. split; [reflexivity|]. left. reflexivity. }
      assert (Hin : In o (ssel tk' S) -> exists t, assoc c0 ((c, st_path (n_site n)) :: drop_key c last1) = Some t /\
                        (opath o = t \/ exists ntk, sibf K (st_task (oi_site o)) tk' (opath o) ntk t = true)).
      { intro Hi0. cbn [assoc]. destruct (Nat.eqb c0 c) eqn:Ec.
        - apply Nat.eqb_eq in Ec. subst c0. exists (st_path (n_site n)). split; [reflexivity|]. right. exists tk.
          assert (Hk : kid_ok (sibf K) (st_task (n_site n)) tk' o tk (st_path (n_site n)) = true).
          { destruct tk'; cbn [ssel] in Hi0.
            - rewrite forallb_forall in Htk. specialize (Htk _ Hi0). apply orb_true_iff in Htk.
              destruct Htk as [Hn|Hk]; [|exact Hk]. apply negb_true_iff in Hn.
              rewrite (proj2 (ctx_is_true c o) Hc0) in Hn. discriminate.
            - rewrite forallb_forall in Hsv. specialize (Hsv _ Hi0). apply orb_true_iff in Hsv.
              destruct Hsv as [Hn|Hk]; [|exact Hk]. apply negb_true_iff in Hn.
              rewrite (proj2 (ctx_is_true c o) Hc0) in Hn. discriminate. }
          unfold kid_ok in Hk. apply andb_true_iff in Hk. destruct Hk as [Hk1 Hk2]. apply Nat.eqb_eq in Hk1.
          rewrite Hk1. exact Hk2.
        - apply Nat.eqb_neq in Ec. rewrite (assoc_drop_other _ _ _ Ec).
          assert (El : assoc c0 last1 = assoc c0 (sq_last S)).
          { unfold last1. destruct tk; [|reflexivity]. apply assoc_drop_other. intro Heq. subst c0.
            cbn [andb negb orb] in Hfresh. apply negb_true_iff in Hfresh.
            apply (proj1 (has_kid_false _ _) Hfresh tk' o Hi0). exact Hc0. }
          rewrite El. apply (HJ tk' o c0 Hi0 Hc0). }
      destruct tk, tk'; cbn [ssel sq_tasks sq_svcs] in Hi.
      + destruct Hi as [<-|Hi]; [apply Hnew; reflexivity|apply Hin; exact Hi].
      + apply Hin. exact Hi.
      + apply Hin. exact Hi.
      + destruct Hi as [<-|Hi]; [apply Hnew; reflexivity|apply Hin; exact Hi].
    - match type of H with (if ?X then _ else _) = _ => destruct X eqn:E end; [|discriminate]. inv H.
      apply andb_true_iff in E. destruct E as [E Hfresh]. subst tk. apply negb_true_iff in Hfresh.
      intros tk' o c0 Hi Hc0. cbn [sq_last]. unfold last1.
      assert (Hin : In o (ssel tk' S)).
      { destruct tk'; cbn [ssel sq_tasks sq_svcs] in Hi; [|exact Hi].
        destruct Hi as [<-|Hi]; [|exact Hi]. cbn in Hc0. rewrite Hctx in Hc0. discriminate. }
      rewrite assoc_drop_other.
      + apply (HJ tk' o c0 Hin Hc0).
      + intro Heq. subst c0. apply (proj1 (has_kid_false _ _) Hfresh tk' o Hin). exact Hc0.
  Qed.

  Lemma JJ_finish : forall S tk n S', JJ S -> seq_finish S tk n = Some S' -> JJ S'.
  Proof.
    intros S tk n S' HJ H. unfold seq_finish in H.
    destruct (remove_first (oi_eqb (oi_of n)) (if tk then sq_tasks S else sq_svcs S)) as [rest|] eqn:R; [|discriminate].
    match type of H with (if ?X then _ else _) = _ => destruct X end; [discriminate|]. inv H.
    intros tk' o c0 Hi Hc0. cbn [sq_last]. apply (HJ tk' o c0); [|exact Hc0].
    destruct tk, tk'; cbn [ssel sq_tasks sq_svcs] in *; try exact Hi; eapply remove_first_in; eassumption.
  Qed.

  Lemma JJ_step : forall S n S', JJ S -> seq_notif (sibf K) (sokf K) S n = Some S' -> JJ S'.
  Proof.
    intros S n S' HJ H. unfold seq_notif in H.
    destruct (n_kind n); [eapply JJ_start|eapply JJ_finish|eapply JJ_start|eapply JJ_finish]; eassumption.
  Qed.

  Lemma JJ_new_call : forall S, JJ S -> JJ (new_call S).
  Proof. intros S H. exact H. Qed.

  (* finished notifications: whatever the lifecycle monitor accepts this monitor accepts *)
  Lemma finish_sim : forall S L (tk : bool) n L',
      opens_eq S L -> n_kind n = (if tk then TF else SF) -> life_step L n = Some L' ->
      exists S', seq_finish S tk n = Some S' /\ opens_eq S' L' /\ sq_last S' = sq_last S /\
                 sq_act S' = match n_ctx n with Some c => c :: sq_act S | None => sq_act S end.
  Proof.
    intros S L tk n L' [O1 O2] Hk H. unfold life_step in H. rewrite Hk in H. unfold seq_finish.
    destruct tk.
    - rewrite O1. destruct (remove_first (oi_eqb (oi_of n)) (lf_tasks L)) as [rest|]; [|discriminate].
      match type of H with (if ?X then _ else _) = _ => destruct X eqn:E end; [discriminate|]. inv H.
      unfold has_kid. cbn [sq_tasks sq_svcs andb]. unfold has_open_child in E. cbn [lf_tasks lf_svcs] in E.
      rewrite O2. unfold ctx_is.
      match goal with |- context [if ?X then _ else _] => assert (X = false) as -> end.
      { exact E. }
      eexists. split; [reflexivity|]. split; [split; reflexivity|]. split; reflexivity.
    - rewrite O2. destruct (remove_first (oi_eqb (oi_of n)) (lf_svcs L)) as [rest|]; [|discriminate]. inv H.
      cbn [andb]. eexists. split; [reflexivity|]. split; [split; [exact O1|reflexivity]|]. split; reflexivity.
  Qed.

  (* started notifications: the lists of statements in progress agree *)
  Lemma start_sim : forall S L (tk : bool) n L' S',
      opens_eq S L -> n_kind n = (if tk then TS else SS) -> life_step L n = Some L' ->
      seq_start (sibf K) (sokf K) S tk n = Some S' -> opens_eq S' L'.
  Proof.
    intros S L tk n L' S' [O1 O2] Hk H HS. unfold life_step in H. rewrite Hk in H. unfold seq_start in HS.
    assert (E : lf_tasks L' = (if tk then oi_of n :: lf_tasks L else lf_tasks L) /\
                lf_svcs L' = (if tk then lf_svcs L else oi_of n :: lf_svcs L)).
    { destruct tk; match type of H with (if ?X then _ else _) = _ => destruct X end; try discriminate; inv H;
        split; reflexivity. }
    destruct E as [E1 E2].
    destruct (n_ctx n); match type of HS with (if ?X then _ else _) = _ => destruct X end; try discriminate; inv HS;
      split; cbn [sq_tasks sq_svcs]; rewrite ?O1, ?O2, ?E1, ?E2; reflexivity.
  Qed.
End MonFacts.

(* ===================================================================== *)
(* 6. the invariant threaded through the interpreter                       *)
(* ===================================================================== *)
Definition cnamed (c : nat) (tn : name) (l : list open_inst) : Prop :=
  exists o, In o l /\ oi_id o = c /\ oi_name o = tn.

Lemma cnamed_copen : forall c tn l, cnamed c tn l -> copen c l.
Proof. intros c tn l (o & Hi & He & _). exists o. split; assumption. Qed.

Lemma cnamed_grow : forall c tn l l' a, cnamed c tn l -> Permutation l' (a ++ l) -> cnamed c tn l'.
Proof.
  intros c tn l l' a (o & Hi & He) HP. exists o. split; [|exact He].
  eapply Permutation_in; [apply Permutation_sym; exact HP|]. apply in_or_app. right. exact Hi.
Qed.

Definition NoKids (c : nat) (L : life) : Prop := forall tk o, In o (sel tk L) -> oi_ctx o <> Some c.
Definition NoKidsF (c : nat) (F : bool -> list open_inst) : Prop := forall tk o, In o (F tk) -> oi_ctx o <> Some c.

Definition lastc (c : nat) (S : seqst) : option (list nat) := assoc c (sq_last S).

Lemma oext_app : forall q a t, oext (q ++ a) t -> oext q t.
Proof. intros q a t (t' & -> & H). exists t'. split; [reflexivity|]. eapply ext_app. exact H. Qed.

(* what a computation of the start family inside instance [ctx], at position [q], does to the
   monitor's bookkeeping *)
Record SEx (bound : nat) (ctx : nat) (S S' : seqst) (q : list nat) : Prop := {
  sx_act : incl (sq_act S) (sq_act S');
  sx_last : lastc ctx S' = lastc ctx S \/ oext q (lastc ctx S');
  sx_frame : forall k, k < bound -> k <> ctx -> lastc k S' = lastc k S
}.

Lemma SEx_refl : forall b c S q, SEx b c S S q.
Proof. intros. constructor; [apply incl_refl|left; reflexivity|reflexivity]. Qed.

Lemma SEx_trans : forall b b1 c S S1 S2 q,
    SEx b c S S1 q -> SEx b1 c S1 S2 q -> b <= b1 -> SEx b c S S2 q.
Proof.
  intros b b1 c S S1 S2 q [A1 A2 A3] [B1 B2 B3] Hle. constructor.
  - eapply incl_tran; eassumption.
  - destruct B2 as [B2|B2]; [|right; exact B2]. rewrite B2. exact A2.
  - intros k Hk Hne. rewrite B3 by (try lia; assumption). apply A3; assumption.
Qed.

Lemma SEx_weaken : forall b c S S' q a, SEx b c S S' (q ++ a) -> SEx b c S S' q.
Proof.
  intros b c S S' q a [A1 A2 A3]. constructor; auto.
  destruct A2 as [A2|A2]; [left; exact A2|right; eapply oext_app; exact A2].
Qed.

Lemma SEx_bound : forall b b' c S S' q, SEx b c S S' q -> b' <= b -> SEx b' c S S' q.
Proof. intros b b' c S S' q [A1 A2 A3] Hle. constructor; auto. intros k Hk. apply A3. lia. Qed.

Lemma sel_perm_in : forall (X Y Z : list open_inst) o, Permutation X (Y ++ Z) -> In o X -> In o Y \/ In o Z.
Proof. intros X Y Z o HP Hi. apply in_app_or. eapply Permutation_in; eassumption. Qed.

(* the statements in progress that name [ctx] among those opened by a task call of [ctx] are
   the call itself *)
Lemma call_kids : forall tk ctx t at_ ins body st (l F : list open_inst) o,
    NoDup (map oi_id l) -> Permutation l (opn true ctx (XCall t at_ ins body) st ++ F) -> copen ctx F ->
    In o (opn tk ctx (XCall t at_ ins body) st) -> oi_ctx o = Some ctx ->
    tk = true /\ exists id, o = inst id (Some ctx) t at_.
Proof.
  intros tk ctx t at_ ins body st l F o ND HP (o' & Ho' & Hid') Hi Hc.
  assert (Hctx : In ctx (map oi_id F)) by (rewrite <- Hid'; apply in_map; exact Ho').
  destruct st as [|id'|id i st'|sts|bb i st'|k i st'|sts]; try contradiction.
  cbn [opn] in Hi, HP. apply in_app_iff in Hi. destruct Hi as [Hi|Hi].
  - destruct tk; [|contradiction]. destruct Hi as [<-|[]]. split; [reflexivity|]. exists id. reflexivity.
  - exfalso. destruct (nth_error body i) as [s'|]; [|contradiction].
    destruct (opn_ctx st' s' id _ _ Hi) as [H|(t0 & H1 & H2)].
    + rewrite Hc in H. injection H as H.
      eapply (nd_disj _ _ _ ctx ND HP); [|exact Hctx]. cbn [app map]. left. cbn. congruence.
    + rewrite Hc in H1. injection H1 as H1.
      eapply (nd_disj _ _ _ ctx ND HP); [|exact Hctx]. cbn [app map]. right. rewrite H1. exact H2.
Qed.

Section Seq.
  Variable K : name -> list nat -> skind.

  Definition SQn (S0 : seqst) (ns : list notif) (L : life) (S : seqst) : Prop :=
    seq_notifs (sibf K) (sokf K) S0 ns = Some S /\ opens_eq S L /\ JJ K S.
  Definition SQ (S0 : seqst) (g : G) (L : life) (S : seqst) : Prop := SQn S0 (N g) L S.

  Lemma SQ_same : forall S0 g g' L S, SQ S0 g L S -> N g' = N g -> SQ S0 g' L S.
  Proof. unfold SQ. intros S0 g g' L S H E. rewrite E. exact H. Qed.

  Lemma SQn_step : forall S0 ns L S n L' S',
      SQn S0 ns L S -> life_step L n = Some L' -> seq_notif (sibf K) (sokf K) S n = Some S' ->
      SQn S0 (ns ++ [n]) L' S'.
  Proof.
    intros S0 ns L S n L' S' (H1 & H2 & H3) HL HS. split; [|split].
    - rewrite seq_notifs_app, H1. cbn [seq_notifs]. rewrite HS. reflexivity.
    - unfold seq_notif in HS. destruct (n_kind n) eqn:Hk.
      + eapply (start_sim K S L true); eassumption.
      + destruct (finish_sim S L true n L' H2 Hk HL) as (S2 & E1 & E2 & _). rewrite E1 in HS. inv HS. exact E2.
      + eapply (start_sim K S L false); eassumption.
      + destruct (finish_sim S L false n L' H2 Hk HL) as (S2 & E1 & E2 & _). rewrite E1 in HS. inv HS. exact E2.
    - eapply JJ_step; eassumption.
  Qed.

  Lemma SQ_step : forall S0 g g' L S n L' S',
      SQ S0 g L S -> N g' = N g ++ [n] -> life_step L n = Some L' ->
      seq_notif (sibf K) (sokf K) S n = Some S' -> SQ S0 g' L' S'.
  Proof. unfold SQ. intros S0 g g' L S n L' S' H E HL HS. rewrite E. eapply SQn_step; eassumption. Qed.

  (* a finished notification *)
  Lemma SQ_finish : forall S0 g g' L S (tk : bool) n L',
      SQ S0 g L S -> N g' = N g ++ [n] -> n_kind n = (if tk then TF else SF) -> life_step L n = Some L' ->
      exists S', SQ S0 g' L' S' /\ sq_last S' = sq_last S /\
                 sq_act S' = match n_ctx n with Some c => c :: sq_act S | None => sq_act S end.
  Proof.
    intros S0 g g' L S tk n L' H E Hk HL. pose proof H as (_ & H2 & _).
    destruct (finish_sim S L tk n L' H2 Hk HL) as (S2 & E1 & E2 & E3 & E4).
    exists S2. split; [|split; assumption].
    eapply SQ_step; [exact H|exact E|exact HL|]. unfold seq_notif. rewrite Hk. destruct tk; exact E1.
  Qed.

  (* a started notification: the monitor's tests *)
  Lemma seq_start_ok : forall S L (tk : bool) n c tn p,
      opens_eq S L -> n_ctx n = Some c -> n_site n = mksite tn p ->
      cnamed c tn (lf_tasks L) ->
      (forall tk' o, In o (sel tk' L) -> oi_ctx o = Some c ->
                     st_task (oi_site o) = tn /\ sibK (K tn) tk' (opath o) tk p = true) ->
      okopt (K tn) (lastc c S) p ->
      In c (sq_act S) ->
      (tk = true -> forall tk' o, In o (sel tk' L) -> oi_ctx o <> Some (n_id n)) ->
      seq_start (sibf K) (sokf K) S tk n =
      Some {| sq_tasks := if tk then oi_of n :: sq_tasks S else sq_tasks S;
              sq_svcs := if tk then sq_svcs S else oi_of n :: sq_svcs S;
              sq_last := (c, p) :: drop_key c (if tk then drop_key (n_id n) (sq_last S) else sq_last S);
              sq_act := if tk then n_id n :: sq_act S else sq_act S |}.
  Proof.
    intros S L tk n c tn p HO Hctx Hsite (o0 & Hi0 & Hid0 & Hnm0) Hkids Hok Hact Hfresh.
    pose proof (opens_eq_sel S L true HO) as Et. pose proof (opens_eq_sel S L false HO) as Es.
    cbn [ssel sel] in Et, Es.
    unfold seq_start. rewrite Hctx, Hsite. cbn [mksite st_task st_path].
    match goal with |- (if ?X then _ else _) = _ => assert (X = true) as -> end; [|reflexivity].
    repeat (apply andb_true_iff; split).
    - apply existsb_exists. exists o0. split; [rewrite Et; exact Hi0|].
      rewrite Hid0, Hnm0, !Nat.eqb_refl. reflexivity.
    - apply forallb_forall. intros o Hi. destruct (ctx_is c o) eqn:E; [|reflexivity]. cbn [negb orb].
      apply ctx_is_true in E. rewrite Et in Hi. destruct (Hkids true o Hi E) as [H1 H2].
      unfold kid_ok, sibf. rewrite H1, Nat.eqb_refl. exact H2.
    - apply forallb_forall. intros o Hi. destruct (ctx_is c o) eqn:E; [|reflexivity]. cbn [negb orb].
      apply ctx_is_true in E. rewrite Es in Hi. destruct (Hkids false o Hi E) as [H1 H2].
      unfold kid_ok, sibf. rewrite H1, Nat.eqb_refl. exact H2.
    - unfold lastc in Hok. destruct (assoc c (sq_last S)); [exact Hok|reflexivity].
    - apply mem_in. exact Hact.
    - destruct tk; [|reflexivity]. cbn [negb orb]. apply negb_true_iff. apply has_kid_false.
      intros tk' o Hi. apply (Hfresh eq_refl tk' o). rewrite <- (opens_eq_sel S L tk' HO). exact Hi.
  Qed.
End Seq.

(* ===================================================================== *)
(* 7. the start family                                                     *)
(* ===================================================================== *)
Section Start.
  Variable K : name -> list nat -> skind.
  Variable orc : oracle.
  Variable imm : nat -> bool.

  Fixpoint slist (mode : bool) (tn : name) (P : list nat) (j : nat) (l : list (ienv * xstmt)) : Prop :=
    match l with
    | [] => True
    | (_, b) :: r => is_call b = true /\ sited K tn (P ++ [if mode then 0 else j]) b /\ slist mode tn P (S j) r
    end.

  Lemma slist_par : forall tn P (ie : ienv) bs j,
      all_from (fun j b => is_call b = true /\ sited K tn (P ++ [j]) b) j bs ->
      slist false tn P j (map (fun b => (ie, b)) bs).
  Proof.
    intros tn P ie bs. induction bs as [|b bs IH]; intros j H; [exact I|].
    destruct H as [[H1 H2] H3]. cbn [map slist]. split; [exact H1|]. split; [exact H2|]. apply IH. exact H3.
  Qed.

  Lemma slist_insts : forall tn P ie v c n j,
      is_call c = true -> sited K tn (P ++ [0]) c -> slist true tn P j (insts ie v c n).
  Proof.
    intros tn P ie v c n j H1 H2. unfold insts. generalize (seq 0 n). intro l. revert j.
    induction l as [|x l IH]; intro j; [exact I|]. cbn [map slist]. split; [exact H1|]. split; [exact H2|]. apply IH.
  Qed.

  Lemma W_ctx_lt : forall L nt ns c tn, W L nt ns -> cnamed c tn (lf_tasks L) -> c < nt.
  Proof.
    intros L nt ns c tn HW (o & Hi & He & _). pose proof (w_ids _ _ _ HW) as H. rewrite Forall_forall in H.
    specialize (H _ Hi). lia.
  Qed.

  Lemma NoKids_fresh : forall L nt ns, W L nt ns -> NoKids nt L.
  Proof. intros L nt ns HW tk o Hi Hc. pose proof (w_ctx _ _ _ HW tk o nt Hi Hc). lia. Qed.

  Lemma NoKids_perm_nil : forall c L L1,
      NoKids c L -> (forall tk, Permutation (sel tk L1) ([] ++ sel tk L)) -> NoKids c L1.
  Proof.
    intros c L L1 H HP tk o Hi. apply (H tk o). eapply Permutation_in; [apply HP|exact Hi].
  Qed.

  Lemma lastc_set_same : forall c p l S1,
      sq_last S1 = (c, p) :: l -> lastc c S1 = Some p.
  Proof. intros c p l S1 H. unfold lastc. rewrite H. cbn [assoc]. rewrite Nat.eqb_refl. reflexivity. Qed.

  Lemma lastc_set_other : forall c k p l S1,
      sq_last S1 = (c, p) :: drop_key c l -> k <> c -> lastc k S1 = assoc k l.
  Proof.
    intros c k p l S1 H Hne. unfold lastc. rewrite H. cbn [assoc].
    assert (Nat.eqb k c = false) as -> by (apply Nat.eqb_neq; exact Hne). apply assoc_drop_other. exact Hne.
  Qed.

  Lemma start_seq : forall f,
      (forall ctx ie s g st g' L0 S0 L S tn pre i,
          start_stmt orc imm f ctx ie s g = Ok (st, g') ->
          lst_all (g_ls g) -> Acc L0 g L -> W L (g_tid g) (g_sid g) ->
          SQ K S0 g L S -> sited K tn (pre ++ [i]) s -> cnamed ctx tn (lf_tasks L) -> In ctx (sq_act S) ->
          (forall tk o, In o (sel tk L) -> oi_ctx o = Some ctx ->
              is_call s = true /\ st_task (oi_site o) = tn /\ sibK (K tn) tk (opath o) true (pre ++ [i]) = true) ->
          (forall rest, (is_call s = true -> rest = []) -> okopt (K tn) (lastc ctx S) ((pre ++ [i]) ++ rest)) ->
          forall L', Acc L0 g' L' ->
          exists S', SQ K S0 g' L' S' /\ SEx (g_tid g) ctx S S' (pre ++ [i]) /\
                     (is_call s = true -> lastc ctx S' = Some (pre ++ [i]))) /\
      (forall ctx ie ss i g r g' L0 S0 L S tn pre,
          run_block orc imm f ctx ie ss i g = Ok (r, g') ->
          lst_all (g_ls g) -> Acc L0 g L -> W L (g_tid g) (g_sid g) ->
          SQ K S0 g L S -> sblock K tn pre ss -> blockish (K tn pre) = true ->
          cnamed ctx tn (lf_tasks L) -> In ctx (sq_act S) -> NoKids ctx L ->
          Bef (K tn) (lastc ctx S) pre i ->
          forall L', Acc L0 g' L' ->
          exists S', SQ K S0 g' L' S' /\ SEx (g_tid g) ctx S S' pre) /\
      (forall ctx l g sts g' L0 S0 L S tn (mode : bool) P j,
          start_list orc imm f ctx l g = Ok (sts, g') ->
          lst_all (g_ls g) -> Acc L0 g L -> W L (g_tid g) (g_sid g) ->
          SQ K S0 g L S -> K tn P = (if mode then Kparloop else Kpar) -> P <> [] -> slist mode tn P j l ->
          cnamed ctx tn (lf_tasks L) -> In ctx (sq_act S) ->
          (forall tk o, In o (sel tk L) -> oi_ctx o = Some ctx ->
              tk = true /\ st_task (oi_site o) = tn /\
              exists j', opath o = P ++ [j'] /\ (if mode then j' = 0 else j' < j)) ->
          (l <> [] -> okopt (K tn) (lastc ctx S) (P ++ [if mode then 0 else j])) ->
          forall L', Acc L0 g' L' ->
          exists S', SQ K S0 g' L' S' /\ SEx (g_tid g) ctx S S' P) /\
      (forall ctx ie s k g st g' L0 S0 L S tn pre i,
          loop_test orc imm f ctx ie s k g = Ok (st, g') ->
          lst_all (g_ls g) -> Acc L0 g L -> W L (g_tid g) (g_sid g) ->
          SQ K S0 g L S -> sited K tn (pre ++ [i]) s ->
          cnamed ctx tn (lf_tasks L) -> In ctx (sq_act S) -> NoKids ctx L ->
          Bef (K tn) (lastc ctx S) (pre ++ [i]) 0 ->
          forall L', Acc L0 g' L' ->
          exists S', SQ K S0 g' L' S' /\ SEx (g_tid g) ctx S S' (pre ++ [i])).
  Proof.
    induction f as [|f IH]; [split; [|split; [|split]]; intros; discriminate|].
    destruct IH as (IHs & IHb & IHl & IHt).
    destruct (start_life orc imm f) as (LFs & LFb & LFl & LFt).
    split; [|split; [|split]].
    - (* start_stmt *)
      intros ctx ie s g st g' L0 S0 L S tn pre i H Hl HA HW HQ Hsit Hcn Hact Hkids Hok L' HA'.
      pose proof (cnamed_copen _ _ _ Hcn) as Hc.
      pose proof (W_ctx_lt _ _ _ _ _ HW Hcn) as Hlt.
      cbn [start_stmt] in H.
      destruct s as [n at_ ins|t at_ ins body|bs|e p fl|e b|v lim b|v lim c].
      + (* service *)
        cbn [sited] in Hsit. subst at_.
        assert (NK : NoKids ctx L).
        { intros tk o Hi Hcx. destruct (Hkids tk o Hi Hcx) as [X _]. discriminate X. }
        destruct (service_N _ _ _ _ _ _ _ _ _ H) as (A1 & A2 & A3 & A4).
        destruct (life_SS L _ _ n (mksite tn (pre ++ [i])) ctx (subst_params ie ins) HW Hc) as (L1 & S1 & W1 & P1).
        set (nSS := mk SS n (mksite tn (pre ++ [i])) (g_sid g) (Some ctx) (subst_params ie ins)) in *.
        assert (T1 : seq_start (sibf K) (sokf K) S false nSS =
                     Some {| sq_tasks := sq_tasks S; sq_svcs := oi_of nSS :: sq_svcs S;
                             sq_last := (ctx, pre ++ [i]) :: drop_key ctx (sq_last S); sq_act := sq_act S |}).
        { apply (seq_start_ok K S L false nSS ctx tn (pre ++ [i])); try reflexivity; try assumption.
          - apply HQ.
          - intros tk' o Hi Hcx. exfalso. exact (NK tk' o Hi Hcx).
          - specialize (Hok [] (fun _ => eq_refl)). rewrite app_nil_r in Hok. exact Hok.
          - intro X. discriminate X. }
        match type of T1 with _ = Some ?X => set (S1' := X) in * end.
        assert (Q1 : SQn K S0 (N g ++ [nSS]) L1 S1').
        { eapply SQn_step; [exact HQ|exact S1|]. unfold seq_notif. exact T1. }
        destruct (A4 Hl) as [[-> HN]|[-> HN]].
        * assert (HA1 : Acc L0 g' L1).
          { eapply Acc_app; [exact HA|exact HN|]. cbn [life_run]. rewrite S1. reflexivity. }
          rewrite <- (Acc_fun _ _ _ _ HA1 HA'). exists S1'. split; [|split].
          -- unfold SQ. rewrite HN. exact Q1.
          -- constructor.
             ++ apply incl_refl.
             ++ right. exists (pre ++ [i]). split; [|apply ext_refl]. eapply lastc_set_same. reflexivity.
             ++ intros k _ Hne. eapply lastc_set_other; [reflexivity|exact Hne].
          -- intro X. discriminate X.
        * destruct (life_SF L1 _ _ n (mksite tn (pre ++ [i])) (g_sid g) (Some ctx) (subst_params ie ins)
                            (fun tk => sel tk L) W1 P1) as (L2 & S2 & W2 & P2).
          set (nSF := mk SF n (mksite tn (pre ++ [i])) (g_sid g) (Some ctx) (subst_params ie ins)) in *.
          assert (HA2 : Acc L0 g' L2).
          { eapply Acc_app; [exact HA|exact HN|]. cbn [life_run]. rewrite S1, S2. reflexivity. }
          rewrite <- (Acc_fun _ _ _ _ HA2 HA').
          destruct Q1 as (Q1a & Q1b & Q1c).
          destruct (finish_sim S1' L1 false nSF L2 Q1b eq_refl S2) as (S2' & E1 & E2 & E3 & E4).
          exists S2'. split; [|split].
          -- unfold SQ. rewrite HN. change [nSS; nSF] with ([nSS] ++ [nSF]). rewrite app_assoc.
             eapply SQn_step; [split; [exact Q1a|split; [exact Q1b|exact Q1c]]|exact S2|].
             unfold seq_notif. exact E1.
          -- constructor.
             ++ rewrite E4. cbn. intros x Hx. right. exact Hx.
             ++ right. exists (pre ++ [i]). split; [|apply ext_refl]. unfold lastc. rewrite E3.
                cbn [S1' sq_last assoc]. rewrite Nat.eqb_refl. reflexivity.
             ++ intros k _ Hne. unfold lastc. rewrite E3. eapply lastc_set_other; [reflexivity|exact Hne].
          -- intro X. discriminate X.
      + (* call *)
        cbn [sited] in Hsit. destruct Hsit as (-> & HBt & Hbody).
        mstep as id g1 E1. mstep as u2 g2 E2.
        destruct (tstart_N _ _ _ _ _ _ _ _ _ E1 E2) as (-> & B1 & B2 & B3 & B4). specialize (B4 Hl).
        destruct (life_TS L _ _ t (mksite tn (pre ++ [i])) ctx (subst_params ie ins) HW Hc) as (L1 & S1 & W1 & P1).
        set (nTS := mk TS t (mksite tn (pre ++ [i])) (g_tid g) (Some ctx) (subst_params ie ins)) in *.
        assert (T1 : seq_start (sibf K) (sokf K) S true nTS =
                     Some {| sq_tasks := oi_of nTS :: sq_tasks S; sq_svcs := sq_svcs S;
                             sq_last := (ctx, pre ++ [i]) :: drop_key ctx (drop_key (g_tid g) (sq_last S));
                             sq_act := g_tid g :: sq_act S |}).
        { apply (seq_start_ok K S L true nTS ctx tn (pre ++ [i])); try reflexivity; try assumption.
          - apply HQ.
          - intros tk' o Hi Hcx. destruct (Hkids tk' o Hi Hcx) as (_ & X1 & X2). split; assumption.
          - specialize (Hok [] (fun _ => eq_refl)). rewrite app_nil_r in Hok. exact Hok.
          - intros _ tk' o Hi. apply (NoKids_fresh _ _ _ HW tk' o Hi). }
        match type of T1 with _ = Some ?X => set (S1' := X) in * end.
        assert (Q2 : SQ K S0 g2 L1 S1') by (eapply SQ_step; [exact HQ|exact B4|exact S1|exact T1]).
        mstep as r g3 E3.
        pose proof (Eff_Fr _ _ _ (proj1 (proj2 (start_eff orc imm f)) _ _ _ _ _ _ _ E3)) as (F1 & F2 & F3).
        assert (HA1 : Acc L0 g2 L1).
        { eapply Acc_app; [exact HA|exact B4|]. cbn [life_run]. rewrite S1. reflexivity. }
        assert (HT : In (inst (g_tid g) (Some ctx) t (mksite tn (pre ++ [i]))) (lf_tasks L1)).
        { eapply Permutation_in; [apply Permutation_sym; apply (P1 true)|]. left. reflexivity. }
        assert (Hc1 : copen (g_tid g) (lf_tasks L1)) by (eexists; split; [exact HT|reflexivity]).
        assert (Hcn1 : cnamed (g_tid g) t (lf_tasks L1)) by (eexists; split; [exact HT|split; reflexivity]).
        assert (W1' : W L1 (g_tid g2) (g_sid g2)) by (rewrite B2, B3; exact W1).
        assert (Hl2 : lst_all (g_ls g2)) by (rewrite B1; exact Hl).
        destruct (LFb _ _ _ _ _ _ _ _ _ E3 Hl2 HA1 W1' Hc1) as (L3 & A3 & W3 & P3).
        assert (NK1 : NoKids (g_tid g) L1).
        { intros tk o Hi Hcx. destruct (sel_perm_in _ _ _ _ (P1 tk) Hi) as [Hi1|Hi1].
          - destruct tk; [|contradiction]. destruct Hi1 as [<-|[]]. cbn in Hcx. inv Hcx. lia.
          - exact (NoKids_fresh _ _ _ HW tk o Hi1 Hcx). }
        assert (Hne : g_tid g <> ctx) by lia.
        assert (Bef1 : Bef (K t) (lastc (g_tid g) S1') [] 0).
        { rewrite (lastc_set_other ctx (g_tid g) (pre ++ [i]) _ S1' eq_refl Hne), assoc_drop_same. apply Bef_none. }
        destruct (IHb _ _ _ _ _ _ _ _ _ _ _ t [] E3 Hl2 HA1 W1' Q2 Hbody HBt Hcn1 ltac:(left; reflexivity) NK1 Bef1 L3 A3)
          as (S3 & Q3 & X3).
        assert (Hctx3 : lastc ctx S3 = Some (pre ++ [i])).
        { rewrite (sx_frame _ _ _ _ _ X3 ctx) by (rewrite ?B2; lia). eapply lastc_set_same. reflexivity. }
        assert (Hfr3 : forall k, k < g_tid g -> k <> ctx -> lastc k S3 = lastc k S).
        { intros k Hk Hkc. rewrite (sx_frame _ _ _ _ _ X3 k) by (rewrite ?B2; lia).
          rewrite (lastc_set_other ctx k (pre ++ [i]) _ S1' eq_refl Hkc). apply assoc_drop_other. lia. }
        assert (Hact3 : incl (sq_act S) (sq_act S3)).
        { intros x Hx. apply (sx_act _ _ _ _ _ X3). right. exact Hx. }
        destruct r as [[i0 sti]|].
        * mstep. rewrite <- (Acc_fun _ _ _ _ A3 HA'). exists S3. split; [exact Q3|]. split.
          -- constructor; [exact Hact3| |exact Hfr3]. right. exists (pre ++ [i]). split; [exact Hctx3|apply ext_refl].
          -- intros _. exact Hctx3.
        * mstep as u4 g4 E4. destruct (emit_frame _ _ _ _ _ E4) as (C1 & C2 & C3).
          pose proof (emit_N _ _ _ _ _ E4 ltac:(rewrite F1; exact Hl2)) as C4.
          destruct (life_TF L3 _ _ t (mksite tn (pre ++ [i])) (g_tid g) (Some ctx) (subst_params ie ins) (fun tk => sel tk L) W3)
            as (L4 & S4 & W4 & P4).
          { cbn [opn_opt] in P3. clear - P1 P3. perm. }
          { intros tk o Hi Hx. pose proof (w_ctx _ _ _ HW _ _ _ Hi Hx). lia. }
          mstep.
          assert (HA4 : Acc L0 g4 L4).
          { eapply Acc_app; [exact A3|exact C4|]. cbn [life_run]. rewrite S4. reflexivity. }
          rewrite <- (Acc_fun _ _ _ _ HA4 HA').
          destruct (SQ_finish K S0 g3 g4 L3 S3 true _ L4 Q3 C4 eq_refl S4) as (S4' & Q4 & E5 & E6).
          cbn [mk n_ctx] in E6.
          exists S4'. split; [exact Q4|]. split.
          -- constructor.
             ++ rewrite E6. intros x Hx. right. apply Hact3. exact Hx.
             ++ right. exists (pre ++ [i]). split; [|apply ext_refl]. unfold lastc. rewrite E5. exact Hctx3.
             ++ intros k Hk Hkc. unfold lastc. rewrite E5. apply Hfr3; assumption.
          -- intros _. unfold lastc. rewrite E5. exact Hctx3.
      + (* parallel *)
        cbn [sited] in Hsit. destruct Hsit as (HK & Hbs).
        mstep as sts g1 E1.
        destruct (LFl _ _ _ _ _ _ _ E1 Hl HA HW Hc) as (L1 & A1 & W1 & P1).
        destruct (IHl _ _ _ _ _ _ _ _ _ tn false (pre ++ [i]) 0 E1 Hl HA HW HQ HK ltac:(destruct pre; discriminate) (slist_par _ _ _ _ _ Hbs) Hcn Hact) with (L' := L1)
          as (S1 & Q1 & X1).
        { intros tk o Hi Hcx. destruct (Hkids tk o Hi Hcx) as [X _]. discriminate X. }
        { intros _. apply (Hok [0]). intro X. discriminate X. }
        { exact A1. }
        destruct (all_done sts); mstep; rewrite <- (Acc_fun _ _ _ _ A1 HA'); exists S1;
          (split; [exact Q1|]); (split; [exact X1|intro X; discriminate X]).
      + (* condition *)
        cbn [sited] in Hsit. destruct Hsit as (HB0 & HB1 & Hp & Hf).
        assert (NK : NoKids ctx L).
        { intros tk o Hi Hcx. destruct (Hkids tk o Hi Hcx) as [X _]. discriminate X. }
        mstep as bb g1 E1.
        pose proof (Eff_Fr _ _ _ (decide_m_eff _ _ _ _ _ _ E1)) as FR1.
        destruct (pre_quiet _ _ _ _ FR1 (decide_N _ _ _ _ _ _ E1) Hl HA HW) as (Hl1 & HA1 & HW1).
        assert (Q1 : SQ K S0 g1 L S) by (eapply SQ_same; [exact HQ|eapply decide_N; exact E1]).
        mstep as r g2 E2.
        destruct (LFb _ _ _ _ _ _ _ _ _ E2 Hl1 HA1 HW1 Hc) as (L2 & A2 & W2 & P2).
        destruct (IHb _ _ _ _ _ _ _ _ _ _ _ tn ((pre ++ [i]) ++ [if bb then 0 else 1]) E2 Hl1 HA1 HW1 Q1) with (L' := L2)
          as (S2 & Q2 & X2); try assumption.
        { destruct bb; assumption. }
        { destruct bb; assumption. }
        { intros j rest _. rewrite <- app_assoc. cbn [app]. apply Hok. intro X. discriminate X. }
        assert (X2' : SEx (g_tid g) ctx S S2 (pre ++ [i])).
        { eapply SEx_bound; [eapply SEx_weaken; exact X2|]. destruct FR1 as (_ & FR & _). exact FR. }
        destruct r as [[i0 sti]|]; mstep; rewrite <- (Acc_fun _ _ _ _ A2 HA'); exists S2;
          (split; [exact Q2|]); (split; [exact X2'|intro X; discriminate X]).
      + (* while *)
        assert (NK : NoKids ctx L).
        { intros tk o Hi Hcx. destruct (Hkids tk o Hi Hcx) as [X _]. discriminate X. }
        destruct (IHt _ _ _ _ _ _ _ _ _ _ _ tn pre i H Hl HA HW HQ Hsit Hcn Hact NK) with (L' := L') as (S1 & Q1 & X1).
        { intros j rest _. apply Hok. intro X. discriminate X. }
        { exact HA'. }
        exists S1. split; [exact Q1|]. split; [exact X1|intro X; discriminate X].
      + (* counting loop *)
        assert (NK : NoKids ctx L).
        { intros tk o Hi Hcx. destruct (Hkids tk o Hi Hcx) as [X _]. discriminate X. }
        destruct (IHt _ _ _ _ _ _ _ _ _ _ _ tn pre i H Hl HA HW HQ Hsit Hcn Hact NK) with (L' := L') as (S1 & Q1 & X1).
        { intros j rest _. apply Hok. intro X. discriminate X. }
        { exact HA'. }
        exists S1. split; [exact Q1|]. split; [exact X1|intro X; discriminate X].
      + (* parallel loop *)
        cbn [sited] in Hsit. destruct Hsit as (HK & Hcc & Hcs).
        mstep as n g1 E1.
        pose proof (Eff_Fr _ _ _ (read_limit_eff _ _ _ _ _ _ E1)) as FR1.
        destruct (pre_quiet _ _ _ _ FR1 (limit_N _ _ _ _ _ _ E1) Hl HA HW) as (Hl1 & HA1 & HW1).
        assert (Q1 : SQ K S0 g1 L S) by (eapply SQ_same; [exact HQ|eapply limit_N; exact E1]).
        mstep as sts g2 E2.
        destruct (LFl _ _ _ _ _ _ _ E2 Hl1 HA1 HW1 Hc) as (L2 & A2 & W2 & P2).
        destruct (IHl _ _ _ _ _ _ _ _ _ tn true (pre ++ [i]) 0 E2 Hl1 HA1 HW1 Q1 HK ltac:(destruct pre; discriminate)
                      (slist_insts _ _ _ _ _ _ _ Hcc Hcs) Hcn Hact) with (L' := L2)
          as (S2 & Q2 & X2).
        { intros tk o Hi Hcx. destruct (Hkids tk o Hi Hcx) as [X _]. discriminate X. }
        { intros _. apply (Hok [0]). intro X. discriminate X. }
        { exact A2. }
        assert (X2' : SEx (g_tid g) ctx S S2 (pre ++ [i])).
        { eapply SEx_bound; [exact X2|]. destruct FR1 as (_ & FR & _). exact FR. }
        destruct (all_done sts); mstep; rewrite <- (Acc_fun _ _ _ _ A2 HA'); exists S2;
          (split; [exact Q2|]); (split; [exact X2'|intro X; discriminate X]).
    - (* run_block *)
      intros ctx ie ss i g r g' L0 S0 L S tn pre H Hl HA HW HQ Hsb HB Hcn Hact NK HBef L' HA'.
      pose proof (cnamed_copen _ _ _ Hcn) as Hc.
      cbn [run_block] in H. destruct (nth_error ss i) as [s1|] eqn:Hn.
      + mstep as st g1 E1.
        pose proof (Eff_Fr _ _ _ (proj1 (start_eff orc imm f) _ _ _ _ _ _ E1)) as (F1 & F2 & F3).
        destruct (LFs _ _ _ _ _ _ _ _ E1 Hl HA HW Hc) as (L1 & A1 & W1 & P1).
        destruct (IHs _ _ _ _ _ _ _ _ _ _ tn pre i E1 Hl HA HW HQ (sblock_nth _ _ _ _ _ _ Hsb Hn) Hcn Hact) with (L' := L1)
          as (S1 & Q1 & X1 & _).
        { intros tk o Hi Hcx. exfalso. exact (NK tk o Hi Hcx). }
        { intros rest _. rewrite <- app_assoc. cbn [app]. apply HBef. lia. }
        { exact A1. }
        destruct (is_done st) eqn:D.
        * assert (P1' : forall tk, Permutation (sel tk L1) ([] ++ sel tk L)).
          { intro tk. rewrite <- (opn_done tk ctx s1 st D). apply P1. }
          destruct (IHb _ _ _ _ _ _ _ _ _ _ _ tn pre H ltac:(rewrite F1; exact Hl) A1 W1 Q1 Hsb HB) with (L' := L') as (S2 & Q2 & X2).
          { eapply cnamed_grow; [exact Hcn|apply (P1' true)]. }
          { apply (sx_act _ _ _ _ _ X1). exact Hact. }
          { eapply NoKids_perm_nil; eassumption. }
          { destruct (sx_last _ _ _ _ _ X1) as [E|E].
            - rewrite E. eapply Bef_mono; [exact HBef|lia].
            - apply Bef_after; assumption. }
          { exact HA'. }
          exists S2. split; [exact Q2|]. eapply SEx_trans; [eapply SEx_weaken; exact X1|exact X2|exact F2].
        * mstep. rewrite <- (Acc_fun _ _ _ _ A1 HA'). exists S1. split; [exact Q1|]. eapply SEx_weaken; exact X1.
      + mstep. rewrite <- (Acc_fun _ _ _ _ HA HA'). exists S. split; [exact HQ|apply SEx_refl].
    - (* start_list *)
      intros ctx l g sts g' L0 S0 L S tn mode P j H Hl HA HW HQ HK HPne Hsl Hcn Hact KL OKL L' HA'.
      pose proof (cnamed_copen _ _ _ Hcn) as Hc.
      cbn [start_list] in H. destruct l as [|[ie b] r].
      + mstep. rewrite <- (Acc_fun _ _ _ _ HA HA'). exists S. split; [exact HQ|apply SEx_refl].
      + destruct Hsl as (Hcb & Hsb & Hsr).
        destruct b as [?|t at_ ins body|?|? ? ?|? ?|? ? ?|? ? ?]; try discriminate Hcb.
        set (jj := if mode then 0 else j) in *.
        mstep as st g1 E1.
        pose proof (Eff_Fr _ _ _ (proj1 (start_eff orc imm f) _ _ _ _ _ _ E1)) as (F1 & F2 & F3).
        destruct (LFs _ _ _ _ _ _ _ _ E1 Hl HA HW Hc) as (L1 & A1 & W1 & P1).
        destruct (IHs _ _ _ _ _ _ _ _ _ _ tn P jj E1 Hl HA HW HQ Hsb Hcn Hact) with (L' := L1)
          as (S1 & Q1 & X1 & XL).
        { intros tk o Hi Hcx. destruct (KL tk o Hi Hcx) as (-> & Y1 & j' & Y2 & Y3).
          split; [reflexivity|]. split; [exact Y1|]. rewrite Y2. unfold jj. destruct mode.
          - subst j'. apply sibK_parloop. exact HK.
          - apply sibK_par; assumption. }
        { intros rest Hr. rewrite (Hr eq_refl), app_nil_r. apply OKL. discriminate. }
        { exact A1. }
        specialize (XL eq_refl).
        mstep as sts1 g2 E2.
        destruct (LFl _ _ _ _ _ _ _ E2 ltac:(rewrite F1; exact Hl) A1 W1 (copen_grow _ _ _ _ Hc P1)) as (L2 & A2 & W2 & P2).
        cbn [sited] in Hsb. destruct Hsb as (-> & _ & _).
        destruct (IHl _ _ _ _ _ _ _ _ _ tn mode P (Datatypes.S j) E2 ltac:(rewrite F1; exact Hl) A1 W1 Q1 HK HPne Hsr) with (L' := L2)
          as (S2 & Q2 & X2).
        { eapply cnamed_grow; [exact Hcn|apply (P1 true)]. }
        { apply (sx_act _ _ _ _ _ X1). exact Hact. }
        { intros tk o Hi Hcx. destruct (sel_perm_in _ _ _ _ (P1 tk) Hi) as [Hi1|Hi1].
          - destruct (call_kids tk ctx t _ ins body st _ _ o (w_nd _ _ _ W1) (P1 true) Hc Hi1 Hcx) as (-> & id & ->).
            split; [reflexivity|]. split; [reflexivity|]. exists jj. split; [reflexivity|].
            unfold jj. destruct mode; [reflexivity|lia].
          - destruct (KL tk o Hi1 Hcx) as (-> & Y1 & j' & Y2 & Y3). split; [reflexivity|]. split; [exact Y1|].
            exists j'. split; [exact Y2|]. destruct mode; [exact Y3|lia]. }
        { intros _. rewrite XL. cbn [okopt]. unfold jj. destruct mode.
          - apply okK_next_instance; assumption.
          - apply okK_next_branch; [exact HK|lia]. }
        { exact A2. }
        mstep. rewrite <- (Acc_fun _ _ _ _ A2 HA'). exists S2. split; [exact Q2|].
        eapply SEx_trans; [eapply SEx_weaken; exact X1|exact X2|exact F2].
    - (* loop_test *)
      intros ctx ie s k g st g' L0 S0 L S tn pre i H Hl HA HW HQ Hsit Hcn Hact NK HBef L' HA'.
      pose proof (cnamed_copen _ _ _ Hcn) as Hc.
      cbn [loop_test] in H.
      destruct s as [n at_ ins|t at_ ins body|bs|e p fl|e b|v lim b|v lim c]; try discriminate.
      + (* while *)
        pose proof Hsit as Hsit0. cbn [sited] in Hsit. destruct Hsit as (HK & Hb).
        mstep as bb g1 E1.
        pose proof (Eff_Fr _ _ _ (decide_m_eff _ _ _ _ _ _ E1)) as FR1.
        destruct (pre_quiet _ _ _ _ FR1 (decide_N _ _ _ _ _ _ E1) Hl HA HW) as (Hl1 & HA1 & HW1).
        assert (Q1 : SQ K S0 g1 L S) by (eapply SQ_same; [exact HQ|eapply decide_N; exact E1]).
        destruct FR1 as (_ & FR1 & _).
        destruct bb.
        * mstep as r g2 E2.
          pose proof (Eff_Fr _ _ _ (proj1 (proj2 (start_eff orc imm f)) _ _ _ _ _ _ _ E2)) as (F1 & F2 & F3).
          destruct (LFb _ _ _ _ _ _ _ _ _ E2 Hl1 HA1 HW1 Hc) as (L2 & A2 & W2 & P2).
          destruct (IHb _ _ _ _ _ _ _ _ _ _ _ tn (pre ++ [i]) E2 Hl1 HA1 HW1 Q1 Hb ltac:(rewrite HK; reflexivity)
                        Hcn Hact NK HBef L2 A2) as (S2 & Q2 & X2).
          assert (X2' : SEx (g_tid g) ctx S S2 (pre ++ [i])) by (eapply SEx_bound; eassumption).
          destruct r as [[i0 sti]|].
          -- mstep. rewrite <- (Acc_fun _ _ _ _ A2 HA'). exists S2. split; [exact Q2|exact X2'].
          -- cbn [opn_opt] in P2.
             destruct (IHt _ _ _ _ _ _ _ _ _ _ _ tn pre i H ltac:(rewrite F1; exact Hl1) A2 W2 Q2 Hsit0) with (L' := L')
               as (S3 & Q3 & X3).
             { eapply cnamed_grow; [exact Hcn|apply (P2 true)]. }
             { apply (sx_act _ _ _ _ _ X2). exact Hact. }
             { eapply NoKids_perm_nil; eassumption. }
             { destruct (sx_last _ _ _ _ _ X2) as [E|E].
               - rewrite E. exact HBef.
               - apply Bef_loop; assumption. }
             { exact HA'. }
             exists S3. split; [exact Q3|]. eapply SEx_trans; [exact X2'|exact X3|lia].
        * mstep. rewrite <- (Acc_fun _ _ _ _ HA1 HA'). exists S. split; [exact Q1|apply SEx_refl].
      + (* counting loop *)
        pose proof Hsit as Hsit0. cbn [sited] in Hsit. destruct Hsit as (HK & Hb).
        mstep as n g1 E1.
        pose proof (Eff_Fr _ _ _ (read_limit_eff _ _ _ _ _ _ E1)) as FR1.
        destruct (pre_quiet _ _ _ _ FR1 (limit_N _ _ _ _ _ _ E1) Hl HA HW) as (Hl1 & HA1 & HW1).
        assert (Q1 : SQ K S0 g1 L S) by (eapply SQ_same; [exact HQ|eapply limit_N; exact E1]).
        destruct FR1 as (_ & FR1 & _).
        destruct (Z.of_nat k <? n)%Z.
        * mstep as r g2 E2.
          pose proof (Eff_Fr _ _ _ (proj1 (proj2 (start_eff orc imm f)) _ _ _ _ _ _ _ E2)) as (F1 & F2 & F3).
          destruct (LFb _ _ _ _ _ _ _ _ _ E2 Hl1 HA1 HW1 Hc) as (L2 & A2 & W2 & P2).
          destruct (IHb _ _ _ _ _ _ _ _ _ _ _ tn (pre ++ [i]) E2 Hl1 HA1 HW1 Q1 Hb ltac:(rewrite HK; reflexivity)
                        Hcn Hact NK HBef L2 A2) as (S2 & Q2 & X2).
          assert (X2' : SEx (g_tid g) ctx S S2 (pre ++ [i])) by (eapply SEx_bound; eassumption).
          destruct r as [[i0 sti]|].
          -- mstep. rewrite <- (Acc_fun _ _ _ _ A2 HA'). exists S2. split; [exact Q2|exact X2'].
          -- cbn [opn_opt] in P2.
             destruct (IHt _ _ _ _ _ _ _ _ _ _ _ tn pre i H ltac:(rewrite F1; exact Hl1) A2 W2 Q2 Hsit0) with (L' := L')
               as (S3 & Q3 & X3).
             { eapply cnamed_grow; [exact Hcn|apply (P2 true)]. }
             { apply (sx_act _ _ _ _ _ X2). exact Hact. }
             { eapply NoKids_perm_nil; eassumption. }
             { destruct (sx_last _ _ _ _ _ X2) as [E|E].
               - rewrite E. exact HBef.
               - apply Bef_loop; assumption. }
             { exact HA'. }
             exists S3. split; [exact Q3|]. eapply SEx_trans; [exact X2'|exact X3|lia].
        * mstep. rewrite <- (Acc_fun _ _ _ _ HA1 HA'). exists S. split; [exact Q1|apply SEx_refl].
  Qed.
End Start.

(* ===================================================================== *)
(* 8. the deliver family                                                   *)
(* ===================================================================== *)
Section Deliver.
  Variable K : name -> list nat -> skind.
  Variable orc : oracle.
  Variable imm : nat -> bool.

  (* the statement at [q] of instance [ctx] has just completed *)
  Definition done_post (tn : name) (ctx : nat) (S' : seqst) (q : list nat) : Prop :=
    In ctx (sq_act S') /\
    exists t, lastc ctx S' = Some t /\
              (ext q t \/ exists P a b, q = P ++ [a] /\ t = P ++ [b] /\ K tn P = Kpar).

  Lemma cnamed_F : forall ctx tn L1 (A F : bool -> list open_inst),
      cnamed ctx tn (F true) -> (forall tk, Permutation (sel tk L1) (A tk ++ F tk)) -> cnamed ctx tn (lf_tasks L1).
  Proof. intros ctx tn L1 A F H HP. eapply cnamed_grow; [exact H|apply (HP true)]. Qed.

  Lemma NoKids_F : forall ctx L1 (F : bool -> list open_inst),
      NoKidsF ctx F -> (forall tk, Permutation (sel tk L1) ([] ++ F tk)) -> NoKids ctx L1.
  Proof. intros ctx L1 F H HP tk o Hi. apply (H tk o). eapply Permutation_in; [apply HP|exact Hi]. Qed.

  (* the position started last in an instance, read off a statement of it that is in progress *)
  Lemma JJ_kid : forall S tk o ctx tn q,
      JJ K S -> In o (ssel tk S) -> oi_ctx o = Some ctx -> oi_site o = mksite tn q ->
      exists t, lastc ctx S = Some t /\
                (ext q t \/ exists P a b, q = P ++ [a] /\ t = P ++ [b] /\ K tn P = Kpar).
  Proof.
    intros S tk o ctx tn q HJ Hi Hc Hs. destruct (HJ tk o ctx Hi Hc) as (t & Ht & Hr).
    exists t. split; [exact Ht|]. unfold opath in Hr. rewrite Hs in Hr. cbn [mksite st_path st_task] in Hr.
    destruct Hr as [<-|(ntk & Hr)]; [left; apply ext_refl|].
    unfold sibf in Hr. destruct (sibK_inv _ _ _ _ _ Hr) as (_ & _ & P & a & b & -> & -> & [[_ ->]|[HK _]]).
    - left. apply ext_refl.
    - right. exists P, a, b. repeat split; assumption.
  Qed.

  Lemma deliver_seq : forall f,
      (forall ctx ie s st id g r g' L0 S0 L S F tn pre i,
          deliver orc imm f ctx ie s st id g = Ok (r, g') ->
          lst_all (g_ls g) -> Acc L0 g L -> W L (g_tid g) (g_sid g) ->
          (forall tk, Permutation (sel tk L) (opn tk ctx s st ++ F tk)) ->
          sep F (map oi_id (opn true ctx s st)) ->
          SQ K S0 g L S -> sited K tn (pre ++ [i]) s -> cnamed ctx tn (F true) ->
          (is_call s = true \/ NoKidsF ctx F) ->
          match r with
          | None => True
          | Some st' =>
            forall L', Acc L0 g' L' ->
            exists S', SQ K S0 g' L' S' /\ incl (sq_act S) (sq_act S') /\
                       (is_done st' = true -> done_post tn ctx S' (pre ++ [i]))
          end) /\
      (forall ctx ie ss i sti id g r g' L0 S0 L S F tn pre,
          deliver_block orc imm f ctx ie ss i sti id g = Ok (r, g') ->
          lst_all (g_ls g) -> Acc L0 g L -> W L (g_tid g) (g_sid g) ->
          (forall tk, Permutation (sel tk L) (opn_opt tk ctx ss (Some (i, sti)) ++ F tk)) ->
          sep F (map oi_id (opn_opt true ctx ss (Some (i, sti)))) ->
          SQ K S0 g L S -> sblock K tn pre ss -> blockish (K tn pre) = true -> cnamed ctx tn (F true) ->
          NoKidsF ctx F ->
          match r with
          | None => True
          | Some r' =>
            forall L', Acc L0 g' L' ->
            exists S', SQ K S0 g' L' S' /\ incl (sq_act S) (sq_act S') /\
                       (r' = None -> In ctx (sq_act S') /\ oext pre (lastc ctx S'))
          end) /\
      (forall ctx l sts id g r g' L0 S0 L S F tn (mode : bool) P j,
          deliver_list orc imm f ctx l sts id g = Ok (r, g') ->
          lst_all (g_ls g) -> Acc L0 g L -> W L (g_tid g) (g_sid g) ->
          (forall tk, Permutation (sel tk L) (opn_list tk ctx (map snd l) sts ++ F tk)) ->
          sep F (map oi_id (opn_list true ctx (map snd l) sts)) ->
          SQ K S0 g L S -> K tn P = (if mode then Kparloop else Kpar) -> slist K mode tn P j l ->
          cnamed ctx tn (F true) ->
          match r with
          | None => True
          | Some sts' =>
            forall L', Acc L0 g' L' ->
            exists S', SQ K S0 g' L' S' /\ incl (sq_act S) (sq_act S') /\
                       (all_done sts' = true -> In ctx (sq_act S') /\ oext P (lastc ctx S'))
          end).
  Proof.
    induction f as [|f IH]; [split; [|split]; intros; discriminate|].
    destruct IH as (IHd & IHb & IHl).
    destruct (deliver_life orc imm f) as (DLd & DLb & DLl).
    destruct (start_seq K orc imm f) as (_ & SSb & _ & SSt).
    split; [|split].
    - (* deliver *)
      intros ctx ie s st id g r g' L0 S0 L S F tn pre i H Hl HA HW HP Hsep HQ Hsit Hcn HKF.
      pose proof (cnamed_copen _ _ _ Hcn) as HF.
      cbn [deliver] in H.
      destruct s as [n at_ ins|t at_ ins body|bs|e p fl|e b|v lim b|v lim c];
        destruct st as [|id'|cid j sti|sts|bb j sti|k j sti|sts];
        try (mstep; exact I).
      + (* service *)
        destruct (Nat.eqb id id') eqn:Eq; [|mstep; exact I].
        apply Nat.eqb_eq in Eq. subst id'. cbn [sited] in Hsit. subst at_.
        mstep as u g1 E1. destruct (emit_frame _ _ _ _ _ E1) as (C1 & C2 & C3).
        pose proof (emit_N _ _ _ _ _ E1 Hl) as C4. mstep.
        destruct (life_SF L _ _ n (mksite tn (pre ++ [i])) id (Some ctx) (subst_params ie ins) F HW HP) as (L1 & S1 & W1 & P1).
        intros L' HA'.
        assert (HA1 : Acc L0 g1 L1).
        { eapply Acc_app; [exact HA|exact C4|]. cbn [life_run]. rewrite S1. reflexivity. }
        rewrite <- (Acc_fun _ _ _ _ HA1 HA').
        destruct (SQ_finish K S0 g g1 L S false _ L1 HQ C4 eq_refl S1) as (S1' & Q1 & E5 & E6).
        cbn [mk n_ctx] in E6.
        exists S1'. split; [exact Q1|]. split.
        * rewrite E6. intros x Hx. right. exact Hx.
        * intros _. split; [rewrite E6; left; reflexivity|].
          unfold lastc. rewrite E5. fold (lastc ctx S).
          destruct HQ as (_ & HO & HJ).
          apply (JJ_kid S false (inst id (Some ctx) n (mksite tn (pre ++ [i]))) ctx tn (pre ++ [i]) HJ); try reflexivity.
          rewrite (opens_eq_sel S L false HO). eapply Permutation_in; [apply Permutation_sym; apply (HP false)|].
          left. reflexivity.
      + (* call *)
        cbn [sited] in Hsit. destruct Hsit as (-> & HBt & Hbody).
        mstep as r1 g1 E1.
        pose proof (dres_ls _ _ _ _ _ _ (proj1 (proj2 (deliver_eff orc imm f)) _ _ _ _ _ _ _ _ _ E1)) as Ls1.
        set (T := inst cid (Some ctx) t (mksite tn (pre ++ [i]))) in *.
        set (F' := fun tk : bool => (if tk then [T] else []) ++ F tk).
        assert (HP0 : forall tk, Permutation (sel tk L)
                 (((if tk then [T] else []) ++ opn_opt tk cid body (Some (j, sti))) ++ F tk)) by exact HP.
        assert (Hsep0 : sep F (cid :: map oi_id (opn_opt true cid body (Some (j, sti))))) by exact Hsep.
        assert (HP' : forall tk, Permutation (sel tk L) (opn_opt tk cid body (Some (j, sti)) ++ F' tk)).
        { unfold F'. clear - HP0. perm. }
        assert (HF' : copen cid (F' true)).
        { exists T. split; [left; reflexivity|reflexivity]. }
        assert (Hcn' : cnamed cid t (F' true)).
        { exists T. split; [left; reflexivity|split; reflexivity]. }
        assert (Hne : cid <> ctx).
        { intro Heq. destruct HF as (o' & Ho' & Hid').
          eapply (nd_disj _ _ _ ctx (w_nd _ _ _ HW) (HP0 true)).
          - rewrite map_app. apply in_or_app. left. cbn [map app]. left. cbn. exact Heq.
          - rewrite <- Hid'. apply in_map. exact Ho'. }
        assert (Hsep' : sep F' (map oi_id (opn_opt true cid body (Some (j, sti))))).
        { apply (sep_extend F (fun tk : bool => if tk then [T] else []) _ ctx).
          - eapply sep_sub; [exact Hsep0|]. intros x Hx. right. exact Hx.
          - intros tk o Hi. destruct tk; [|contradiction]. destruct Hi as [<-|[]]. left. reflexivity.
          - intro Hi. destruct HF as (o' & Ho' & Hid').
            eapply (nd_disj _ _ _ ctx (w_nd _ _ _ HW) (HP0 true)).
            + rewrite map_app. apply in_or_app. right. exact Hi.
            + rewrite <- Hid'. apply in_map. exact Ho'.
          - intros t0 Ht0 Hi. destruct Ht0 as [<-|[]].
            assert (Q : Permutation (lf_tasks L) ([T] ++ (opn_opt true cid body (Some (j, sti)) ++ F true))).
            { specialize (HP0 true). cbn [sel] in HP0. clear - HP0. perm. }
            eapply (nd_disj _ _ _ cid (w_nd _ _ _ HW) Q).
            + left. reflexivity.
            + rewrite map_app. apply in_or_app. left. exact Hi. }
        assert (NK' : NoKidsF cid F').
        { intros tk o Hi Hcx. unfold F' in Hi. apply in_app_iff in Hi. destruct Hi as [Hi|Hi].
          - destruct tk; [|contradiction]. destruct Hi as [<-|[]]. cbn in Hcx. inv Hcx. apply Hne. reflexivity.
          - apply (Hsep0 tk o cid Hi); [left; reflexivity|exact Hcx]. }
        pose proof (DLb _ _ _ _ _ _ _ _ _ _ _ _ E1 Hl HA HW HP' HF' Hsep') as R1.
        pose proof (IHb _ _ _ _ _ _ _ _ _ _ _ _ _ _ t [] E1 Hl HA HW HP' Hsep' HQ Hbody HBt Hcn' NK') as R1'.
        destruct r1 as [[[j' st']|]|]; cbn [dpost] in R1.
        * mstep. intros L' HA'. destruct (R1' L' HA') as (S1 & Q1 & I1 & _).
          exists S1. split; [exact Q1|]. split; [exact I1|]. intro X. discriminate X.
        * destruct R1 as (L1 & A1 & W1 & P1). destruct (R1' L1 A1) as (S1 & Q1 & I1 & _).
          mstep as u g2 E2. destruct (emit_frame _ _ _ _ _ E2) as (C1 & C2 & C3).
          pose proof (emit_N _ _ _ _ _ E2 ltac:(rewrite Ls1; exact Hl)) as C4. mstep.
          destruct (life_TF L1 _ _ t (mksite tn (pre ++ [i])) cid (Some ctx) (subst_params ie ins) F W1) as (L2 & S2 & W2 & P2).
          { fold T. unfold F' in P1. cbn [opn_opt] in P1. clear - P1. perm. }
          { intros tk o Hi. apply (Hsep0 tk o cid Hi). left. reflexivity. }
          intros L' HA'.
          assert (HA2 : Acc L0 g2 L2).
          { eapply Acc_app; [exact A1|exact C4|]. cbn [life_run]. rewrite S2. reflexivity. }
          rewrite <- (Acc_fun _ _ _ _ HA2 HA').
          destruct (SQ_finish K S0 g1 g2 L1 S1 true _ L2 Q1 C4 eq_refl S2) as (S2' & Q2 & E5 & E6).
          cbn [mk n_ctx] in E6.
          exists S2'. split; [exact Q2|]. split.
          -- rewrite E6. intros x Hx. right. apply I1. exact Hx.
          -- intros _. split; [rewrite E6; left; reflexivity|].
             unfold lastc. rewrite E5. fold (lastc ctx S1).
             destruct Q1 as (_ & HO1 & HJ1).
             apply (JJ_kid S1 true T ctx tn (pre ++ [i]) HJ1); try reflexivity.
             rewrite (opens_eq_sel S1 L1 true HO1). eapply Permutation_in; [apply Permutation_sym; apply (P1 true)|].
             unfold F'. cbn [opn_opt app]. left. reflexivity.
        * mstep. exact I.
      + (* parallel *)
        cbn [sited] in Hsit. destruct Hsit as (HK & Hbs).
        mstep as r1 g1 E1.
        assert (HP' : forall tk, Permutation (sel tk L)
                   (opn_list tk ctx (map snd (map (fun b => (ie, b)) bs)) sts ++ F tk)).
        { intro tk. rewrite map_snd_pair, <- opn_par. apply HP. }
        assert (Hsep' : sep F (map oi_id (opn_list true ctx (map snd (map (fun b => (ie, b)) bs)) sts))).
        { rewrite map_snd_pair, <- opn_par. exact Hsep. }
        pose proof (IHl _ _ _ _ _ _ _ _ _ _ _ _ tn false (pre ++ [i]) 0 E1 Hl HA HW HP' Hsep' HQ HK
                        (slist_par _ _ _ _ _ _ Hbs) Hcn) as R1'.
        destruct r1 as [sts'|]; [|mstep; exact I].
        destruct (all_done sts') eqn:D; mstep; intros L' HA'; destruct (R1' L' HA') as (S1 & Q1 & I1 & D1);
          exists S1; (split; [exact Q1|]); (split; [exact I1|]).
        * intros _. destruct (D1 eq_refl) as (D2 & t' & D3 & D4). split; [exact D2|]. exists t'. split; [exact D3|].
          left. exact D4.
        * intro X. discriminate X.
      + (* condition *)
        cbn [sited] in Hsit. destruct Hsit as (HB0 & HB1 & Hp & Hf).
        assert (NKF : NoKidsF ctx F) by (destruct HKF as [X|X]; [discriminate X|exact X]).
        mstep as r1 g1 E1.
        pose proof (IHb _ _ _ _ _ _ _ _ _ _ _ _ _ _ tn ((pre ++ [i]) ++ [if bb then 0 else 1]) E1 Hl HA HW HP Hsep HQ) as R1'.
        assert (R1'' : match r1 with
                       | None => True
                       | Some r' => forall L', Acc L0 g1 L' ->
                          exists S', SQ K S0 g1 L' S' /\ incl (sq_act S) (sq_act S') /\
                                     (r' = None -> In ctx (sq_act S') /\ oext ((pre ++ [i]) ++ [if bb then 0 else 1]) (lastc ctx S'))
                       end).
        { apply R1'; try assumption; destruct bb; assumption. }
        clear R1'.
        destruct r1 as [[[j' st']|]|]; mstep; try exact I; intros L' HA'; destruct (R1'' L' HA') as (S1 & Q1 & I1 & D1);
          exists S1; (split; [exact Q1|]); (split; [exact I1|]).
        * intro X. discriminate X.
        * intros _. destruct (D1 eq_refl) as (D2 & D3). split; [exact D2|].
          apply oext_app in D3. destruct D3 as (t' & D3 & D4). exists t'. split; [exact D3|left; exact D4].
      + (* while *)
        pose proof Hsit as Hsit0. cbn [sited] in Hsit. destruct Hsit as (HK & Hb).
        assert (NKF : NoKidsF ctx F) by (destruct HKF as [X|X]; [discriminate X|exact X]).
        mstep as r1 g1 E1.
        pose proof (dres_ls _ _ _ _ _ _ (proj1 (proj2 (deliver_eff orc imm f)) _ _ _ _ _ _ _ _ _ E1)) as Ls1.
        pose proof (DLb _ _ _ _ _ _ _ _ _ _ _ _ E1 Hl HA HW HP HF Hsep) as R1.
        pose proof (IHb _ _ _ _ _ _ _ _ _ _ _ _ _ _ tn (pre ++ [i]) E1 Hl HA HW HP Hsep HQ Hb
                        ltac:(rewrite HK; reflexivity) Hcn NKF) as R1'.
        destruct r1 as [[[j' st']|]|]; cbn [dpost] in R1.
        * mstep. intros L' HA'. destruct (R1' L' HA') as (S1 & Q1 & I1 & _).
          exists S1. split; [exact Q1|]. split; [exact I1|]. intro X. discriminate X.
        * destruct R1 as (L1 & A1 & W1 & P1). destruct (R1' L1 A1) as (S1 & Q1 & I1 & D1).
          destruct (D1 eq_refl) as (D2 & D3).
          mstep as st' g2 E2. mstep. cbn [opn_opt] in P1.
          intros L' HA'.
          destruct (SSt _ _ _ _ _ _ _ _ _ _ _ tn pre i E2 ltac:(rewrite Ls1; exact Hl) A1 W1 Q1 Hsit0) with (L' := L')
            as (S2 & Q2 & X2).
          { exact (cnamed_F ctx tn L1 (fun _ => []) F Hcn P1). }
          { exact D2. }
          { exact (NoKids_F ctx L1 F NKF P1). }
          { apply Bef_loop; assumption. }
          { exact HA'. }
          exists S2. split; [exact Q2|]. split.
          -- eapply incl_tran; [exact I1|apply (sx_act _ _ _ _ _ X2)].
          -- intros _. split; [apply (sx_act _ _ _ _ _ X2); exact D2|].
             destruct (sx_last _ _ _ _ _ X2) as [E|E].
             ++ rewrite E. destruct D3 as (t' & D5 & D6). exists t'. split; [exact D5|left; exact D6].
             ++ destruct E as (t' & D5 & D6). exists t'. split; [exact D5|left; exact D6].
        * mstep. exact I.
      + (* counting loop *)
        pose proof Hsit as Hsit0. cbn [sited] in Hsit. destruct Hsit as (HK & Hb).
        assert (NKF : NoKidsF ctx F) by (destruct HKF as [X|X]; [discriminate X|exact X]).
        mstep as r1 g1 E1.
        pose proof (dres_ls _ _ _ _ _ _ (proj1 (proj2 (deliver_eff orc imm f)) _ _ _ _ _ _ _ _ _ E1)) as Ls1.
        pose proof (DLb _ _ _ _ _ _ _ _ _ _ _ _ E1 Hl HA HW HP HF Hsep) as R1.
        pose proof (IHb _ _ _ _ _ _ _ _ _ _ _ _ _ _ tn (pre ++ [i]) E1 Hl HA HW HP Hsep HQ Hb
                        ltac:(rewrite HK; reflexivity) Hcn NKF) as R1'.
        destruct r1 as [[[j' st']|]|]; cbn [dpost] in R1.
        * mstep. intros L' HA'. destruct (R1' L' HA') as (S1 & Q1 & I1 & _).
          exists S1. split; [exact Q1|]. split; [exact I1|]. intro X. discriminate X.
        * destruct R1 as (L1 & A1 & W1 & P1). destruct (R1' L1 A1) as (S1 & Q1 & I1 & D1).
          destruct (D1 eq_refl) as (D2 & D3).
          mstep as st' g2 E2. mstep. cbn [opn_opt] in P1.
          intros L' HA'.
          destruct (SSt _ _ _ _ _ _ _ _ _ _ _ tn pre i E2 ltac:(rewrite Ls1; exact Hl) A1 W1 Q1 Hsit0) with (L' := L')
            as (S2 & Q2 & X2).
          { exact (cnamed_F ctx tn L1 (fun _ => []) F Hcn P1). }
          { exact D2. }
          { exact (NoKids_F ctx L1 F NKF P1). }
          { apply Bef_loop; assumption. }
          { exact HA'. }
          exists S2. split; [exact Q2|]. split.
          -- eapply incl_tran; [exact I1|apply (sx_act _ _ _ _ _ X2)].
          -- intros _. split; [apply (sx_act _ _ _ _ _ X2); exact D2|].
             destruct (sx_last _ _ _ _ _ X2) as [E|E].
             ++ rewrite E. destruct D3 as (t' & D5 & D6). exists t'. split; [exact D5|left; exact D6].
             ++ destruct E as (t' & D5 & D6). exists t'. split; [exact D5|left; exact D6].
        * mstep. exact I.
      + (* parallel loop *)
        cbn [sited] in Hsit. destruct Hsit as (HK & Hcc & Hcs).
        mstep as r1 g1 E1.
        assert (HP' : forall tk, Permutation (sel tk L)
                   (opn_list tk ctx (map snd (insts ie v c (List.length sts))) sts ++ F tk)).
        { intro tk. rewrite (opn_list_insts _ _ _ _ _ _ _ eq_refl), <- (opn_parloop tk ctx v lim). apply HP. }
        assert (Hsep' : sep F (map oi_id (opn_list true ctx (map snd (insts ie v c (List.length sts))) sts))).
        { rewrite (opn_list_insts _ _ _ _ _ _ _ eq_refl), <- (opn_parloop true ctx v lim). exact Hsep. }
        pose proof (IHl _ _ _ _ _ _ _ _ _ _ _ _ tn true (pre ++ [i]) 0 E1 Hl HA HW HP' Hsep' HQ HK
                        (slist_insts _ _ _ _ _ _ _ _ Hcc Hcs) Hcn) as R1'.
        destruct r1 as [sts'|]; [|mstep; exact I].
        destruct (all_done sts') eqn:D; mstep; intros L' HA'; destruct (R1' L' HA') as (S1 & Q1 & I1 & D1);
          exists S1; (split; [exact Q1|]); (split; [exact I1|]).
        * intros _. destruct (D1 eq_refl) as (D2 & t' & D3 & D4). split; [exact D2|]. exists t'. split; [exact D3|].
          left. exact D4.
        * intro X. discriminate X.
    - (* deliver_block *)
      intros ctx ie ss i sti id g r g' L0 S0 L S F tn pre H Hl HA HW HP Hsep HQ Hsb HB Hcn NKF.
      pose proof (cnamed_copen _ _ _ Hcn) as HF.
      cbn [deliver_block] in H. cbn [opn_opt] in HP, Hsep.
      destruct (nth_error ss i) as [s1|] eqn:Hn; [|mstep; exact I].
      mstep as r1 g1 E1.
      pose proof (dres_ls _ _ _ _ _ _ (proj1 (deliver_eff orc imm f) _ _ _ _ _ _ _ _ E1)) as Ls1.
      pose proof (DLd _ _ _ _ _ _ _ _ _ _ _ E1 Hl HA HW HP HF Hsep) as R1.
      pose proof (IHd _ _ _ _ _ _ _ _ _ _ _ _ _ tn pre i E1 Hl HA HW HP Hsep HQ (sblock_nth _ _ _ _ _ _ Hsb Hn) Hcn
                      (or_intror NKF)) as R1'.
      destruct r1 as [st'|]; cbn [dpost] in R1; [|mstep; exact I].
      destruct R1 as (L1 & A1 & W1 & P1).
      destruct (is_done st') eqn:D.
      + destruct (R1' L1 A1) as (S1 & Q1 & I1 & D1). destruct (D1 eq_refl) as (D2 & t' & D3 & D4).
        mstep as r' g2 E2. mstep. intros L' HA'.
        assert (P1' : forall tk, Permutation (sel tk L1) ([] ++ F tk)).
        { intro tk. rewrite <- (opn_done tk ctx s1 st' D). apply P1. }
        assert (D5 : ext (pre ++ [i]) t').
        { destruct D4 as [D4|(P & a & b & D4 & _ & D6)]; [exact D4|]. exfalso.
          apply app_inj_tail in D4. destruct D4 as [<- _]. rewrite D6 in HB. discriminate HB. }
        destruct (SSb _ _ _ _ _ _ _ _ _ _ _ tn pre E2 ltac:(rewrite Ls1; exact Hl) A1 W1 Q1 Hsb HB) with (L' := L')
          as (S2 & Q2 & X2).
        { exact (cnamed_F ctx tn L1 (fun _ => []) F Hcn P1'). }
        { exact D2. }
        { exact (NoKids_F ctx L1 F NKF P1'). }
        { apply Bef_after; [exact HB|]. exists t'. split; assumption. }
        { exact HA'. }
        exists S2. split; [exact Q2|]. split.
        * eapply incl_tran; [exact I1|apply (sx_act _ _ _ _ _ X2)].
        * intros _. split; [apply (sx_act _ _ _ _ _ X2); exact D2|].
          destruct (sx_last _ _ _ _ _ X2) as [E|E]; [|exact E].
          rewrite E. exists t'. split; [exact D3|]. eapply ext_app. exact D5.
      + mstep. intros L' HA'. destruct (R1' L' HA') as (S1 & Q1 & I1 & _).
        exists S1. split; [exact Q1|]. split; [exact I1|]. intro X. discriminate X.
    - (* deliver_list *)
      intros ctx l sts id g r g' L0 S0 L S F tn mode P j H Hl HA HW HP Hsep HQ HK Hsl Hcn.
      pose proof (cnamed_copen _ _ _ Hcn) as HF.
      cbn [deliver_list] in H.
      destruct l as [|[ie b] br]; [mstep; exact I|].
      destruct sts as [|st sr]; [mstep; exact I|].
      destruct Hsl as (Hcb & Hsb & Hsr).
      cbn [map snd opn_list] in HP, Hsep. rewrite map_app in Hsep.
      set (A := fun tk : bool => opn tk ctx b st) in *.
      set (B := fun tk : bool => opn_list tk ctx (map snd br) sr) in *.
      assert (HPt : Permutation (lf_tasks L) (A true ++ (B true ++ F true))).
      { specialize (HP true). cbn [sel] in HP. unfold A, B. clear - HP. perm. }
      assert (HPt' : Permutation (lf_tasks L) (B true ++ (A true ++ F true))).
      { specialize (HP true). cbn [sel] in HP. unfold A, B. clear - HP. perm. }
      assert (NoA : ~ In ctx (map oi_id (A true))).
      { intro Hi. destruct HF as (o' & Ho' & Hid').
        eapply (nd_disj _ _ _ ctx (w_nd _ _ _ HW) HPt); [exact Hi|].
        rewrite map_app. apply in_or_app. right. rewrite <- Hid'. apply in_map. exact Ho'. }
      assert (NoB : ~ In ctx (map oi_id (B true))).
      { intro Hi. destruct HF as (o' & Ho' & Hid').
        eapply (nd_disj _ _ _ ctx (w_nd _ _ _ HW) HPt'); [exact Hi|].
        rewrite map_app. apply in_or_app. right. rewrite <- Hid'. apply in_map. exact Ho'. }
      mstep as r1 g1 E1.
      pose proof (proj1 (deliver_eff orc imm f) _ _ _ _ _ _ _ _ E1) as DE1.
      assert (HP1 : forall tk, Permutation (sel tk L) (A tk ++ (fun tk => B tk ++ F tk) tk)).
      { unfold A, B. clear - HP. perm. }
      assert (Hcn1 : cnamed ctx tn ((fun tk => B tk ++ F tk) true)).
      { destruct Hcn as (o' & Ho' & Hid'). exists o'. split; [apply in_or_app; right; exact Ho'|exact Hid']. }
      assert (Hsep1 : sep (fun tk => B tk ++ F tk) (map oi_id (A true))).
      { apply (sep_extend F B _ ctx).
        - eapply sep_sub; [exact Hsep|]. intros x Hx. apply in_or_app. left. exact Hx.
        - apply opn_list_ctx.
        - exact NoA.
        - intros t0 Ht0 Hi. eapply (nd_disj _ _ _ t0 (w_nd _ _ _ HW) HPt); [exact Hi|].
          rewrite map_app. apply in_or_app. left. exact Ht0. }
      pose proof (IHd _ _ _ _ _ _ _ _ _ _ _ _ _ tn P (if mode then 0 else j) E1 Hl HA HW HP1 Hsep1 HQ Hsb Hcn1
                      (or_introl Hcb)) as R1'.
      destruct r1 as [st'|]; cbn [dres] in DE1.
      + mstep. intros L' HA'. destruct (R1' L' HA') as (S1 & Q1 & I1 & D1).
        exists S1. split; [exact Q1|]. split; [exact I1|].
        intro AD. cbn [all_done] in AD. apply andb_true_iff in AD. destruct AD as [AD _].
        destruct (D1 AD) as (D2 & t' & D3 & D4). split; [exact D2|]. exists t'. split; [exact D3|].
        destruct D4 as [D4|(P' & a & b0 & D4 & D5 & _)].
        * eapply ext_app. exact D4.
        * apply app_inj_tail in D4. destruct D4 as [<- _]. subst t'. exists [b0]. reflexivity.
      + subst g1. mstep as r2 g2 E2.
        assert (HP2 : forall tk, Permutation (sel tk L) (B tk ++ (fun tk => A tk ++ F tk) tk)).
        { unfold A, B. clear - HP. perm. }
        assert (Hcn2 : cnamed ctx tn ((fun tk => A tk ++ F tk) true)).
        { destruct Hcn as (o' & Ho' & Hid'). exists o'. split; [apply in_or_app; right; exact Ho'|exact Hid']. }
        assert (Hsep2 : sep (fun tk => A tk ++ F tk) (map oi_id (B true))).
        { apply (sep_extend F A _ ctx).
          - eapply sep_sub; [exact Hsep|]. intros x Hx. apply in_or_app. right. exact Hx.
          - apply opn_ctx.
          - exact NoB.
          - intros t0 Ht0 Hi. eapply (nd_disj _ _ _ t0 (w_nd _ _ _ HW) HPt'); [exact Hi|].
            rewrite map_app. apply in_or_app. left. exact Ht0. }
        pose proof (IHl _ _ _ _ _ _ _ _ _ _ _ _ tn mode P (Datatypes.S j) E2 Hl HA HW HP2 Hsep2 HQ HK Hsr Hcn2) as R2'.
        destruct r2 as [sr'|]; mstep; [|exact I].
        intros L' HA'. destruct (R2' L' HA') as (S2 & Q2 & I2 & D1).
        exists S2. split; [exact Q2|]. split; [exact I2|].
        intro AD. cbn [all_done] in AD. apply andb_true_iff in AD. destruct AD as [_ AD]. exact (D1 AD).
  Qed.
End Deliver.

(* ===================================================================== *)
(* 9. no deferral: every open task instance has a statement in progress    *)
(* ===================================================================== *)
Definition has_kid_in (ctx : nat) (B : bool -> list open_inst) : Prop :=
  exists tk o, In o (B tk) /\ oi_ctx o = Some ctx.

Lemma kid_exists : forall st s ctx,
    wf s st -> good st -> is_done st = false -> has_kid_in ctx (fun tk => opn tk ctx s st).
Proof.
  induction st using rst_ind'; intros s0 ctx Hwf Hg Hd.
  - discriminate.
  - inv Hwf. exists false. eexists. split; [left; reflexivity|reflexivity].
  - inv Hwf. exists true. eexists. cbn [opn]. split; [left; reflexivity|reflexivity].
  - inversion Hwf as [ | | | bs sts0 HF2 | | | | ]; subst. apply good_par in Hg. destruct Hg as [Hg Hn]. clear Hd.
    assert (Q : has_kid_in ctx (fun tk => opn_list tk ctx bs sts)).
    { clear Hwf. revert H Hg Hn. induction HF2 as [|b st bs sts Hb Hbs IHl]; intros HF Hg Hn; [discriminate|].
      inversion HF as [|? ? Hst Hsts]; subst. destruct Hg as [Gs Gr]. cbn [all_done] in Hn.
      destruct (is_done st) eqn:D.
      - cbn [andb] in Hn. destruct (IHl Hsts Gr Hn) as (tk & o & Hi & Hc). exists tk, o. split; [|exact Hc].
        cbn [opn_list]. apply in_or_app. right. exact Hi.
      - destruct (Hst b ctx Hb Gs eq_refl) as (tk & o & Hi & Hc). exists tk, o. split; [|exact Hc].
        cbn [opn_list]. apply in_or_app. left. exact Hi. }
    destruct Q as (tk & o & Hi & Hc). exists tk, o. split; [rewrite opn_par; exact Hi|exact Hc].
  - inversion Hwf as [ | | | | e p fl b0 i0 s1 st1 Hn1 Hw | | | ]; subst.
    destruct Hg as [Hg Hn]. cbn [opn]. rewrite Hn1. apply IHst; assumption.
  - destruct Hg as [Hg Hn].
    inversion Hwf as [ | | | | | e body k0 i0 s1 st1 Hn1 Hw | v lim body k0 i0 s1 st1 Hn1 Hw | ]; subst;
      cbn [opn]; rewrite Hn1; apply IHst; assumption.
  - inversion Hwf as [ | | | | | | | v lim c sts0 HF1 ]; subst. apply good_parloop in Hg. destruct Hg as [Hg Hn]. clear Hd.
    assert (Q : has_kid_in ctx (fun tk => flat_map (opn tk ctx c) sts)).
    { clear Hwf. revert H Hg Hn. induction HF1 as [|st sts Hb Hbs IHl]; intros HF Hg Hn; [discriminate|].
      inversion HF as [|? ? Hst Hsts]; subst. destruct Hg as [Gs Gr]. cbn [all_done] in Hn.
      destruct (is_done st) eqn:D.
      - cbn [andb] in Hn. destruct (IHl Hsts Gr Hn) as (tk & o & Hi & Hc). exists tk, o. split; [|exact Hc].
        cbn [flat_map]. apply in_or_app. right. exact Hi.
      - destruct (Hst c ctx Hb Gs eq_refl) as (tk & o & Hi & Hc). exists tk, o. split; [|exact Hc].
        cbn [flat_map]. apply in_or_app. left. exact Hi. }
    destruct Q as (tk & o & Hi & Hc). exists tk, o. split; [rewrite opn_parloop; exact Hi|exact Hc].
Qed.

Lemma task_has_kid : forall st s ctx o,
    wf s st -> good st -> In o (opn true ctx s st) -> has_kid_in (oi_id o) (fun tk => opn tk ctx s st).
Proof.
  induction st using rst_ind'; intros s0 ctx o Hwf Hg Hi.
  - destruct s0; contradiction.
  - inv Hwf. contradiction.
  - inversion Hwf as [ | | t a ins body cid i0 s1 st1 Hn1 Hw | | | | | ]; subst.
    destruct Hg as [Hg Hn]. cbn [opn] in Hi |- *. rewrite Hn1 in *. destruct Hi as [<-|Hi].
    + destruct (kid_exists st s1 id Hw Hg Hn) as (tk & o' & Hi' & Hc'). exists tk, o'. split; [|exact Hc'].
      apply in_or_app. right. exact Hi'.
    + destruct (IHst s1 id o Hw Hg Hi) as (tk & o' & Hi' & Hc'). exists tk, o'. split; [|exact Hc'].
      apply in_or_app. right. exact Hi'.
  - inversion Hwf as [ | | | bs sts0 HF2 | | | | ]; subst. apply good_par in Hg. destruct Hg as [Hg _]. rewrite opn_par in Hi.
    assert (Q : has_kid_in (oi_id o) (fun tk => opn_list tk ctx bs sts)).
    { clear Hwf. revert H Hg Hi. induction HF2 as [|b st bs sts Hb Hbs IHl]; intros HF Hg Hi; [contradiction|].
      inversion HF as [|? ? Hst Hsts]; subst. destruct Hg as [Gs Gr]. cbn [opn_list] in Hi.
      apply in_app_iff in Hi. destruct Hi as [Hi|Hi].
      - destruct (Hst b ctx o Hb Gs Hi) as (tk & o' & Hi' & Hc'). exists tk, o'. split; [|exact Hc'].
        cbn [opn_list]. apply in_or_app. left. exact Hi'.
      - destruct (IHl Hsts Gr Hi) as (tk & o' & Hi' & Hc'). exists tk, o'. split; [|exact Hc'].
        cbn [opn_list]. apply in_or_app. right. exact Hi'. }
    destruct Q as (tk & o' & Hi' & Hc'). exists tk, o'. split; [rewrite opn_par; exact Hi'|exact Hc'].
  - inversion Hwf as [ | | | | e p fl b0 i0 s1 st1 Hn1 Hw | | | ]; subst.
    destruct Hg as [Hg Hn]. cbn [opn] in Hi |- *. rewrite Hn1 in *. apply IHst; assumption.
  - destruct Hg as [Hg Hn].
    inversion Hwf as [ | | | | | e body k0 i0 s1 st1 Hn1 Hw | v lim body k0 i0 s1 st1 Hn1 Hw | ]; subst;
      cbn [opn] in Hi |- *; rewrite Hn1 in *; apply IHst; assumption.
  - inversion Hwf as [ | | | | | | | v lim c sts0 HF1 ]; subst. apply good_parloop in Hg. destruct Hg as [Hg _]. rewrite opn_parloop in Hi.
    assert (Q : has_kid_in (oi_id o) (fun tk => flat_map (opn tk ctx c) sts)).
    { clear Hwf. revert H Hg Hi. induction HF1 as [|st sts Hb Hbs IHl]; intros HF Hg Hi; [contradiction|].
      inversion HF as [|? ? Hst Hsts]; subst. destruct Hg as [Gs Gr]. cbn [flat_map] in Hi.
      apply in_app_iff in Hi. destruct Hi as [Hi|Hi].
      - destruct (Hst c ctx o Hb Gs Hi) as (tk & o' & Hi' & Hc'). exists tk, o'. split; [|exact Hc'].
        cbn [flat_map]. apply in_or_app. left. exact Hi'.
      - destruct (IHl Hsts Gr Hi) as (tk & o' & Hi' & Hc'). exists tk, o'. split; [|exact Hc'].
        cbn [flat_map]. apply in_or_app. right. exact Hi'. }
    destruct Q as (tk & o' & Hi' & Hc'). exists tk, o'. split; [rewrite opn_parloop; exact Hi'|exact Hc'].
Qed.

Lemma has_kid_true : forall c S tk o, In o (ssel tk S) -> oi_ctx o = Some c -> has_kid c S = true.
Proof.
  intros c S tk o Hi Hc. destruct (has_kid c S) eqn:E; [reflexivity|]. exfalso.
  exact (proj1 (has_kid_false c S) E tk o Hi Hc).
Qed.

(* ===================================================================== *)
(* 10. API calls and whole scripts                                         *)
(* ===================================================================== *)
Section Api2.
  Variable K : name -> list nat -> skind.
  Variable orc : oracle.
  Variable imm : nat -> bool.
  Variable body : list xstmt.
  Hypothesis Hbody : sited_body K body.

  (* the invariants of RefC01 (states never stall) and RefProgress (the tree is well formed) *)
  Definition BInv (s : sched) : Prop :=
    (exists m, RefC01.Inv s m /\ RefC01.InvT s) /\ RefProgress.PInv body s.

  Lemma BInv_step : forall f s c b s', BInv s -> api_call orc imm f body s c = Ok (b, s') -> BInv s'.
  Proof.
    intros f s c b s' ((m & H1 & H2) & H3) H. split.
    - destruct (RefC01.api_step orc imm body f s m c b s' H1 H2 H) as (m' & _ & Q1 & Q2). exists m'. split; assumption.
    - eapply RefProgress.api_pinv; eassumption.
  Qed.

  Lemma BInv_sched0 : BInv (sched0).
  Proof.
    split; [|apply RefProgress.PInv_sched0].
    exists {| c01_started := false; c01_finished := false; c01_out := 0 |}. split.
    - unfold RefC01.Inv. cbn. split; [apply lst_all_default|]. split; [constructor|]. repeat split; reflexivity.
    - intro. reflexivity.
  Qed.

  Definition AInv (s : sched) (L : life) (S : seqst) : Prop :=
    RefC07.Inv body s L /\ opens_eq S L /\ JJ K S.

  (* between two calls every open task instance has a statement in progress *)
  Lemma settled : forall s L S, AInv s L S -> BInv s -> seq_settled S = true.
  Proof.
    intros s L S ((Hl & Hr) & HO & _) ((m & (_ & _ & H1) & _) & (_ & H3)).
    unfold seq_settled. apply forallb_forall. intros o Hi. rewrite (proj1 HO) in Hi.
    destruct (sc_root s) as [[|id|cid i st|sts|bb i st|k i st|sts]|]; try contradiction.
    - destruct Hr as [Hr _]. rewrite Hr in Hi. contradiction.
    - destruct Hr as (-> & HW & HP). destruct H1 as (_ & _ & _ & _ & Hg & Hd & _). destruct H3 as (_ & s1 & Hn & Hwf).
      cbn [opn_opt] in HP. rewrite Hn in HP.
      assert (Q : has_kid_in (oi_id o) (fun tk => opn tk 0 s1 st)).
      { destruct (sel_perm_in _ _ _ _ (HP true) Hi) as [Hi1|Hi1].
        - eapply task_has_kid; eassumption.
        - destruct Hi1 as [<-|[]]. cbn [rootT inst oi_id]. apply kid_exists; assumption. }
      destruct Q as (tk & o' & Hi' & Hc').
      apply (has_kid_true _ S tk o'); [|exact Hc']. rewrite (opens_eq_sel S L tk HO).
      eapply Permutation_in; [apply Permutation_sym; apply (HP tk)|]. apply in_or_app. left. exact Hi'.
    - destruct Hr as [-> _]. contradiction.
  Qed.

  Lemma SQ_init : forall S L g, opens_eq S L -> JJ K S -> N g = [] -> SQ K (new_call S) g L (new_call S).
  Proof. intros S L g HO HJ HN. unfold SQ, SQn. rewrite HN. split; [reflexivity|]. split; assumption. Qed.

  (* the production task is reported finished *)
  Lemma finish_root_seq : forall L0 S0 L S g u g',
      finish_root g = Ok (u, g') -> lst_all (g_ls g) -> Acc L0 g L -> W L (g_tid g) (g_sid g) ->
      (forall tk, Permutation (sel tk L) (rootF tk)) -> SQ K S0 g L S ->
      forall L', Acc L0 g' L' -> exists S', SQ K S0 g' L' S'.
  Proof.
    intros L0 S0 L S g u g' H Hl HA HW HP HQ L' HA'. unfold finish_root in H.
    mstep as u1 g1 E1. unfold set_running in H. inv H.
    pose proof (emit_N _ _ _ _ _ E1 Hl) as C4.
    destruct (life_TF L _ _ production_task root_site 0 None [] (fun _ => []) HW) as (L1 & S1 & W1 & P1).
    - intro tk. rewrite app_nil_r. apply HP.
    - intros tk o [].
    - assert (HA1 : Acc L0 (g1 <| g_running := false |>) L1).
      { eapply Acc_app; [exact HA| |].
        - change (N (g1 <| g_running := false |>)) with (N g1). exact C4.
        - cbn [life_run]. rewrite S1. reflexivity. }
      rewrite <- (Acc_fun _ _ _ _ HA1 HA').
      destruct (SQ_finish K S0 g g1 L S true _ L1 HQ C4 eq_refl S1) as (S1' & Q1 & _ & _).
      exists S1'. eapply SQ_same; [exact Q1|reflexivity].
  Qed.

  Lemma start_step_seq : forall f s S st g',
      RefC07.Inv body s life0 -> sc_root s = None -> g_tid (sc_g s) = 0 ->
      opens_eq S life0 -> JJ K S ->
      (set_running true ;;;
       id <- fresh_t ;;
       emit (mk TS production_task root_site id None []) ;;;
       r <- run_block orc imm f id [] body 0 ;;
       match r with
       | None => finish_root ;;; ret RDone
       | Some (i, st) => ret (RCall id i st)
       end) (clear_log (sc_g s)) = Ok (st, g') ->
      forall L', life_run life0 (N g') = Some L' ->
      exists S', seq_notifs (sibf K) (sokf K) (new_call S) (N g') = Some S' /\ opens_eq S' L' /\ JJ K S'.
  Proof.
    intros f s S st g' (Hl & _) Hroot Htid HO HJ H L' HA'.
    set (g0 := clear_log (sc_g s)) in *.
    mstep as u1 g1 E1. unfold set_running in E1. inv E1.
    set (g1 := g0 <| g_running := true |>) in *.
    assert (Hl1 : lst_all (g_ls g1)) by exact Hl.
    mstep as id g2 E2. mstep as u3 g3 E3.
    destruct (tstart_N _ _ _ _ _ _ _ _ _ E2 E3) as (-> & B1 & B2 & B3 & B4). specialize (B4 Hl1).
    change (g_tid g1) with (g_tid (sc_g s)) in *. rewrite Htid in *.
    change (N g1) with (@nil notif) in B4. cbn [app] in B4.
    set (nTS := mk TS production_task root_site 0 None []) in *.
    set (L1 := {| lf_tasks := [rootT]; lf_svcs := []; lf_used_t := [0]; lf_used_s := []; lf_seen_any := true |}).
    assert (A3 : Acc life0 g3 L1) by (unfold Acc; rewrite B4; reflexivity).
    assert (W3 : W L1 (g_tid g3) (g_sid g3)).
    { rewrite B2. constructor; cbn.
      - reflexivity.
      - constructor; [lia|constructor].
      - constructor.
      - intros tk o c0 Hi Hc. destruct tk; cbn in Hi; [|contradiction]. destruct Hi as [<-|[]]. discriminate.
      - constructor; [cbn; lia|constructor].
      - constructor; [intros []|constructor]. }
    assert (Hl3 : lst_all (g_ls g3)) by (rewrite B1; exact Hl1).
    destruct HO as [O1 O2]. cbn [life0 lf_tasks lf_svcs] in O1, O2.
    set (S1 := {| sq_tasks := [oi_of nTS]; sq_svcs := []; sq_last := drop_key 0 (sq_last S); sq_act := [0] |}).
    assert (T1 : seq_notif (sibf K) (sokf K) (new_call S) nTS = Some S1).
    { unfold seq_notif, seq_start. cbn [nTS mk n_kind n_ctx n_id new_call sq_tasks sq_svcs sq_last sq_act andb].
      unfold has_kid. cbn [new_call sq_tasks sq_svcs]. rewrite O1, O2. reflexivity. }
    assert (Q3 : SQ K (new_call S) g3 L1 S1).
    { unfold SQ. rewrite B4. split; [|split].
      - cbn [seq_notifs]. rewrite T1. reflexivity.
      - split; reflexivity.
      - eapply JJ_step; [|exact T1]. exact HJ. }
    assert (Hcn3 : cnamed 0 production_task (lf_tasks L1)).
    { exists rootT. split; [left; reflexivity|split; reflexivity]. }
    assert (NK3 : NoKids 0 L1).
    { intros tk o Hi Hc. destruct tk; cbn in Hi; [|contradiction]. destruct Hi as [<-|[]]. discriminate. }
    assert (Bef3 : Bef (K production_task) (lastc 0 S1) [] 0).
    { unfold lastc. cbn [S1 sq_last]. rewrite assoc_drop_same. apply Bef_none. }
    mstep as r g4 E4.
    pose proof (Eff_Fr _ _ _ (proj1 (proj2 (start_eff orc imm f)) _ _ _ _ _ _ _ E4)) as (F1 & F2 & F3).
    destruct (proj1 (proj2 (start_life orc imm f)) _ _ _ _ _ _ _ _ _ E4 Hl3 A3 W3 (cnamed_copen _ _ _ Hcn3))
      as (L4 & A4 & W4 & P4).
    destruct Hbody as (HB0 & HB1).
    destruct (proj1 (proj2 (start_seq K orc imm f)) _ _ _ _ _ _ _ _ _ _ _ production_task [] E4 Hl3 A3 W3 Q3 HB1 HB0
                    Hcn3 ltac:(left; reflexivity) NK3 Bef3 L4 A4) as (S4 & Q4 & _).
    destruct r as [[i sti]|].
    - mstep. change (Acc life0 g4 L') in HA'. rewrite <- (Acc_fun _ _ _ _ A4 HA').
      exists S4. exact Q4.
    - mstep as u5 g5 E5. mstep. change (Acc life0 g5 L') in HA'.
      destruct (finish_root_seq life0 (new_call S) L4 S4 _ _ _ E5 ltac:(rewrite F1; exact Hl3) A4 W4 P4 Q4 L' HA') as (S5 & Q5).
      exists S5. exact Q5.
  Qed.

  Lemma finish_step_seq : forall f s L S id i sti st g',
      RefC07.Inv body s L -> sc_root s = Some (RCall 0 i sti) -> opens_eq S L -> JJ K S ->
      (unawait id ;;;
       r <- deliver_block orc imm f 0 [] body i sti id ;;
       match r with
       | None => lift Unsupported
       | Some None => finish_root ;;; ret RDone
       | Some (Some (j, st')) => ret (RCall 0 j st')
       end) (clear_log (sc_g s)) = Ok (st, g') ->
      forall L', life_run L (N g') = Some L' ->
      exists S', seq_notifs (sibf K) (sokf K) (new_call S) (N g') = Some S' /\ opens_eq S' L' /\ JJ K S'.
  Proof.
    intros f s L S id i sti st g' (Hl & Hr) Hroot HO HJ H L' HA'. rewrite Hroot in Hr. destruct Hr as (_ & HW & HP).
    set (g0 := clear_log (sc_g s)) in *.
    mstep as u1 g1 E1. unfold unawait in E1.
    match type of E1 with match ?X with _ => _ end = _ => destruct X as [aw1|] end; [|discriminate].
    unfold set_awaited in E1. inv E1.
    set (g1 := g0 <| g_awaited := aw1 |>) in *.
    assert (Hl1 : lst_all (g_ls g1)) by exact Hl.
    assert (A1 : Acc L g1 L) by reflexivity.
    assert (W1 : W L (g_tid g1) (g_sid g1)) by exact HW.
    assert (Q1 : SQ K (new_call S) g1 L (new_call S)) by (apply SQ_init; [exact HO|exact HJ|reflexivity]).
    mstep as r g2 E2.
    pose proof (dres_ls _ _ _ _ _ _ (proj1 (proj2 (deliver_eff orc imm f)) _ _ _ _ _ _ _ _ _ E2)) as Ls2.
    assert (Hsep : sep rootF (map oi_id (opn_opt true 0 body (Some (i, sti))))).
    { intros tk o t Hi _. destruct tk; [|contradiction]. destruct Hi as [<-|[]]. discriminate. }
    assert (HF : copen 0 (rootF true)) by (exists rootT; split; [left; reflexivity|reflexivity]).
    assert (Hcn : cnamed 0 production_task (rootF true)).
    { exists rootT. split; [left; reflexivity|split; reflexivity]. }
    assert (NKF : NoKidsF 0 rootF).
    { intros tk o Hi Hc. destruct tk; [|contradiction]. destruct Hi as [<-|[]]. discriminate. }
    pose proof (proj1 (proj2 (deliver_life orc imm f)) _ _ _ _ _ _ _ _ _ _ _ _ E2 Hl1 A1 W1 HP HF Hsep) as R2.
    destruct Hbody as (HB0 & HB1).
    pose proof (proj1 (proj2 (deliver_seq K orc imm f)) _ _ _ _ _ _ _ _ _ _ _ _ _ _ production_task [] E2 Hl1 A1 W1 HP Hsep
                      Q1 HB1 HB0 Hcn NKF) as R2'.
    destruct r as [[[j st']|]|]; cbn [dpost] in R2; [| |discriminate].
    - mstep. change (Acc L g2 L') in HA'. destruct (R2' L' HA') as (S2 & Q2 & _). exists S2. exact Q2.
    - destruct R2 as (L2 & A2 & W2 & P2). destruct (R2' L2 A2) as (S2 & Q2 & _).
      mstep as u5 g5 E5. mstep. change (Acc L g5 L') in HA'.
      destruct (finish_root_seq L (new_call S) L2 S2 _ _ _ E5 ltac:(rewrite Ls2; exact Hl1) A2 W2 P2 Q2 L' HA') as (S5 & Q5).
      exists S5. exact Q5.
  Qed.

  Lemma quiet_seq : forall s L S ls obs,
      AInv s L S -> lst_all ls ->
      let s' := {| sc_g := clear_log (sc_g s) <| g_ls := ls |> <| g_obs := obs |>; sc_root := sc_root s |} in
      seq_notifs (sibf K) (sokf K) (new_call S) (N (sc_g s')) = Some (new_call S) /\ AInv s' L (new_call S).
  Proof.
    intros s L S ls obs (HI & HO & HJ) Hls s'. split; [reflexivity|]. split; [|split; assumption].
    exact (proj2 (RefC07.quiet_step body s L true AJunk ls obs HI Hls)).
  Qed.

  Lemma api_seq : forall f s L S c b s',
      AInv s L S -> api_call orc imm f body s c = Ok (b, s') ->
      exists L' S', seq_notifs (sibf K) (sokf K) (new_call S) (N (sc_g s')) = Some S' /\ AInv s' L' S'.
  Proof.
    intros f s L S c b s' HA H. pose proof HA as (HI & HO & HJ).
    destruct (RefC07.api_step orc imm body f s L c b s' HI H) as (L' & (_ & LR & _) & HI').
    change (map fst (ee_notifs (cr_log (observe b s')))) with (N (sc_g s')) in LR.
    assert (QS : forall ls obs, lst_all ls ->
                 s' = {| sc_g := clear_log (sc_g s) <| g_ls := ls |> <| g_obs := obs |>; sc_root := sc_root s |} ->
                 exists L' S', seq_notifs (sibf K) (sokf K) (new_call S) (N (sc_g s')) = Some S' /\ AInv s' L' S').
    { intros ls obs Hls ->. exists L, (new_call S). exact (quiet_seq s L S ls obs HA Hls). }
    destruct c as [|id| |k l|o|o]; cbn [api_call] in H.
    - (* start *)
      destruct (sc_root s) as [r0|] eqn:Hroot.
      + inv H. apply (QS (g_ls (sc_g s)) (g_obs (sc_g s)) (proj1 HI)). reflexivity.
      + match type of H with match ?X with _ => _ end = _ => destruct X as [[st g']| | |] eqn:E end;
          try discriminate. inv H.
        pose proof HI as (_ & Hr). rewrite Hroot in Hr. destruct Hr as [-> Htid].
        destruct (start_step_seq f _ S _ _ HI Hroot Htid HO HJ E L' LR) as (S' & X1 & X2 & X3).
        exists L', S'. split; [exact X1|]. split; [exact HI'|split; assumption].
    - (* completion *)
      change (g_awaited (clear_log (sc_g s))) with (g_awaited (sc_g s)) in H.
      destruct (mem id (g_awaited (sc_g s))).
      + destruct (sc_root s) as [[|id'|cid i sti|sts|bb i sti|k i sti|sts]|] eqn:Hroot; try discriminate.
        match type of H with match ?X with _ => _ end = _ => destruct X as [[st g']| | |] eqn:E end;
          try discriminate. inv H.
        pose proof HI as (_ & Hr). rewrite Hroot in Hr. destruct Hr as (-> & _).
        destruct (finish_step_seq f _ L S id _ _ _ _ HI Hroot HO HJ E L' LR) as (S' & X1 & X2 & X3).
        exists L', S'. split; [exact X1|]. split; [exact HI'|split; assumption].
      + inv H. apply (QS (g_ls (sc_g s)) (g_obs (sc_g s)) (proj1 HI)). reflexivity.
    - inv H. apply (QS (g_ls (sc_g s)) (g_obs (sc_g s)) (proj1 HI)). reflexivity.
    - change (g_ls (clear_log (sc_g s))) with (g_ls (sc_g s)) in H.
      destruct (existsb (fun p => nkind_eqb (fst p) k && Nat.eqb (snd p) l) (g_ls (sc_g s))) eqn:Ex.
      + inv H. apply (QS (g_ls (sc_g s)) (g_obs (sc_g s)) (proj1 HI)). reflexivity.
      + inv H. apply (QS (g_ls (sc_g s) ++ [(k, l)]) (g_obs (sc_g s)) (register_keeps _ _ _ (proj1 HI) Ex)). reflexivity.
    - inv H. apply (QS (g_ls (sc_g s)) (g_obs (sc_g s) ++ [o]) (proj1 HI)). reflexivity.
    - change (g_obs (clear_log (sc_g s))) with (g_obs (sc_g s)) in H.
      destruct (remove_first (Nat.eqb o) (g_obs (sc_g s))) as [l|]; [|discriminate]. inv H.
      apply (QS (g_ls (sc_g s)) l (proj1 HI)). reflexivity.
  Qed.

  Theorem C02seq_run : forall f cs s L S tr,
      AInv s L S -> BInv s -> run_script orc imm f body s cs = Ok tr ->
      seq_run (sibf K) (sokf K) S tr = true.
  Proof.
    intros f cs. induction cs as [|c cs IH]; intros s L S tr HA HB H; cbn [run_script] in H.
    - inv H. reflexivity.
    - destruct (api_call orc imm f body s c) as [[b s']| | |] eqn:E; try discriminate.
      cbn [rbind] in H.
      destruct (run_script orc imm f body s' cs) as [t| | |] eqn:E2; try discriminate.
      cbn [rbind] in H. inv H.
      destruct (api_seq _ _ _ _ _ _ _ HA E) as (L' & S' & X1 & X2).
      pose proof (BInv_step _ _ _ _ _ HB E) as HB'.
      cbn [seq_run]. change (map fst (ee_notifs (cr_log (observe b s')))) with (N (sc_g s')).
      rewrite X1, (settled _ _ _ X2 HB'). cbn [andb]. eapply IH; eassumption.
  Qed.
End Api2.

(* Every run of the reference semantics, for every classification [K] of positions under
   which the program body is sited, every oracle, choice of immediate completions, amount of
   fuel and every script of API calls: if the model runs to the end of the script the
   sequencing monitor accepts the trace -- and so does the program-free monitor. *)
Theorem C02_seq_with_ref : forall K orc imm body f cs tr,
    sited_body K body ->
    run_script orc imm f body sched0 cs = Ok tr -> holds_C02seq_with K tr = true.
Proof.
  intros K orc imm body f cs tr HB H. unfold holds_C02seq_with.
  eapply (C02seq_run K orc imm body HB f cs sched0 life0 seq0); [| |exact H].
  - split; [|split].
    + split; [apply lst_all_default|]. cbn. split; reflexivity.
    + split; reflexivity.
    + intros tk o c Hi. destruct tk; contradiction.
  - apply BInv_sched0.
Qed.

Theorem C02_seq_ref : forall K orc imm body f cs tr,
    sited_body K body ->
    run_script orc imm f body sched0 cs = Ok tr -> holds_C02seq tr = true.
Proof. intros. eapply C02seq_with_free. eapply C02_seq_with_ref; eassumption. Qed.

(* ===================================================================== *)
(* 11. the call-tree unfolding produces sited bodies                       *)
(* ===================================================================== *)
Lemma blk_all_from : forall (P : nat -> xstmt -> Prop) (g : nat -> stmt -> res xstmt) ss i xs,
    (forall k s x, nth_error ss k = Some s -> g (i + k) s = Ok x -> P (i + k) x) ->
    (fix blk (i : nat) (ss : list stmt) {struct ss} : res (list xstmt) :=
       match ss with
       | [] => Ok []
       | s1 :: r => rbind (g i s1) (fun x => rbind (blk (S i) r) (fun xs => Ok (x :: xs)))
       end) i ss = Ok xs -> all_from P i xs.
Proof.
  intros P g. induction ss as [|s1 r IHr]; intros i xs Hg H.
  - inv H. exact I.
  - destruct (g i s1) as [x| | |] eqn:E1; try discriminate. cbn [rbind] in H.
    match type of H with rbind ?X _ = _ => destruct X as [xs'| | |] eqn:E2 end; try discriminate.
    cbn [rbind] in H. inv H. split.
    + specialize (Hg 0 s1 x eq_refl). rewrite Nat.add_0_r in Hg. apply Hg. exact E1.
    + apply (IHr (S i) xs'); [|exact E2]. intros k s x0 Hk Hx.
      replace (S i + k) with (i + S k) in * by lia. apply (Hg (S k) s x0 Hk Hx).
Qed.

Lemma block_all_from : forall (P : nat -> xstmt -> Prop) (g : list nat -> nat -> stmt -> res xstmt) pre ss i xs,
    (forall k s x, nth_error ss k = Some s -> g pre (i + k) s = Ok x -> P (i + k) x) ->
    (fix block (pre : list nat) (i : nat) (ss : list stmt) {struct ss} : res (list xstmt) :=
       match ss with
       | [] => Ok []
       | s1 :: r => rbind (g pre i s1) (fun x => rbind (block pre (S i) r) (fun xs => Ok (x :: xs)))
       end) pre i ss = Ok xs -> all_from P i xs.
Proof.
  intros P g pre. induction ss as [|s1 r IHr]; intros i xs Hg H.
  - inv H. exact I.
  - destruct (g pre i s1) as [x| | |] eqn:E1; try discriminate. cbn [rbind] in H.
    match type of H with rbind ?X _ = _ => destruct X as [xs'| | |] eqn:E2 end; try discriminate.
    cbn [rbind] in H. inv H. split.
    + specialize (Hg 0 s1 x eq_refl). rewrite Nat.add_0_r in Hg. apply Hg. exact E1.
    + apply (IHr (S i) xs'); [|exact E2]. intros k s x0 Hk Hx.
      replace (S i + k) with (i + S k) in * by lia. apply (Hg (S k) s x0 Hk Hx).
Qed.

Lemma calls_all_from : forall (P : nat -> xstmt -> Prop) (g : nat -> call -> res xstmt) ss i xs,
    (forall k x c, g k c = Ok x -> P k x) ->
    (fix calls (i : nat) (l : list call) {struct l} : res (list xstmt) :=
       match l with
       | [] => Ok []
       | c :: r => rbind (g i c) (fun x => rbind (calls (S i) r) (fun xs => Ok (x :: xs)))
       end) i ss = Ok xs -> all_from P i xs.
Proof.
  intros P g. induction ss as [|s1 r IHr]; intros i xs Hg H.
  - inv H. exact I.
  - destruct (g i s1) as [x| | |] eqn:E1; try discriminate. cbn [rbind] in H.
    match type of H with rbind ?X _ = _ => destruct X as [xs'| | |] eqn:E2 end; try discriminate.
    cbn [rbind] in H. inv H. split; [eapply Hg; exact E1|]. apply (IHr (S i) xs'); assumption.
Qed.

Lemma find_task_name : forall n ts t, find_task n ts = Some t -> t_name t = n.
Proof.
  intros n ts. induction ts as [|t0 ts IH]; intros t H; [discriminate|]. cbn in H.
  destruct (Nat.eqb n (t_name t0)) eqn:E.
  - inv H. apply Nat.eqb_eq in E. congruence.
  - apply IH. exact H.
Qed.

(* the block with prefix [pre] of the task body [body] is [ss] *)
Definition blk_at (body : list stmt) (pre : list nat) (ss : list stmt) : Prop :=
  forall p, p <> [] -> kind_path body (pre ++ p) = kind_path ss p.

Lemma blk_at_root : forall body, blk_at body [] body.
Proof. intros body p _. reflexivity. Qed.

Lemma blk_at_kind : forall body pre ss i, blk_at body pre ss -> kind_path body (pre ++ [i]) = kind_path ss [i].
Proof. intros body pre ss i H. apply H. discriminate. Qed.

Section UnfoldSited.
  Variable tasks : list task.

  Lemma kind_at_nil_blockish : forall t, blockish (kind_at tasks t []) = true.
  Proof. intro t. unfold kind_at. destruct (find_task t tasks); reflexivity. Qed.

  Lemma unfold_sited : forall f tn t0 pre i ss s x,
      find_task tn tasks = Some t0 -> blk_at (t_body t0) pre ss -> nth_error ss i = Some s ->
      unfold_stmt tasks f tn (pre ++ [i]) s = Ok x -> sited (kind_at tasks) tn (pre ++ [i]) x.
  Proof.
    induction f as [|f IH]; intros tn t0 pre i ss s x Hft Hblk Hn H; [discriminate|].
    cbn [unfold_stmt] in H.
    assert (KA : forall p, p <> [] -> kind_at tasks tn (pre ++ p) = kind_path ss p).
    { intros p Hp. unfold kind_at. rewrite Hft. apply Hblk. exact Hp. }
    assert (DC : forall pth c y,
               match find_task (c_name c) tasks with
               | Some t =>
                 rbind
                   ((fix blk (i : nat) (ss : list stmt) {struct ss} : res (list xstmt) :=
                       match ss with
                       | [] => Ok []
                       | s1 :: r =>
                         rbind (unfold_stmt tasks f (t_name t) [i] s1)
                               (fun x : xstmt => rbind (blk (S i) r) (fun xs : list xstmt => Ok (x :: xs)))
                       end) 0 (t_body t))
                   (fun body : list xstmt =>
                      Ok (XCall (c_name c) {| st_task := tn; st_path := pth |} (c_ins c) body))
               | None => Exn KeyError
               end = Ok y -> is_call y = true /\ sited (kind_at tasks) tn pth y).
    { intros pth c y Hy. destruct (find_task (c_name c) tasks) as [t|] eqn:Ft; [|discriminate].
      match type of Hy with rbind ?X _ = _ => destruct X as [body| | |] eqn:E end; try discriminate.
      cbn [rbind] in Hy. inv Hy. split; [reflexivity|]. cbn [sited]. split; [reflexivity|].
      split; [apply kind_at_nil_blockish|].
      pose proof (find_task_name _ _ _ Ft) as Hname.
      apply (blk_all_from (fun k s1 => sited (kind_at tasks) (c_name c) ([] ++ [k]) s1)
                          (fun k s1 => unfold_stmt tasks f (t_name t) [k] s1)) in E; [exact E|].
      intros k s1 x1 Hk Hx. cbn [Nat.add] in *. rewrite <- Hname.
      apply (IH (t_name t) t [] k (t_body t) s1 x1); [rewrite Hname; exact Ft|apply blk_at_root|exact Hk|exact Hx]. }
    assert (BL : forall pre0 ss0 xs,
               blk_at (t_body t0) pre0 ss0 ->
               (fix block (pre : list nat) (i : nat) (ss : list stmt) {struct ss} : res (list xstmt) :=
                  match ss with
                  | [] => Ok []
                  | s1 :: r =>
                    rbind (unfold_stmt tasks f tn (pre ++ [i]) s1)
                          (fun x : xstmt => rbind (block pre (S i) r) (fun xs : list xstmt => Ok (x :: xs)))
                  end) pre0 0 ss0 = Ok xs ->
               all_from (fun k s1 => sited (kind_at tasks) tn (pre0 ++ [k]) s1) 0 xs).
    { intros pre0 ss0 xs Hb Hx.
      apply (block_all_from (fun k s1 => sited (kind_at tasks) tn (pre0 ++ [k]) s1)
                            (fun pre i s1 => unfold_stmt tasks f tn (pre ++ [i]) s1)) in Hx; [exact Hx|].
      intros k s1 x1 Hk Hx1. cbn [Nat.add] in *. eapply IH; eassumption. }
    pose proof (KA [i] ltac:(discriminate)) as Ki. cbn [kind_path] in Ki. rewrite Hn in Ki.
    destruct s as [n ins outs|c|cs|e body|par v lim body|e p fl].
    - inv H. reflexivity.
    - apply DC in H. apply H.
    - match type of H with rbind ?X _ = _ => destruct X as [bs| | |] eqn:E end; try discriminate.
      cbn [rbind] in H. inv H. cbn [sited]. split; [exact Ki|].
      apply (calls_all_from (fun j b => is_call b = true /\ sited (kind_at tasks) tn ((pre ++ [i]) ++ [j]) b)
               (fun j c => match find_task (c_name c) tasks with
               | Some t =>
                 rbind
                   ((fix blk (i0 : nat) (ss : list stmt) {struct ss} : res (list xstmt) :=
                       match ss with
                       | [] => Ok []
                       | s1 :: r0 =>
                         rbind (unfold_stmt tasks f (t_name t) [i0] s1)
                               (fun x : xstmt => rbind (blk (S i0) r0) (fun xs : list xstmt => Ok (x :: xs)))
                       end) 0 (t_body t))
                   (fun body : list xstmt =>
                      Ok (XCall (c_name c) {| st_task := tn; st_path := (pre ++ [i]) ++ [j] |} (c_ins c) body))
               | None => Exn KeyError
               end)) in E; [exact E|].
      intros j y c Hy. eapply DC. exact Hy.
    - match type of H with rbind ?X _ = _ => destruct X as [b| | |] eqn:E end; try discriminate.
      cbn [rbind] in H. inv H. cbn [sited]. split; [exact Ki|]. eapply BL; [|exact E].
      intros p Hp. rewrite <- app_assoc. cbn [app]. rewrite (Hblk (i :: p)) by discriminate.
      cbn [kind_path]. rewrite Hn. destruct p; [contradiction|reflexivity].
    - destruct par.
      + destruct body as [|[n0 i0 o0|c|cs0|e0 b0|p0 v0 l0 b0|e0 p0 f0] [|s2 r2]]; try discriminate.
        match type of H with rbind ?X _ = _ => destruct X as [y| | |] eqn:E end; try discriminate.
        cbn [rbind] in H. inv H. cbn [sited]. split; [exact Ki|]. apply DC in E. exact E.
      + match type of H with rbind ?X _ = _ => destruct X as [b| | |] eqn:E end; try discriminate.
        cbn [rbind] in H. inv H. cbn [sited]. split; [exact Ki|]. eapply BL; [|exact E].
        intros p Hp. rewrite <- app_assoc. cbn [app]. rewrite (Hblk (i :: p)) by discriminate.
        cbn [kind_path]. rewrite Hn. destruct p; [contradiction|reflexivity].
    - match type of H with rbind ?X _ = _ => destruct X as [xp| | |] eqn:E1 end; try discriminate.
      cbn [rbind] in H.
      match type of H with rbind ?X _ = _ => destruct X as [xf| | |] eqn:E2 end; try discriminate.
      cbn [rbind] in H. inv H. cbn [sited].
      assert (K0 : forall b q, kind_at tasks tn (((pre ++ [i]) ++ [b]) ++ q) = kind_path ss (i :: b :: q)).
      { intros b q. rewrite <- !app_assoc. cbn [app]. apply KA. discriminate. }
      split; [|split; [|split]].
      + pose proof (K0 0 []) as X. rewrite app_nil_r in X. rewrite X. cbn [kind_path]. rewrite Hn. reflexivity.
      + pose proof (K0 1 []) as X. rewrite app_nil_r in X. rewrite X. cbn [kind_path]. rewrite Hn. reflexivity.
      + eapply BL; [|exact E1]. intros q Hq. rewrite <- !app_assoc. cbn [app]. rewrite (Hblk (i :: 0 :: q)) by discriminate.
        cbn [kind_path]. rewrite Hn. reflexivity.
      + eapply BL; [|exact E2]. intros q Hq. rewrite <- !app_assoc. cbn [app]. rewrite (Hblk (i :: 1 :: q)) by discriminate.
        cbn [kind_path]. rewrite Hn. reflexivity.
  Qed.

  Lemma unfold_program_sited : forall f body,
      unfold_program tasks f = Ok body -> sited_body (kind_at tasks) body.
  Proof.
    intros f body H. unfold unfold_program in H.
    destruct (find_task production_task tasks) as [t|] eqn:Ft; [|discriminate].
    split; [apply kind_at_nil_blockish|]. unfold sblock.
    apply (blk_all_from (fun k s1 => sited (kind_at tasks) production_task ([] ++ [k]) s1)
                        (fun k s1 => unfold_stmt tasks f production_task [k] s1)) in H; [exact H|].
    intros k s1 x1 Hk Hx. cbn [Nat.add] in *.
    apply (unfold_sited f production_task t [] k (t_body t) s1 x1 Ft (blk_at_root _) Hk Hx).
  Qed.
End UnfoldSited.

Theorem C02_seq_programs : forall (c : runcase) (tr : list callrec),
    run_ref c = Ok tr -> mon_C02seq c tr = true.
Proof.
  intros c tr H. unfold run_ref in H.
  destruct (existsb _ (rc_react c)); [discriminate|].
  destruct (unfold_program (p_tasks (rc_prog c)) 200) as [body| | |] eqn:U; try discriminate.
  cbn [rbind] in H. unfold mon_C02seq, holds_C02seq_prog.
  eapply C02_seq_with_ref; [|exact H]. eapply unfold_program_sited. exact U.
Qed.

Theorem C02_seq_free_programs : forall (c : runcase) (tr : list callrec),
    run_ref c = Ok tr -> holds_C02seq tr = true.
Proof. intros c tr H. eapply C02seq_with_free. exact (C02_seq_programs c tr H). Qed.

(* ===================================================================== *)
(* 12. what acceptance means                                               *)
(* ===================================================================== *)
(* the monitor's bookkeeping without its tests: the statements started and not finished, the
   position started last in each task instance, the instances touched in the current call *)
Definition upd_start (S : seqst) (tk : bool) (n : notif) : seqst :=
  let last1 := if tk then drop_key (n_id n) (sq_last S) else sq_last S in
  {| sq_tasks := if tk then oi_of n :: sq_tasks S else sq_tasks S;
     sq_svcs := if tk then sq_svcs S else oi_of n :: sq_svcs S;
     sq_last := match n_ctx n with
                | Some c => (c, st_path (n_site n)) :: drop_key c last1
                | None => last1
                end;
     sq_act := if tk then n_id n :: sq_act S else sq_act S |}.

Definition upd_finish (S : seqst) (tk : bool) (n : notif) : seqst :=
  let l := if tk then sq_tasks S else sq_svcs S in
  let rest := match remove_first (oi_eqb (oi_of n)) l with Some r => r | None => l end in
  {| sq_tasks := if tk then rest else sq_tasks S;
     sq_svcs := if tk then sq_svcs S else rest;
     sq_last := sq_last S;
     sq_act := match n_ctx n with Some c => c :: sq_act S | None => sq_act S end |}.

Definition summ (S : seqst) (n : notif) : seqst :=
  match n_kind n with
  | TS => upd_start S true n
  | SS => upd_start S false n
  | TF => upd_finish S true n
  | SF => upd_finish S false n
  end.

Definition call_notifs (r : callrec) : list notif := map fst (ee_notifs (cr_log r)).

(* the bookkeeping after the calls [tr] *)
Fixpoint hist (S : seqst) (tr : list callrec) : seqst :=
  match tr with
  | [] => S
  | r :: t => hist (fold_left summ (call_notifs r) (new_call S)) t
  end.

(* the tests applied to a started notification of a statement of instance [c] *)
Definition start_tests (sib : name -> bool -> list nat -> bool -> list nat -> bool)
           (sok : name -> list nat -> list nat -> bool) (H : seqst) (tk : bool) (n : notif) (c : nat) : Prop :=
  let tn := st_task (n_site n) in
  let p := st_path (n_site n) in
  (* (d) the instance is open and executes the task the site lies in *)
  (exists o, In o (sq_tasks H) /\ oi_id o = c /\ oi_name o = tn) /\
  (* (a) whatever is in progress in the instance is a parallel sibling *)
  (forall otk o, In o (ssel otk H) -> oi_ctx o = Some c ->
                 st_task (oi_site o) = tn /\ sib tn otk (opath o) tk p = true) /\
  (* (b) source order with respect to the statement started last in the instance *)
  (forall t, assoc c (sq_last H) = Some t -> sok tn t p = true) /\
  (* (c) the instance was started, or a statement of it finished, earlier in this call *)
  In c (sq_act H).

Section Meaning.
  Variable sib : name -> bool -> list nat -> bool -> list nat -> bool.
  Variable sok : name -> list nat -> list nat -> bool.

  Lemma seq_start_summ : forall S tk n S', seq_start sib sok S tk n = Some S' -> S' = upd_start S tk n.
  Proof.
    intros S tk n S' H. unfold seq_start in H. unfold upd_start.
    destruct (n_ctx n); match type of H with (if ?X then _ else _) = _ => destruct X end; try discriminate;
      inv H; reflexivity.
  Qed.

  Lemma seq_finish_summ : forall S tk n S', seq_finish S tk n = Some S' -> S' = upd_finish S tk n.
  Proof.
    intros S tk n S' H. unfold seq_finish in H. unfold upd_finish.
    destruct (remove_first (oi_eqb (oi_of n)) (if tk then sq_tasks S else sq_svcs S)); [|discriminate].
    match type of H with (if ?X then _ else _) = _ => destruct X end; [discriminate|]. inv H. reflexivity.
  Qed.

  Lemma seq_notif_summ : forall S n S', seq_notif sib sok S n = Some S' -> S' = summ S n.
  Proof.
    intros S n S' H. unfold seq_notif in H. unfold summ.
    destruct (n_kind n); first [apply seq_start_summ; exact H|eapply seq_finish_summ; exact H].
  Qed.

  Lemma seq_notifs_fold : forall ns S S', seq_notifs sib sok S ns = Some S' -> S' = fold_left summ ns S.
  Proof.
    induction ns as [|n ns IH]; intros S S' H; cbn [seq_notifs fold_left] in *; [inv H; reflexivity|].
    destruct (seq_notif sib sok S n) as [S1|] eqn:E; [|discriminate].
    rewrite <- (seq_notif_summ _ _ _ E). apply IH. exact H.
  Qed.

  Lemma seq_notifs_at : forall a n b S S',
      seq_notifs sib sok S (a ++ n :: b) = Some S' ->
      seq_notif sib sok (fold_left summ a S) n = Some (summ (fold_left summ a S) n).
  Proof.
    intros a n b S S' H. rewrite seq_notifs_app in H.
    destruct (seq_notifs sib sok S a) as [S1|] eqn:E; [|discriminate].
    rewrite <- (seq_notifs_fold _ _ _ E). cbn [seq_notifs] in H.
    destruct (seq_notif sib sok S1 n) as [S2|] eqn:E2; [|discriminate].
    rewrite <- (seq_notif_summ _ _ _ E2). reflexivity.
  Qed.

  Lemma seq_run_at : forall pre r post S,
      seq_run sib sok S (pre ++ r :: post) = true ->
      exists S2, seq_notifs sib sok (new_call (hist S pre)) (call_notifs r) = Some S2 /\ seq_settled S2 = true.
  Proof.
    induction pre as [|r0 pre IH]; intros r post S H; cbn [app seq_run hist] in *.
    - fold (call_notifs r) in H.
      destruct (seq_notifs sib sok (new_call S) (call_notifs r)) as [S2|]; [|discriminate].
      apply andb_true_iff in H. exists S2. split; [reflexivity|apply H].
    - fold (call_notifs r0) in H.
      destruct (seq_notifs sib sok (new_call S) (call_notifs r0)) as [S1|] eqn:E; [|discriminate].
      apply andb_true_iff in H. destruct H as [_ H]. rewrite <- (seq_notifs_fold _ _ _ E). apply (IH r post S1). exact H.
  Qed.

  Lemma seq_start_tests : forall H tk n S' c,
      seq_start sib sok H tk n = Some S' -> n_ctx n = Some c -> start_tests sib sok H tk n c.
  Proof.
    intros H tk n S' c HS Hc. unfold seq_start in HS. rewrite Hc in HS.
    match type of HS with (if ?X then _ else _) = _ => destruct X eqn:E end; [|discriminate].
    repeat (apply andb_true_iff in E; destruct E as [E ?]).
    rename H0 into Hfresh. rename H1 into Hact. rename H2 into Hok. rename H3 into Hsv. rename H4 into Htk.
    split; [|split; [|split]].
    - apply existsb_exists in E. destruct E as (o & Hi & He). apply andb_true_iff in He. destruct He as [E1 E2].
      exists o. split; [exact Hi|]. split; [apply Nat.eqb_eq; exact E1|apply Nat.eqb_eq; exact E2].
    - intros otk o Hi Hcx.
      assert (Hk : kid_ok sib (st_task (n_site n)) otk o tk (st_path (n_site n)) = true).
      { destruct otk; cbn [ssel] in Hi.
        - rewrite forallb_forall in Htk. specialize (Htk _ Hi). apply orb_true_iff in Htk.
          destruct Htk as [Hn|Hk]; [|exact Hk]. apply negb_true_iff in Hn.
          rewrite (proj2 (ctx_is_true c o) Hcx) in Hn. discriminate.
        - rewrite forallb_forall in Hsv. specialize (Hsv _ Hi). apply orb_true_iff in Hsv.
          destruct Hsv as [Hn|Hk]; [|exact Hk]. apply negb_true_iff in Hn.
          rewrite (proj2 (ctx_is_true c o) Hcx) in Hn. discriminate. }
      unfold kid_ok in Hk. apply andb_true_iff in Hk. destruct Hk as [K1 K2]. split; [apply Nat.eqb_eq; exact K1|exact K2].
    - intros t Ht. rewrite Ht in Hok. exact Hok.
    - apply mem_true_in. exact Hact.
  Qed.

  (* In an accepted trace, at every started notification [n] of a statement of instance [c] --
     after the calls [pre] and the notifications [a] of the current call -- the four tests hold
     of the bookkeeping of that history; every finished notification names a statement in
     progress; a task-finished notification leaves no statement of that instance in progress;
     at the end of every call every open task instance has a statement in progress. *)
  Theorem seq_run_meaning : forall tr pre r post a n b,
      seq_run sib sok seq0 tr = true -> tr = pre ++ r :: post -> call_notifs r = a ++ n :: b ->
      let H := fold_left summ a (new_call (hist seq0 pre)) in
      (forall c, n_ctx n = Some c ->
                 (n_kind n = TS -> start_tests sib sok H true n c) /\
                 (n_kind n = SS -> start_tests sib sok H false n c)) /\
      (n_kind n = TF -> In (oi_of n) (sq_tasks H) /\ has_kid (n_id n) (summ H n) = false) /\
      (n_kind n = SF -> In (oi_of n) (sq_svcs H)) /\
      seq_settled (fold_left summ (call_notifs r) (new_call (hist seq0 pre))) = true.
  Proof.
    intros tr pre r post a n b Hrun -> Hcall H.
    destruct (seq_run_at _ _ _ _ Hrun) as (S2 & HS & Hset).
    rewrite <- (seq_notifs_fold _ _ _ HS). split; [|split; [|split]]; [| | |exact Hset].
    - intros c Hc. rewrite Hcall in HS. pose proof (seq_notifs_at _ _ _ _ _ HS) as Hn. fold H in Hn.
      unfold seq_notif in Hn. split; intro Hk; rewrite Hk in Hn; eapply seq_start_tests; eassumption.
    - intro Hk. rewrite Hcall in HS. pose proof (seq_notifs_at _ _ _ _ _ HS) as Hn. fold H in Hn.
      unfold seq_notif in Hn. rewrite Hk in Hn. unfold summ. rewrite Hk.
      unfold seq_finish in Hn.
      destruct (remove_first (oi_eqb (oi_of n)) (sq_tasks H)) as [rest|] eqn:R; [|discriminate].
      match type of Hn with (if ?X then _ else _) = _ => destruct X eqn:E end; [discriminate|].
      split.
      + destruct (RefC07.remove_first_perm _ _ _ _ R) as (y & Hy & Hp). apply oi_eqb_eq in Hy. subst y.
        eapply Permutation_in; [apply Permutation_sym; exact Hp|]. left. reflexivity.
      + unfold upd_finish. rewrite R. cbn [andb] in E. exact E.
    - intro Hk. rewrite Hcall in HS. pose proof (seq_notifs_at _ _ _ _ _ HS) as Hn. fold H in Hn.
      unfold seq_notif in Hn. rewrite Hk in Hn. unfold seq_finish in Hn.
      destruct (remove_first (oi_eqb (oi_of n)) (sq_svcs H)) as [rest|] eqn:R; [|discriminate].
      destruct (RefC07.remove_first_perm _ _ _ _ R) as (y & Hy & Hp). apply oi_eqb_eq in Hy. subst y.
      eapply Permutation_in; [apply Permutation_sym; exact Hp|]. left. reflexivity.
  Qed.
End Meaning.

(* the bookkeeping, declaratively: an instance is marked in the current call only by its own
   task-started notification or by a finished notification of one of its statements; a
   statement is in progress only if it was started *)
Definition touches (c : nat) (x : notif) : Prop :=
  (n_kind x = TS /\ n_id x = c) \/ ((n_kind x = TF \/ n_kind x = SF) /\ n_ctx x = Some c).

Lemma act_sound : forall a S c,
    In c (sq_act (fold_left summ a S)) -> In c (sq_act S) \/ exists x, In x a /\ touches c x.
Proof.
  induction a as [|n a IH]; intros S c H; cbn [fold_left] in H; [left; exact H|].
  destruct (IH _ _ H) as [H1|(x & Hx & Ht)]; [|right; exists x; split; [right; exact Hx|exact Ht]].
  unfold summ in H1. destruct (n_kind n) eqn:Hk; cbn [upd_start upd_finish sq_act] in H1.
  - destruct H1 as [<-|H1]; [|left; exact H1]. right. exists n. split; [left; reflexivity|]. left. split; [exact Hk|reflexivity].
  - destruct (n_ctx n) as [c'|] eqn:Hc; [|left; exact H1]. destruct H1 as [<-|H1]; [|left; exact H1].
    right. exists n. split; [left; reflexivity|]. right. split; [left; exact Hk|exact Hc].
  - left. exact H1.
  - destruct (n_ctx n) as [c'|] eqn:Hc; [|left; exact H1]. destruct H1 as [<-|H1]; [|left; exact H1].
    right. exists n. split; [left; reflexivity|]. right. split; [right; exact Hk|exact Hc].
Qed.

Lemma opens_sound : forall a S tk o,
    In o (ssel tk (fold_left summ a S)) ->
    In o (ssel tk S) \/ exists x, In x a /\ n_kind x = (if tk then TS else SS) /\ oi_of x = o.
Proof.
  induction a as [|n a IH]; intros S tk o H; cbn [fold_left] in H; [left; exact H|].
  destruct (IH _ _ _ H) as [H1|(x & Hx & Ht)]; [|right; exists x; split; [right; exact Hx|exact Ht]].
  assert (Hsub : forall l, In o (match remove_first (oi_eqb (oi_of n)) l with Some r => r | None => l end) -> In o l).
  { intros l Hi. destruct (remove_first (oi_eqb (oi_of n)) l) eqn:R; [eapply remove_first_in; eassumption|exact Hi]. }
  unfold summ in H1. destruct (n_kind n) eqn:Hk; destruct tk; cbn [upd_start upd_finish ssel sq_tasks sq_svcs] in H1.
  - destruct H1 as [<-|H1]; [|left; exact H1]. right. exists n. split; [left; reflexivity|]. split; [exact Hk|reflexivity].
  - left. exact H1.
  - left. apply Hsub. exact H1.
  - left. exact H1.
  - left. exact H1.
  - destruct H1 as [<-|H1]; [|left; exact H1]. right. exists n. split; [left; reflexivity|]. split; [exact Hk|reflexivity].
  - left. exact H1.
  - left. apply Hsub. exact H1.
Qed.

(* the program-free monitor: a started notification of a statement of instance [c] is preceded,
   in the same call, by the task-started notification of [c] or by a finished notification of a
   statement of [c] (no deferral); what is in progress in [c] at that moment are task calls with
   the same parent position (parallel siblings); with respect to the statement started last in
   [c], at top level of the task the index increases, a position is started again only below
   the top level *)
Theorem holds_C02seq_meaning : forall tr pre r post a n b c,
    holds_C02seq tr = true -> tr = pre ++ r :: post -> call_notifs r = a ++ n :: b ->
    n_kind n = TS \/ n_kind n = SS -> n_ctx n = Some c ->
    let H := fold_left summ a (new_call (hist seq0 pre)) in
    (exists x, In x a /\ touches c x) /\
    (forall otk o, In o (ssel otk H) -> oi_ctx o = Some c ->
                   st_task (oi_site o) = st_task (n_site n) /\
                   sib_free otk (opath o) (nkind_eqb (n_kind n) TS) (st_path (n_site n)) = true) /\
    (forall t, assoc c (sq_last H) = Some t -> ok_free t (st_path (n_site n)) = true) /\
    (exists o, In o (sq_tasks H) /\ oi_id o = c /\ oi_name o = st_task (n_site n)).
Proof.
  intros tr pre r post a n b c Hh Htr Hcall Hk Hc H. unfold holds_C02seq in Hh.
  destruct (seq_run_meaning _ _ tr pre r post a n b Hh Htr Hcall) as (M1 & _). fold H in M1.
  destruct (M1 c Hc) as [M2 M3].
  assert (T : start_tests (fun _ => sib_free) (fun _ => ok_free) H (nkind_eqb (n_kind n) TS) n c).
  { destruct Hk as [Hk|Hk]; rewrite Hk; cbn [nkind_eqb]; [apply M2|apply M3]; exact Hk. }
  destruct T as (T1 & T2 & T3 & T4). split; [|split; [|split]]; try assumption.
  destruct (act_sound a _ c T4) as [[]|X]. exact X.
Qed.

(* with the classification of the program's positions *)
Theorem holds_C02seq_with_meaning : forall K tr pre r post a n b c,
    holds_C02seq_with K tr = true -> tr = pre ++ r :: post -> call_notifs r = a ++ n :: b ->
    n_kind n = TS \/ n_kind n = SS -> n_ctx n = Some c ->
    let H := fold_left summ a (new_call (hist seq0 pre)) in
    let tn := st_task (n_site n) in
    (exists x, In x a /\ touches c x) /\
    (forall otk o, In o (ssel otk H) -> oi_ctx o = Some c ->
                   st_task (oi_site o) = tn /\
                   sibK (K tn) otk (opath o) (nkind_eqb (n_kind n) TS) (st_path (n_site n)) = true) /\
    (forall t, assoc c (sq_last H) = Some t -> okK (K tn) t (st_path (n_site n)) = true) /\
    (exists o, In o (sq_tasks H) /\ oi_id o = c /\ oi_name o = tn).
Proof.
  intros K tr pre r post a n b c Hh Htr Hcall Hk Hc H tn. unfold holds_C02seq_with in Hh.
  destruct (seq_run_meaning _ _ tr pre r post a n b Hh Htr Hcall) as (M1 & _). fold H in M1.
  destruct (M1 c Hc) as [M2 M3].
  assert (T : start_tests (fun tn => sibK (K tn)) (fun tn => okK (K tn)) H (nkind_eqb (n_kind n) TS) n c).
  { destruct Hk as [Hk|Hk]; rewrite Hk; cbn [nkind_eqb]; [apply M2|apply M3]; exact Hk. }
  destruct T as (T1 & T2 & T3 & T4). split; [|split; [|split]]; try assumption.
  destruct (act_sound a _ c T4) as [[]|X]. exact X.
Qed.

(* ===================================================================== *)
(* 13. examples: accepted runs, rejected tampered traces, necessity of the  *)
(*     guard                                                               *)
(* ===================================================================== *)
Definition seq_ex_trace : list callrec := match run_ref ex_case with Ok t => t | _ => [] end.

(* the run through all statement kinds (Examples.v): accepted with and without the program *)
Example ex_case_seq_accepted :
  List.length seq_ex_trace = 16 /\ mon_C02seq ex_case seq_ex_trace = true /\ holds_C02seq seq_ex_trace = true.
Proof. vm_compute. repeat split; reflexivity. Qed.

Example ex_case_sited : sited_body (kind_at (p_tasks (rc_prog ex_case))) ex_body.
Proof.
  unfold ex_body. destruct (unfold_program (p_tasks (rc_prog ex_case)) 200) as [b| | |] eqn:U.
  - eapply unfold_program_sited. exact U.
  - vm_compute in U. discriminate U.
  - vm_compute in U. discriminate U.
  - vm_compute in U. discriminate U.
Qed.

(* hand-written traces of a task  [A; B]  (services at positions [0] and [1]) *)
Definition mkrec (ns : list notif) : callrec :=
  {| cr_ret := true; cr_log := map (fun n => ENotif 0 n true) ns; cr_running := true;
     cr_awaited := []; cr_final := false |}.
Definition nroot (k : nkind) : notif := mk k production_task root_site 0 None [].
Definition nsvc (k : nkind) (nm : name) (p : list nat) (id : nat) : notif :=
  mk k nm (mksite production_task p) id (Some 0) [].

Example two_statements_in_sequence_accepted :
  holds_C02seq [mkrec [nroot TS; nsvc SS 1 [0] 0];
                mkrec [nsvc SF 1 [0] 0; nsvc SS 2 [1] 1];
                mkrec [nsvc SF 2 [1] 1; nroot TF]] = true.
Proof. vm_compute. reflexivity. Qed.

(* (a) two sibling statements of one block in progress together *)
Example siblings_together_rejected :
  holds_C02seq [mkrec [nroot TS; nsvc SS 1 [0] 0; nsvc SS 2 [1] 1]] = false.
Proof. vm_compute. reflexivity. Qed.

(* (b) the order of the two statements swapped *)
Example order_swapped_rejected :
  holds_C02seq [mkrec [nroot TS; nsvc SS 2 [1] 0];
                mkrec [nsvc SF 2 [1] 0; nsvc SS 1 [0] 1]] = false.
Proof. vm_compute. reflexivity. Qed.

(* (b) a statement started twice in one execution of the block *)
Example started_twice_rejected :
  holds_C02seq [mkrec [nroot TS; nsvc SS 1 [0] 0];
                mkrec [nsvc SF 1 [0] 0; nsvc SS 1 [0] 1]] = false.
Proof. vm_compute. reflexivity. Qed.

(* (c) the next statement deferred to a later call *)
Example deferred_start_rejected :
  holds_C02seq [mkrec [nroot TS; nsvc SS 1 [0] 0];
                mkrec [nsvc SF 1 [0] 0];
                mkrec [nsvc SS 2 [1] 1]] = false
  /\ holds_C02seq [mkrec [nroot TS; nsvc SS 1 [0] 0];
                   mkrec [nsvc SF 1 [0] 0]] = false.
Proof. vm_compute. split; reflexivity. Qed.

(* tampered copies of the reference trace of ex_case *)
Fixpoint upd_nth {A} (i : nat) (f : A -> A) (l : list A) : list A :=
  match l, i with
  | [], _ => []
  | x :: t, O => f x :: t
  | x :: t, S j => x :: upd_nth j f t
  end.

Definition map_notifs (f : list (notif * bool) -> list (notif * bool)) (r : callrec) : callrec :=
  {| cr_ret := cr_ret r; cr_log := map (fun p => ENotif 0 (fst p) (snd p)) (f (ee_notifs (cr_log r)));
     cr_running := cr_running r; cr_awaited := cr_awaited r; cr_final := cr_final r |}.

Definition swap_last2 {A} (l : list A) : list A :=
  match rev l with
  | x :: y :: t => rev t ++ [x; y]
  | _ => l
  end.

(* the service started after the Parallel is announced before the last branch of the Parallel
   is reported finished *)
Example ex_case_overlap_rejected :
  mon_C02seq ex_case (upd_nth 4 (map_notifs swap_last2) seq_ex_trace) = false
  /\ holds_C02seq (upd_nth 4 (map_notifs swap_last2) seq_ex_trace) = false.
Proof. vm_compute. split; reflexivity. Qed.

(* the two iterations of the counting loop (service identifiers 4 and 5) reported at the position
   of the statement of the Passed branch of the Condition, which is not in a loop: rejected with
   the program; the trace alone cannot tell (a position below the top level may lie in a loop) *)
Definition resite_svc (ids : list nat) (p : list nat) (e : entry) : entry :=
  match e with
  | ENotif l n r =>
    match n_kind n with
    | SS | SF =>
      if mem (n_id n) ids
      then ENotif l {| n_kind := n_kind n; n_name := n_name n; n_site := mksite (st_task (n_site n)) p;
                       n_id := n_id n; n_ctx := n_ctx n; n_params := n_params n |} r
      else e
    | _ => e
    end
  | _ => e
  end.
Definition resite_trace (ids : list nat) (p : list nat) (tr : list callrec) : list callrec :=
  map (fun r => {| cr_ret := cr_ret r; cr_log := map (resite_svc ids p) (cr_log r); cr_running := cr_running r;
                   cr_awaited := cr_awaited r; cr_final := cr_final r |}) tr.

Example ex_case_branch_twice_rejected :
  mon_C02seq ex_case (resite_trace [4; 5] [3; 0; 0] seq_ex_trace) = false
  /\ holds_C02seq (resite_trace [4; 5] [3; 0; 0] seq_ex_trace) = true.
Proof. vm_compute. split; reflexivity. Qed.

(* the first statement of the production task reported at position [7]: out of order at top level *)
Example ex_case_order_rejected :
  mon_C02seq ex_case (resite_trace [0] [7] seq_ex_trace) = false
  /\ holds_C02seq (resite_trace [0] [7] seq_ex_trace) = false.
Proof. vm_compute. split; reflexivity. Qed.

(* ---- the guard is necessary ---- *)
(* bodies whose sites are not the positions of their statements: the reference semantics
   executes the list in order whatever the sites say *)
Definition ex_unsited_body : list xstmt :=
  [XService 1 (mksite production_task [1]) []; XService 2 (mksite production_task [0]) []].

Example C02_seq_needs_sited_refuted :
  match run_script (fun _ _ => None) (fun _ => true) 20 ex_unsited_body sched0 [AStart] with
  | Ok tr => holds_C02seq tr = false
  | _ => False
  end.
Proof. vm_compute. reflexivity. Qed.

(* a Parallel with a branch that is not a task call (RefC04.ex_mixed_parallel_body): the service
   of the second branch is started while the call of the first branch is in progress in the same
   instance -- outside what the grammar allows and the unfolding produces *)
Example C02_seq_needs_call_branches_refuted :
  match run_script ex_nested_orc (fun _ => false) 100 ex_mixed_parallel_body sched0 [AStart] with
  | Ok tr => holds_C02seq tr = false
  | _ => False
  end.
Proof. vm_compute. reflexivity. Qed.
